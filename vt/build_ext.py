"""Out-of-tree rebuild of the compiled LIS representation code modules from the sources in the tree under test.

The in-tree ``*.so`` files are git-ignored build products; ``LIS.core.RepCode`` overlays the Python decoders with
them, so a change to ``cRepCode.pyx`` / ``LISRepCode.cpp`` would be invisible without a rebuild.  ``install()``
compiles ``cRepCode.pyx`` and ``cpLISRepCode.cpp + LISRepCode.cpp`` into ``/verif/.build/<source hash>/`` (cached by the
hash of the sources, ~6 s when cold) and registers the fresh modules in ``sys.modules`` under their
``TotalDepth.LIS.core.*`` names before ``TotalDepth.LIS.core.RepCode`` is imported.
"""
import hashlib
import importlib
import importlib.util
import os
import shutil
import subprocess
import sys
import sysconfig

from vt.engine import HarnessError, REPO, VERIF

CORE = os.path.join(REPO, 'src', 'TotalDepth', 'LIS', 'core')
SOURCES = ['src/cython/cRepCode.pyx', 'src/cp/cpLISRepCode.cpp', 'src/cp/cpLISRepCode.h', 'src/cpp/LISRepCode.cpp',
           'src/cpp/LISRepCode.h']
_installed = {}


def _hash():
    h = hashlib.sha1()
    for s in SOURCES:
        with open(os.path.join(CORE, s), 'rb') as f:
            h.update(s.encode() + b'\0' + f.read() + b'\0')
    h.update(sys.version.encode())
    return h.hexdigest()[:16]


def _run(cmd, cwd):
    p = subprocess.run(cmd, cwd=cwd, stdout=subprocess.PIPE, stderr=subprocess.STDOUT, text=True)
    if p.returncode != 0:
        raise HarnessError('extension build failed: %s\n%s' % (' '.join(cmd), p.stdout[-3000:]))


def build():
    """Returns the directory holding cRepCode.so and cpRepCode.so built from the current sources."""
    tag = _hash()
    root = os.path.join(VERIF, '.build')
    out = os.path.join(root, tag)
    ext = sysconfig.get_config_var('EXT_SUFFIX')
    if os.path.exists(os.path.join(out, 'ok')):
        return out, ext
    tmp = out + '.tmp%d' % os.getpid()
    shutil.rmtree(tmp, ignore_errors=True)
    os.makedirs(tmp)
    inc = sysconfig.get_paths()['include']
    cflags = ['-O2', '-fPIC', '-fwrapv', '-I' + inc]
    shutil.copy(os.path.join(CORE, 'src/cython/cRepCode.pyx'), os.path.join(tmp, 'cRepCode.pyx'))
    _run([sys.executable, '-m', 'cython', '-3', 'cRepCode.pyx', '-o', 'cRepCode.c'], tmp)
    _run(['gcc', '-shared', *cflags, 'cRepCode.c', '-o', 'cRepCode' + ext, '-lm'], tmp)
    _run(['g++', '-shared', '-std=c++14', *cflags, '-I' + os.path.join(CORE, 'src/cp'), '-I' + os.path.join(CORE, 'src/cpp'),
          os.path.join(CORE, 'src/cp/cpLISRepCode.cpp'), os.path.join(CORE, 'src/cpp/LISRepCode.cpp'),
          '-o', 'cpRepCode' + ext], tmp)
    with open(os.path.join(tmp, 'ok'), 'w') as f:
        f.write(tag)
    try:
        os.rename(tmp, out)
    except OSError:  # another shard won the race
        shutil.rmtree(tmp, ignore_errors=True)
    # keep the cache small
    try:
        import time
        olds = sorted((os.path.getmtime(os.path.join(root, d)), d) for d in os.listdir(root) if d != tag and '.tmp' not in d)
        for t, d in olds[:-3]:
            if time.time() - t > 6 * 3600:   # never remove a build another process may still be loading
                shutil.rmtree(os.path.join(root, d), ignore_errors=True)
    except OSError:
        pass
    return out, ext


def _load(name, path):
    spec = importlib.util.spec_from_file_location(name, path)
    mod = importlib.util.module_from_spec(spec)
    spec.loader.exec_module(mod)
    return mod


def install():
    """Builds and registers the fresh extension modules; returns {'cRepCode': module, 'cpRepCode': module}."""
    if _installed:
        return _installed
    if 'TotalDepth.LIS.core.RepCode' in sys.modules:
        raise HarnessError('build_ext.install() called after TotalDepth.LIS.core.RepCode was imported')
    out, ext = build()
    import TotalDepth.LIS.core as core
    for short in ('cRepCode', 'cpRepCode'):
        full = 'TotalDepth.LIS.core.' + short
        mod = _load(full, os.path.join(out, short + ext))
        sys.modules[full] = mod
        setattr(core, short, mod)
        _installed[short] = mod
    from TotalDepth.LIS.core import RepCode
    if RepCode.from68.__module__ is not None and getattr(RepCode.from68, '__self__', None) not in (None, _installed['cpRepCode']):
        raise HarnessError('RepCode.from68 does not come from the fresh cpRepCode build')
    return _installed


def in_tree(short):
    """Loads the in-tree (possibly stale) binary under a private name, or None."""
    ext = sysconfig.get_config_var('EXT_SUFFIX')
    path = os.path.join(CORE, short + ext)
    if not os.path.exists(path):
        return None
    tmp = os.path.join(VERIF, '.build', 'intree_%d' % os.getpid())
    os.makedirs(tmp, exist_ok=True)
    dst = os.path.join(tmp, short + ext)
    shutil.copy(path, dst)
    try:
        return _load('TotalDepth.LIS.core.' + short, dst)
    finally:
        shutil.rmtree(tmp, ignore_errors=True)
