"""Independent LIS-79 encoder (physical layer first; logical records further down).

Written from the LIS-79 description of Physical Records (PRH = 16 bit big-endian length including header and
trailer + 16 bit attributes; trailer = optional record number, file number, checksum in that order) and of the TIF
marker convention (three 32 bit little-endian words type / previous / next in front of every physical record, a
type 1 marker pair at the end).  Shares no code with TotalDepth.
"""
import struct

from hypothesis import strategies as st

PRH_LEN = 4
ATTR_SUCCESSOR = 1 << 0
ATTR_PREDECESSOR = 1 << 1
ATTR_RECNUM = 1 << 9
ATTR_FILENUM = 1 << 10
ATTR_CHECKSUM = 1 << 12
TIF_LEN = 12


def trailer_len(cfg):
    return 2 * bool(cfg.get('rec_num')) + 2 * (cfg.get('file_num') is not None) + 2 * bool(cfg.get('checksum'))


def greedy_splits(lr_len, max_payload):
    """Payload sizes of the physical records of one logical record, as many full records as possible."""
    ret = []
    left = lr_len
    while left > 0:
        n = min(left, max_payload)
        ret.append(n)
        left -= n
    return ret


def encode_physical(lrs, cfg, splits=None):
    """lrs: list of bytes (complete logical records, header included).
    cfg: {'pr_len': max physical record length, 'rec_num': bool, 'file_num': None|int, 'checksum': bool,
          'tif': 'none'|'normal'|'reversed'}
    splits: None (greedy) or per logical record a list of payload sizes summing to its length.
    Returns (file bytes, model) where model = {'lr_start': [...], 'prs': [[(pr_pos, header_pos, payload_pos,
    payload_len, pr_len)...] per lr], 'checksum_pos': [...], 'tif_pos': [...]}"""
    tlen = trailer_len(cfg)
    max_payload = cfg['pr_len'] - PRH_LEN - tlen
    if max_payload < 1:
        raise ValueError('no room for payload')
    tif = cfg.get('tif', 'none')
    fmt = {'normal': '<3L', 'reversed': '>3L'}.get(tif)
    out = bytearray()
    model = {'lr_start': [], 'prs': [], 'checksum_pos': [], 'tif_pos': []}
    rec_no = 0
    prev_tif = 0
    for k, lr in enumerate(lrs):
        sizes = splits[k] if splits is not None else greedy_splits(len(lr), max_payload)
        if sum(sizes) != len(lr) or any(s < 1 or s > max_payload for s in sizes):
            raise ValueError('bad split')
        model['lr_start'].append(len(out))
        prs = []
        ofs = 0
        for j, n in enumerate(sizes):
            pr_len = PRH_LEN + n + tlen
            attr = 0
            if j < len(sizes) - 1:
                attr |= ATTR_SUCCESSOR
            if j > 0:
                attr |= ATTR_PREDECESSOR
            if cfg.get('rec_num'):
                attr |= ATTR_RECNUM
            if cfg.get('file_num') is not None:
                attr |= ATTR_FILENUM
            if cfg.get('checksum'):
                attr |= ATTR_CHECKSUM
            pos = len(out)
            # optional null padding after the physical record (LIS-79 2.3.1.1: to a minimum record length; in practice
            # also to a multiple of 2 or 4 bytes): cfg['pad'] = ('min', length) | ('mod', 2 | 4); covered by the TIF marker
            pad = cfg.get('pad')
            npad = 0 if not pad else max(0, pad[1] - pr_len) if pad[0] == 'min' else (-pr_len) % pad[1]
            if fmt:
                model['tif_pos'].append(pos)
                out += struct.pack(fmt, 0, prev_tif, pos + TIF_LEN + pr_len + npad)
                prev_tif = pos
            hpos = len(out)
            out += struct.pack('>HH', pr_len, attr)
            out += lr[ofs:ofs + n]
            if cfg.get('rec_num'):
                out += struct.pack('>H', rec_no & 0xFFFF)
            if cfg.get('file_num') is not None:
                out += struct.pack('>H', cfg['file_num'])
            if cfg.get('checksum'):
                model['checksum_pos'].append(len(out))
                out += b'\x00\x00'
            out += b'\x00' * npad
            prs.append((pos, hpos, hpos + PRH_LEN, n, pr_len))
            rec_no += 1
            ofs += n
        model['prs'].append(prs)
    if fmt:
        # two end-of-file markers
        pos = len(out)
        model['tif_pos'].append(pos)
        out += struct.pack(fmt, 1, prev_tif, pos + TIF_LEN)
        model['tif_pos'].append(pos + TIF_LEN)
        out += struct.pack(fmt, 1, pos, pos + 2 * TIF_LEN)
    return bytes(out), model


def self_check_physical(data, lrs, cfg, model):
    """Structural invariants of the encoder's own output (a failure is a harness error)."""
    tif = cfg.get('tif', 'none') != 'none'
    pos = 0
    for k, prs in enumerate(model['prs']):
        got = b''
        for (p, h, pl, n, pr_len) in prs:
            assert p == pos, 'gap'
            assert h == p + (TIF_LEN if tif else 0)
            assert struct.unpack('>H', data[h:h + 2])[0] == pr_len
            got += data[pl:pl + n]
            pos = h + pr_len
        assert got == lrs[k], 'payload'
    assert pos + (2 * TIF_LEN if tif else 0) == len(data)


# -------------------------------------------------------------------------------------------------
# Strategies
# -------------------------------------------------------------------------------------------------
@st.composite
def phys_cfgs(draw, tif_options=('none', 'normal', 'reversed'), min_payload=1):
    rec_num = draw(st.booleans())
    file_num = draw(st.one_of(st.none(), st.sampled_from([0, 1, 255, 256, 65535]), st.integers(0, 65535)))
    checksum = draw(st.booleans())
    tl = 2 * rec_num + 2 * (file_num is not None) + 2 * checksum
    lo = PRH_LEN + tl + min_payload
    pr_len = draw(st.one_of(st.integers(lo, lo + 12), st.integers(lo, 80), st.integers(lo, 1100),
                            st.sampled_from([244, 256, 500, 756, 1012, 1024, 2036, 4084, 4096, 8192, 32756, 65524, 65535]), st.integers(lo, 65535),
                            st.integers(1, 255).map(lambda m: 256 * m + 244)))  # TIF next word of the first record = k * 256
    return {'pr_len': max(lo, pr_len), 'rec_num': rec_num, 'file_num': file_num, 'checksum': checksum,
            'tif': draw(st.sampled_from(list(tif_options)))}


@st.composite
def lr_bytes_lists(draw, cfg, min_records=1, max_records=8, max_total=30000, max_len=3000):
    """Logical records (opaque bytes, length >= 2) sized relative to the physical record payload."""
    mp = cfg['pr_len'] - PRH_LEN - trailer_len(cfg)
    n = draw(st.integers(min_records, max_records))
    ret = []
    budget = max_total
    for _ in range(n):
        kind = draw(st.integers(0, 5))
        if kind == 0:
            ln = draw(st.integers(2, 12))
        elif kind == 1:   # around one payload
            ln = max(2, mp + draw(st.integers(-2, 2)))
        elif kind == 2:   # exact multiple
            ln = max(2, mp * draw(st.integers(1, 4)))
        elif kind == 3:   # several records
            ln = max(2, mp * draw(st.integers(1, 4)) + draw(st.integers(-3, 3)))
        else:
            ln = draw(st.integers(2, max(2, min(4 * mp, max_len))))
        ln = max(2, min(ln, budget))
        budget = max(2, budget - ln)
        # content: counter pattern keyed by record so that misplaced bytes are visible, plus random head
        head = draw(st.binary(min_size=2, max_size=min(ln, 12)))
        head = head[:ln]
        seed = draw(st.integers(0, 250))
        m = ln - len(head)
        body = (bytes(((seed + i * 7) & 0xFF) for i in range(256)) * (m // 256 + 1))[:m] if m > 4096 else \
            bytes(((seed + i * 7 + (i >> 8) * 13) & 0xFF) for i in range(m))
        ret.append(head + body)
    return ret


# =================================================================================================
# Logical records (LIS-79 section 3): tables, data format specification
# =================================================================================================
LR_TABLE_TYPES = (32, 34, 39)   # job identification, well site data, tool string info
LR_DFSR = 64


def lr_header(lr_type, attr=0):
    return bytes([lr_type, attr])


def component_block(cb_type, rep_code, value_bytes, mnem, units=b'    ', category=0):
    """Component block: type (73 table / 0 datum block start / 69 datum block entry), representation code, size,
    category, 4 byte mnemonic, 4 byte units, then the value."""
    assert len(mnem) == 4 and len(units) == 4 and len(value_bytes) <= 255
    return bytes([cb_type, rep_code, len(value_bytes), category]) + mnem + units + value_bytes


def ref_to68(v):
    """Reference encoder for code 68: the representable value nearest to zero-side of v (truncation of the 23 bit
    fraction), as an integer word.  In-range, non-zero v only."""
    import math
    from fractions import Fraction
    if v == 0:
        return 0x40000000
    m, e = math.frexp(v)          # v = m * 2**e, 0.5 <= |m| < 1
    assert -128 <= e <= 127
    frac = int(Fraction(abs(m)) * (1 << 23))           # truncated magnitude, 2^22 <= frac < 2^23
    if v > 0:
        return ((e + 128) << 23) | frac
    # negative: two's complement fraction, one's complement exponent
    if frac == (1 << 22) and Fraction(abs(m)) == Fraction(1, 2):
        # -0.5 * 2^e == -1.0 * 2^(e-1): both spellings decode alike; use the one the truncating algorithm yields
        pass
    mant = (1 << 23) - frac
    return (1 << 31) | ((127 - e) << 23) | (mant & 0x7FFFFF)


def cell_bytes(value):
    """(rep code, bytes) for a table cell the way LIS tables hold them: text as code 65, integers in the smallest of
    unsigned byte / 16 bit / 32 bit, reals as code 68."""
    import struct as _s
    if isinstance(value, bytes):
        return 65, value
    if isinstance(value, float):
        return 68, _s.pack('>I', ref_to68(value))
    if isinstance(value, int):
        if 0 <= value <= 255:
            return 66, bytes([value])
        if -32768 <= value <= 32767:
            return 79, _s.pack('>h', value)
        return 73, _s.pack('>i', value)
    raise TypeError(type(value))


def encode_table_lr(model):
    """model: {'lr_type': 34, 'name': b'CONS', 'columns': [b'MNEM', ...], 'rows': [[cell, ...], ...]} where a cell is
    {'v': bytes|int|float, 'u': 4 bytes or None}.  Returns the logical record bytes (header included)."""
    out = bytearray(lr_header(model['lr_type']))
    out += component_block(73, 65, model['name'], b'TYPE')
    for row in model['rows']:
        for c, cell in enumerate(row):
            rc, vb = cell_bytes(cell['v'])
            out += component_block(0 if c == 0 else 69, rc, vb, model['columns'][c], cell['u'] or b'    ')
    return bytes(out)


EB_LEGAL = {
    # type: (size, rep code, strategy of values)
    1: (1, 66, st.sampled_from([0, 1])),
    2: (1, 66, st.just(0)),
    3: (2, 79, st.integers(0, 32767)),
    4: (1, 66, st.sampled_from([1, 255, 0])),
    5: (1, 66, st.sampled_from([1, 255, 0])),
    6: (4, 68, 'float'),
    7: (4, 65, 'units'),
    8: (4, 68, 'float'),
    9: (4, 65, 'units'),
    11: (1, 66, st.integers(1, 255)),
    12: (4, 68, 'float'),
    13: (1, 66, st.sampled_from([0, 1])),
    14: (4, 65, 'units'),
    15: (1, 66, st.sampled_from([68, 73, 49, 79])),
    16: (1, 66, st.sampled_from([0, 1])),
}
UNITS4 = st.sampled_from([b'FEET', b'M   ', b'.1IN', b'INCH', b'S   ', b'MS  ', b'    ', b'GAPI', b'MM  ', b'CM  '])
NICE_FLOATS = st.one_of(st.sampled_from([0.0, 0.5, -0.5, 60.0, -999.25, 153.0, 1.0, -1.0, 6.0, 0.1524]),
                        st.floats(min_value=-1e30, max_value=1e30, allow_nan=False).filter(lambda x: x == 0 or abs(x) > 1e-30))


@st.composite
def entry_block_models(draw, types=None, zero_size=False):
    """Ordered list of {'type', 'size', 'rc', 'value'} for a subset of the entry block types (no terminator)."""
    if types is None:
        types = draw(st.lists(st.sampled_from(sorted(EB_LEGAL)), unique=True, max_size=15))
        if draw(st.booleans()):
            types = sorted(types)
    out = []
    for t in types:
        size, rc, vs = EB_LEGAL[t]
        if zero_size and t != 2 and draw(st.integers(0, 5)) == 0:
            # a block of size 0 carries no value: it says that the quantity is absent (and overrides any default)
            out.append({'type': t, 'size': 0, 'rc': rc, 'value': None})
            continue
        if vs == 'float':
            v = draw(NICE_FLOATS)
        elif vs == 'units':
            v = draw(UNITS4)
        else:
            v = draw(vs)
        out.append({'type': t, 'size': size, 'rc': rc, 'value': v})
    return out


def encode_entry_blocks(blocks):
    """Entry blocks + terminator whose size makes the total length even (LIS-79 3.3.2.2)."""
    import struct as _s
    out = bytearray()
    for b in blocks:
        if b['size'] == 0:
            vb = b''
        elif b['rc'] == 65:
            vb = b['value']
        elif b['rc'] == 68:
            vb = _s.pack('>I', ref_to68(b['value']))
        elif b['rc'] == 66:
            vb = bytes([b['value']])
        elif b['rc'] == 79:
            vb = _s.pack('>h', b['value'])
        elif b['rc'] == 73:
            vb = _s.pack('>i', b['value'])
        else:
            raise ValueError(b)
        assert len(vb) == b['size']
        out += bytes([b['type'], b['size'], b['rc']]) + vb
    if (len(out) + 3) % 2:
        out += bytes([0, 1, 66, 0])
    else:
        out += bytes([0, 0, 66])
    assert len(out) % 2 == 0
    return bytes(out)


RC_SIZE = {49: 2, 50: 4, 56: 1, 66: 1, 68: 4, 70: 4, 73: 4, 77: 1, 79: 2}
MNEM_ALPHA = b'ABCDEFGHIJKLMNOPQRSTUVWXYZ0123456789'


@st.composite
def mnems(draw, n=4):
    k = draw(st.integers(1, n))
    return bytes(draw(st.lists(st.sampled_from(list(MNEM_ALPHA)), min_size=k, max_size=k))).ljust(n)


@st.composite
def dsb_models(draw, allow_dipmeter=True, codes=None, max_samples=4, max_bursts=3):
    kind = draw(st.integers(0, 19)) if allow_dipmeter else 1
    if kind == 0:
        rc, size, samples = draw(st.sampled_from([(130, 80, 1), (234, 90, 1)]))
        bursts, sub = 1, (5 if rc == 130 else 15)
    else:
        rc = draw(st.sampled_from(codes or sorted(RC_SIZE)))
        samples = draw(st.integers(1, max_samples))
        bursts = draw(st.integers(1, max_bursts))
        size = RC_SIZE[rc] * samples * bursts
        sub = 1
    return {'mnem': draw(mnems()), 'serv_id': draw(mnems(6)), 'serv_ord': draw(mnems(8)), 'units': draw(UNITS4),
            'api': draw(st.one_of(st.just(0), st.integers(0, 99999999))), 'file_no': draw(st.integers(0, 255)),
            'size': size, 'samples': samples, 'rc': rc, 'bursts': bursts, 'sub_channels': sub}


def encode_dsb(d):
    import struct as _s
    out = d['mnem'] + d['serv_id'] + d['serv_ord'] + d['units'] + _s.pack('>I', d['api']) + _s.pack('>hh', d['file_no'], d['size']) \
        + b'\x00' * 3 + bytes([d['samples'], d['rc']]) + b'\x00' * 5
    assert len(out) == 40
    return out


def encode_dfsr_lr(blocks, dsbs):
    return lr_header(LR_DFSR) + encode_entry_blocks(blocks) + b''.join(encode_dsb(d) for d in dsbs)


def parse_entry_block_bytes(b):
    """Independent structural parse of entry block bytes: [(type, size, rc, value bytes)], bytes consumed."""
    i, out = 0, []
    while i + 3 <= len(b):
        t, s, rc = b[i], b[i + 1], b[i + 2]
        out.append((t, s, rc, bytes(b[i + 3:i + 3 + s])))
        i += 3 + s
        if t == 0:
            break
    return out, i


# =================================================================================================
# Delimiter records, data records and whole log pass files
# =================================================================================================
LR_FILE_HEAD, LR_FILE_TAIL, LR_TAPE_HEAD, LR_TAPE_TAIL, LR_REEL_HEAD, LR_REEL_TAIL = 128, 129, 130, 131, 132, 133


def _fix(b, n):
    return bytes(b)[:n].ljust(n)


def encode_file_head_tail(lr_type, name=b'GENERA.001', sub_level=b'VERIF ', version=b'1.0     ', date=b'26/10/03', max_pr=b' 1024',
                          file_type=b'LO', other=b''):
    """File header / trailer (LIS-79 3.2): 56 bytes after the logical record header."""
    out = lr_header(lr_type) + _fix(name, 10) + b'  ' + _fix(sub_level, 6) + _fix(version, 8) + _fix(date, 8) + b' ' + _fix(max_pr, 5) \
        + b'  ' + _fix(file_type, 2) + b'  ' + _fix(other, 10)
    assert len(out) == 58
    return out


def encode_reel_tape_head_tail(lr_type, service=b'VERIF ', date=b'26/10/03', origin=b'GEN ', name=b'TAPE0001', cont=b'01', other=b'',
                               comments=b'generated'):
    out = lr_header(lr_type) + _fix(service, 6) + b' ' * 6 + _fix(date, 8) + b'  ' + _fix(origin, 4) + b'  ' + _fix(name, 8) + b'  ' \
        + _fix(cont, 2) + b'  ' + _fix(other, 8) + b'  ' + _fix(comments, 74)
    assert len(out) == 128
    return out


def word_bytes(rc, word):
    return int(word).to_bytes(RC_SIZE[rc], 'big')


def encode_data_record(lr_type, indirect, frames):
    """indirect: None or (depth rep code, word).  frames: list of frames, each a list of channels, each a list of
    (rep code, word) or raw bytes for dipmeter channels."""
    out = bytearray(lr_header(lr_type))
    if indirect is not None:
        out += word_bytes(indirect[0], indirect[1])
    for fr in frames:
        for ch in fr:
            if isinstance(ch, (bytes, bytearray)):
                out += ch
            else:
                rc, words = ch
                for w in words:
                    out += word_bytes(rc, w)
    return bytes(out)


X_UNITS = [b'FEET', b'M   ', b'.1IN', b'INCH', b'S   ', b'MS  ']
#: ... and unit mnemonics that the LIS unit table of the package does not hold (vendor spellings, blank): legal in a file
#: (frame spacing units, X axis units, X axis units per spacing unit)
SPACING_PAIRS = [(b'INCH', b'.1IN', 10), (b'IN  ', b'.1IN', 10), (b'FEET', b'INCH', 12), (b'FEET', b'.1IN', 120)]
X_UNITS_WITH_UNKNOWN = X_UNITS + [b'SEC ', b'MTR ', b'HRS ', b'DEG ']


@st.composite
def x_axis_specs(draw):
    """A regular X axis whose values and spacing are exactly representable in rep codes 68 and 73."""
    up_down = draw(st.sampled_from([1, 255, 0]))
    spacing_mag = draw(st.sampled_from([1, 2, 5, 6, 60, 120, 0.5, 0.25, 1.5]))
    x0 = draw(st.sampled_from([0, 100, 1000, 12000, 5000.5, 250.25, -50]))
    return {'up_down': up_down, 'spacing': spacing_mag, 'x0': x0}


def rc_word_for_value(rc, v):
    """Word of a value that is exactly representable in the code (68 / 73 / 79 / 70)."""
    if rc == 68:
        return ref_to68(float(v))
    if rc == 73:
        assert v == int(v)
        return int(v) & 0xFFFFFFFF
    if rc == 79:
        assert v == int(v) and -32768 <= v <= 32767
        return int(v) & 0xFFFF
    if rc == 70:
        return int(v * 65536) & 0xFFFFFFFF
    raise ValueError(rc)


def safe_words(draw, rc, n):
    """n raw words of a code; for code 50 the exponent is kept inside the 11 bit range the decoder implements (the rest is
    finding C07-lis50-exponent-wrap)."""
    bits = 8 * RC_SIZE[rc]
    ws = draw(st.lists(st.integers(0, (1 << bits) - 1), min_size=n, max_size=n))
    if rc == 50:
        out = []
        for w in ws:
            e = (w >> 16) & 0xFFFF
            e = e - 0x10000 if e & 0x8000 else e
            e = max(-1024 + 40, min(1023 - 40, e % 2048 - 1024))
            out.append(((e & 0xFFFF) << 16) | (w & 0xFFFF))
        ws = out
    return ws


@st.composite
def log_passes(draw, max_channels=6, max_frames=60, allow_dipmeter=True, x_units=None, spacing_pairs=False):
    """One log pass: DFSR model + frames (raw words) + frames-per-record pattern."""
    indirect = draw(st.booleans())
    xs = draw(x_axis_specs())
    sign = -1 if xs['up_down'] == 1 else 1
    nch = draw(st.integers(1, max_channels)) if max_channels <= 6 or draw(st.integers(0, 3)) else draw(st.integers(9, max_channels))
    dsbs = []
    for k in range(nch):
        if k == 0 and not indirect:
            xrc = draw(st.sampled_from([68, 68, 73]))
            if xrc == 73 and (xs['spacing'] != int(xs['spacing']) or xs['x0'] != int(xs['x0'])):
                xrc = 68
            d = draw(dsb_models(allow_dipmeter=False, codes=[xrc], max_samples=1, max_bursts=1))
            d['mnem'] = b'DEPT'
        else:
            d = draw(dsb_models(allow_dipmeter=allow_dipmeter))
            d['mnem'] = ((b'C%d' % k) if k < 10 else bytes([ord('C'), ord('A') + k - 10])) + d['mnem'][:2]     # four bytes, unique per channel
        dsbs.append(d)
    nframes = draw(st.one_of(st.integers(1, 12), st.integers(1, max_frames)))
    # frames per record pattern
    mode = draw(st.integers(0, 3))
    if mode == 0:
        per = [nframes]
    elif mode in (1, 2):
        n = draw(st.integers(1, max(1, min(nframes, 9))))
        per = [n] * (nframes // n) + ([nframes % n] if nframes % n else [])
    else:
        per, left = [], nframes
        while left > 0:
            n = draw(st.integers(1, min(left, 7)))
            per.append(n)
            left -= n
    # entry blocks
    depth_rc = draw(st.sampled_from([68, 68, 73]))
    if depth_rc == 73 and (xs['spacing'] != int(xs['spacing']) or xs['x0'] != int(xs['x0'])):
        depth_rc = 68
    units = draw(st.sampled_from(x_units or X_UNITS))
    spacing_units, x_step = units, xs['spacing']
    if indirect and spacing_pairs and draw(st.integers(0, 3)) == 0:
        # frame spacing declared in other units than the X axis (entry block 9 != entry block 14): the step between frames,
        # in X axis units, is the declared spacing converted
        spacing_units, units, factor = draw(st.sampled_from(SPACING_PAIRS))
        x_step = xs['spacing'] * factor
        if depth_rc == 73 and x_step != int(x_step):
            depth_rc = 68
    blocks = [{'type': 1, 'size': 1, 'rc': 66, 'value': draw(st.sampled_from([0, 0, 1]))},
              {'type': 4, 'size': 1, 'rc': 66, 'value': xs['up_down']},
              {'type': 12, 'size': 4, 'rc': 68, 'value': -999.25}]
    if indirect:
        # (with spacing_pairs also: the frame spacing written as a negative number - the direction of the log is entry block 4's
        # business, the spacing is a distance)
        neg8 = spacing_pairs and draw(st.integers(0, 4)) == 0
        blocks += [{'type': 8, 'size': 4, 'rc': 68, 'value': -float(xs['spacing']) if neg8 else float(xs['spacing'])}, {'type': 9, 'size': 4, 'rc': 65, 'value': spacing_units},
                   {'type': 13, 'size': 1, 'rc': 66, 'value': 1}, {'type': 14, 'size': 4, 'rc': 65, 'value': units},
                   {'type': 15, 'size': 1, 'rc': 66, 'value': depth_rc}]
    elif draw(st.booleans()):
        blocks += [{'type': 8, 'size': 4, 'rc': 68, 'value': float(xs['spacing'])}, {'type': 9, 'size': 4, 'rc': 65, 'value': dsbs[0]['units']}]
    if draw(st.booleans()):
        blocks = blocks + draw(entry_block_models(types=[t for t in draw(st.lists(st.sampled_from([3, 5, 6, 7, 11, 16]), unique=True, max_size=4))]))
    # frames: per channel raw words
    frames = []
    for f in range(nframes):
        fr = []
        for k, d in enumerate(dsbs):
            if k == 0 and not indirect:
                x = xs['x0'] + sign * xs['spacing'] * f
                fr.append((d['rc'], [rc_word_for_value(d['rc'], x)]))
            elif d['rc'] in (130, 234):
                fr.append(draw(st.binary(min_size=d['size'], max_size=d['size'])))
            else:
                fr.append((d['rc'], safe_words(draw, d['rc'], d['samples'] * d['bursts'])))
        frames.append(fr)
    return {'indirect': indirect, 'xs': xs, 'depth_rc': depth_rc, 'units': units, 'blocks': blocks, 'dsbs': dsbs, 'frames': frames,
            'per_record': per, 'data_type': blocks[0]['value'], 'x_step': x_step, 'spacing_units': spacing_units}


def log_pass_records(lp):
    """Logical records of a log pass: [DFSR, data record, ...] and for each data record (first frame index, frames)."""
    sign = -1 if lp['xs']['up_down'] == 1 else 1
    recs = [encode_dfsr_lr(lp['blocks'], lp['dsbs'])]
    info = []
    f = 0
    for n in lp['per_record']:
        ind = None
        if lp['indirect']:
            x = lp['xs']['x0'] + sign * lp.get('x_step', lp['xs']['spacing']) * f
            ind = (lp['depth_rc'], rc_word_for_value(lp['depth_rc'], x))
        recs.append(encode_data_record(lp['data_type'], ind, lp['frames'][f:f + n]))
        info.append((f, n))
        f += n
    return recs, info


@st.composite
def lis_files(draw, max_passes=3, max_frames=60, tif_options=('none', 'normal', 'reversed'), allow_dipmeter=True, tables=True,
              pairs=False, empty_passes=False, x_units=None, spacing_pairs=False, mid_tables=False, max_channels=6):
    """A whole LIS file model: [reel/tape header] (file header, tables, log pass, tables, file trailer)+ [tape/reel trailer]."""
    cfg = draw(phys_cfgs(tif_options=tif_options))
    if cfg['pr_len'] < 16:
        cfg = dict(cfg, pr_len=16 + cfg['pr_len'])
    items = []   # ('head'|'tail'|'table'|'misc'|'pass', payload)
    outer = draw(st.integers(0, 2))
    if outer == 2:
        items.append(('delim', LR_REEL_HEAD))
    if outer >= 1:
        items.append(('delim', LR_TAPE_HEAD))
    npass = draw(st.integers(1, max_passes))
    for p in range(npass):
        items.append(('delim', LR_FILE_HEAD))
        if tables:
            for _ in range(draw(st.integers(0, 2))):
                items.append(('table', {'lr_type': draw(st.sampled_from(LR_TABLE_TYPES)), 'name': draw(st.sampled_from([b'CONS', b'TOOL', b'PRES', b'FILM', b'INPU', b'OUTP'])),
                                        'columns': [b'MNEM', b'VALU'],
                                        'rows': [[{'v': draw(mnems()), 'u': None}, {'v': draw(st.one_of(mnems(), st.integers(0, 1000), NICE_FLOATS)), 'u': draw(UNITS4)}]
                                                 for _r in range(draw(st.integers(0, 3)))]}))
            if draw(st.integers(0, 5)) == 0:
                items.append(('misc', (232, draw(st.binary(min_size=1, max_size=40)))))
        if empty_passes and draw(st.integers(0, 5)) == 0:
            # a format specification that is not followed by any data record (e.g. written twice): a log pass of 0 frames
            e = draw(log_passes(max_frames=2, allow_dipmeter=False, x_units=x_units))
            items.append(('pass', dict(e, frames=[], per_record=[])))
        if pairs and draw(st.integers(0, 3)) == 0:
            # a normal data (type 0) and an alternate data (type 1) log pass in ONE logical file, their data records interleaved
            a = draw(log_passes(max_channels=max_channels, max_frames=max_frames, allow_dipmeter=allow_dipmeter, x_units=x_units, spacing_pairs=spacing_pairs))
            b = draw(log_passes(max_channels=max_channels, max_frames=max_frames, allow_dipmeter=allow_dipmeter, x_units=x_units, spacing_pairs=spacing_pairs))
            a = dict(a, data_type=0, blocks=[dict(x, value=0) if x['type'] == 1 else x for x in a['blocks']])
            b = dict(b, data_type=1, blocks=[dict(x, value=1) if x['type'] == 1 else x for x in b['blocks']])
            order = draw(st.lists(st.booleans(), min_size=len(a['per_record']) + len(b['per_record']), max_size=len(a['per_record']) + len(b['per_record'])))
            items.append(('pass_pair', {'a': a, 'b': b, 'order': order, 'b_first': draw(st.booleans())}))
        else:
            lp_ = draw(log_passes(max_channels=max_channels, max_frames=max_frames, allow_dipmeter=allow_dipmeter, x_units=x_units, spacing_pairs=spacing_pairs))
            if mid_tables and len(lp_['per_record']) >= 2 and draw(st.integers(0, 3)) == 0:
                where = draw(st.integers(1, len(lp_['per_record']) - 1))
                lp_ = dict(lp_, mid_tables=[[where, {'lr_type': 34, 'name': draw(st.sampled_from([b'CONS', b'CONS', b'TOOL', b'OUTP'])), 'columns': [b'MNEM', b'VALU'],
                                                     'rows': [[{'v': draw(mnems()), 'u': None}, {'v': draw(st.integers(0, 1000)), 'u': draw(UNITS4)}]]}]])
            items.append(('pass', lp_))
        if tables and draw(st.integers(0, 3)) == 0:
            items.append(('table', {'lr_type': 34, 'name': b'CONS', 'columns': [b'MNEM', b'VALU'], 'rows': []}))
        if draw(st.integers(0, 9)) != 0:
            items.append(('delim', LR_FILE_TAIL))
    if outer >= 1 and draw(st.booleans()):
        items.append(('delim', LR_TAPE_TAIL))
        if outer == 2:
            items.append(('delim', LR_REEL_TAIL))
    return {'cfg': cfg, 'items': items}


def build_lis_file(case):
    """Returns (bytes, model) where model = {'listing': [(lr index, kind, lr type, name)], 'passes': [{'lp', 'dfsr_lr', 'data_lrs':
    [(lr index, first frame, frames)]}], 'lr_start', 'lr_span': [(start, end)], 'phys': physical model}"""
    lrs, listing, passes = [], [], []
    for kind, payload in case['items']:
        if kind == 'delim':
            listing.append((len(lrs), 'delim', payload, None))
            if payload in (LR_FILE_HEAD, LR_FILE_TAIL):
                lrs.append(encode_file_head_tail(payload))
            else:
                lrs.append(encode_reel_tape_head_tail(payload))
        elif kind == 'table':
            listing.append((len(lrs), 'table', payload['lr_type'], payload['name']))
            lrs.append(encode_table_lr(payload))
        elif kind == 'misc':
            listing.append((len(lrs), 'misc', payload[0], None))
            lrs.append(lr_header(payload[0]) + payload[1])
        elif kind == 'pass_pair':
            pa, pb = payload['a'], payload['b']
            ra, ia = log_pass_records(pa)
            rb, ib = log_pass_records(pb)
            first, second = ((pb, rb, ib), (pa, ra, ia)) if payload.get('b_first') else ((pa, ra, ia), (pb, rb, ib))
            entries = []
            for lp_, recs_, info_ in (first, second):
                listing.append((len(lrs), 'pass', LR_DFSR, None))
                e = {'lp': lp_, 'dfsr_lr': len(lrs), 'data_lrs': []}
                lrs.append(recs_[0])
                entries.append((e, list(zip(recs_[1:], info_))))
                passes.append(e)
            qa, qb = entries[0][1], entries[1][1]
            for take_second in payload['order']:
                src = qb if (take_second and qb) or not qa else qa
                if not src:
                    continue
                r, (f0, n) = src.pop(0)
                (entries[1][0] if src is qb else entries[0][0])['data_lrs'].append((len(lrs), f0, n))
                lrs.append(r)
            for e, q in entries:
                for r, (f0, n) in q:
                    e['data_lrs'].append((len(lrs), f0, n))
                    lrs.append(r)
        else:
            recs, info = log_pass_records(payload)
            listing.append((len(lrs), 'pass', LR_DFSR, None))
            p = {'lp': payload, 'dfsr_lr': len(lrs), 'data_lrs': []}
            lrs.append(recs[0])
            mid = dict((int(k), t) for k, t in (payload.get('mid_tables') or []))
            for j, (r, (f0, n)) in enumerate(zip(recs[1:], info)):
                if j in mid:    # a table written between the data records of the pass (e.g. a change of constants while logging)
                    listing.append((len(lrs), 'table', mid[j]['lr_type'], mid[j]['name']))
                    lrs.append(encode_table_lr(mid[j]))
                p['data_lrs'].append((len(lrs), f0, n))
                lrs.append(r)
            passes.append(p)
    data, phys = encode_physical(lrs, case['cfg'])
    spans = []
    tif = case['cfg'].get('tif', 'none') != 'none'
    for k, prs in enumerate(phys['prs']):
        start = phys['lr_start'][k]
        last = prs[-1]
        end = last[1] + last[4]
        spans.append((start, end))
    return data, {'listing': listing, 'passes': passes, 'lr_start': phys['lr_start'], 'lr_span': spans, 'phys': phys, 'lrs': lrs}
