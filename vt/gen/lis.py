"""Independent LIS-79 encoder (physical layer first; logical records further down).

Written from the LIS-79 description of Physical Records (PRH = 16 bit big-endian length including header and
trailer + 16 bit attributes; trailer = optional record number, file number, checksum in that order) and of the TIF
marker convention (three 32 bit little-endian words type / previous / next in front of every physical record, a
type 1 marker pair at the end).  Shares no code with TotalDepth.
"""
import struct

from hypothesis import strategies as st

PRH_LEN = 4
ATTR_SUCCESSOR = 1 << 0
ATTR_PREDECESSOR = 1 << 1
ATTR_RECNUM = 1 << 9
ATTR_FILENUM = 1 << 10
ATTR_CHECKSUM = 1 << 12
TIF_LEN = 12


def trailer_len(cfg):
    return 2 * bool(cfg.get('rec_num')) + 2 * (cfg.get('file_num') is not None) + 2 * bool(cfg.get('checksum'))


def greedy_splits(lr_len, max_payload):
    """Payload sizes of the physical records of one logical record, as many full records as possible."""
    ret = []
    left = lr_len
    while left > 0:
        n = min(left, max_payload)
        ret.append(n)
        left -= n
    return ret


def encode_physical(lrs, cfg, splits=None):
    """lrs: list of bytes (complete logical records, header included).
    cfg: {'pr_len': max physical record length, 'rec_num': bool, 'file_num': None|int, 'checksum': bool,
          'tif': 'none'|'normal'|'reversed'}
    splits: None (greedy) or per logical record a list of payload sizes summing to its length.
    Returns (file bytes, model) where model = {'lr_start': [...], 'prs': [[(pr_pos, header_pos, payload_pos,
    payload_len, pr_len)...] per lr], 'checksum_pos': [...], 'tif_pos': [...]}"""
    tlen = trailer_len(cfg)
    max_payload = cfg['pr_len'] - PRH_LEN - tlen
    if max_payload < 1:
        raise ValueError('no room for payload')
    tif = cfg.get('tif', 'none')
    fmt = {'normal': '<3L', 'reversed': '>3L'}.get(tif)
    out = bytearray()
    model = {'lr_start': [], 'prs': [], 'checksum_pos': [], 'tif_pos': []}
    rec_no = 0
    prev_tif = 0
    for k, lr in enumerate(lrs):
        sizes = splits[k] if splits is not None else greedy_splits(len(lr), max_payload)
        if sum(sizes) != len(lr) or any(s < 1 or s > max_payload for s in sizes):
            raise ValueError('bad split')
        model['lr_start'].append(len(out))
        prs = []
        ofs = 0
        for j, n in enumerate(sizes):
            pr_len = PRH_LEN + n + tlen
            attr = 0
            if j < len(sizes) - 1:
                attr |= ATTR_SUCCESSOR
            if j > 0:
                attr |= ATTR_PREDECESSOR
            if cfg.get('rec_num'):
                attr |= ATTR_RECNUM
            if cfg.get('file_num') is not None:
                attr |= ATTR_FILENUM
            if cfg.get('checksum'):
                attr |= ATTR_CHECKSUM
            pos = len(out)
            if fmt:
                model['tif_pos'].append(pos)
                out += struct.pack(fmt, 0, prev_tif, pos + TIF_LEN + pr_len)
                prev_tif = pos
            hpos = len(out)
            out += struct.pack('>HH', pr_len, attr)
            out += lr[ofs:ofs + n]
            if cfg.get('rec_num'):
                out += struct.pack('>H', rec_no & 0xFFFF)
            if cfg.get('file_num') is not None:
                out += struct.pack('>H', cfg['file_num'])
            if cfg.get('checksum'):
                model['checksum_pos'].append(len(out))
                out += b'\x00\x00'
            prs.append((pos, hpos, hpos + PRH_LEN, n, pr_len))
            rec_no += 1
            ofs += n
        model['prs'].append(prs)
    if fmt:
        # two end-of-file markers
        pos = len(out)
        model['tif_pos'].append(pos)
        out += struct.pack(fmt, 1, prev_tif, pos + TIF_LEN)
        model['tif_pos'].append(pos + TIF_LEN)
        out += struct.pack(fmt, 1, pos, pos + 2 * TIF_LEN)
    return bytes(out), model


def self_check_physical(data, lrs, cfg, model):
    """Structural invariants of the encoder's own output (a failure is a harness error)."""
    tif = cfg.get('tif', 'none') != 'none'
    pos = 0
    for k, prs in enumerate(model['prs']):
        got = b''
        for (p, h, pl, n, pr_len) in prs:
            assert p == pos, 'gap'
            assert h == p + (TIF_LEN if tif else 0)
            assert struct.unpack('>H', data[h:h + 2])[0] == pr_len
            got += data[pl:pl + n]
            pos = h + pr_len
        assert got == lrs[k], 'payload'
    assert pos + (2 * TIF_LEN if tif else 0) == len(data)


# -------------------------------------------------------------------------------------------------
# Strategies
# -------------------------------------------------------------------------------------------------
@st.composite
def phys_cfgs(draw, tif_options=('none', 'normal', 'reversed'), min_payload=1):
    rec_num = draw(st.booleans())
    file_num = draw(st.one_of(st.none(), st.sampled_from([0, 1, 255, 256, 65535]), st.integers(0, 65535)))
    checksum = draw(st.booleans())
    tl = 2 * rec_num + 2 * (file_num is not None) + 2 * checksum
    lo = PRH_LEN + tl + min_payload
    pr_len = draw(st.one_of(st.integers(lo, lo + 12), st.integers(lo, 80), st.integers(lo, 1100),
                            st.sampled_from([244, 256, 500, 756, 1012, 1024, 2036, 4084, 4096, 8192, 32756, 65524, 65535]), st.integers(lo, 65535),
                            st.integers(1, 255).map(lambda m: 256 * m + 244)))  # TIF next word of the first record = k * 256
    return {'pr_len': max(lo, pr_len), 'rec_num': rec_num, 'file_num': file_num, 'checksum': checksum,
            'tif': draw(st.sampled_from(list(tif_options)))}


@st.composite
def lr_bytes_lists(draw, cfg, min_records=1, max_records=8, max_total=30000, max_len=3000):
    """Logical records (opaque bytes, length >= 2) sized relative to the physical record payload."""
    mp = cfg['pr_len'] - PRH_LEN - trailer_len(cfg)
    n = draw(st.integers(min_records, max_records))
    ret = []
    budget = max_total
    for _ in range(n):
        kind = draw(st.integers(0, 5))
        if kind == 0:
            ln = draw(st.integers(2, 12))
        elif kind == 1:   # around one payload
            ln = max(2, mp + draw(st.integers(-2, 2)))
        elif kind == 2:   # exact multiple
            ln = max(2, mp * draw(st.integers(1, 4)))
        elif kind == 3:   # several records
            ln = max(2, mp * draw(st.integers(1, 4)) + draw(st.integers(-3, 3)))
        else:
            ln = draw(st.integers(2, max(2, min(4 * mp, max_len))))
        ln = max(2, min(ln, budget))
        budget = max(2, budget - ln)
        # content: counter pattern keyed by record so that misplaced bytes are visible, plus random head
        head = draw(st.binary(min_size=2, max_size=min(ln, 12)))
        head = head[:ln]
        seed = draw(st.integers(0, 250))
        m = ln - len(head)
        body = (bytes(((seed + i * 7) & 0xFF) for i in range(256)) * (m // 256 + 1))[:m] if m > 4096 else \
            bytes(((seed + i * 7 + (i >> 8) * 13) & 0xFF) for i in range(m))
        ret.append(head + body)
    return ret
