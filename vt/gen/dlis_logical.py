"""Independent RP66V1 (DLIS) encoder - logical layer: explicitly formatted logical records (sets / tables) and frame
data (indirectly formatted logical records), on top of the physical layer of vt.gen.dlis.

Written from RP66V1 section 3.2 (component descriptor = 3 role bits + 5 format bits; SET / RDSET / RSET components
with Type and optional Name; template = ATTRIB / INVATR components with any subset of the characteristics Label,
Count, Representation Code, Units, Value, in that order; OBJECT component with Name (OBNAME); per object one ATTRIB or
ABSATR component for every non-invariant template attribute, a trailing run of which may be omitted), section 3.3 /
5.6.1 (IFLR: OBNAME of the frame object, UVARI frame number, channel values) and Appendix B (values; encoders of the
variable length codes come from vt.ref.repcodes).  Shares no code with TotalDepth.

Case (JSON-able) = {'sul', 'records': [logical record spec], 'layouts', 'vr_caps'}; a logical record spec is one of
    {'kind': 'set',  'lr_type', 'encrypted': False, 'set': set spec}
    {'kind': 'raw',  'eflr': bool, 'lr_type', 'encrypted': bool, 'payload': bytes}          (opaque, e.g. encrypted)
    {'kind': 'iflr', 'lr_type': 0, 'encrypted': False, 'frame': [o, c, ident], 'number': n, 'channels': [bytes] | None}
set spec = {'role': 'SET'|'RDSET'|'RSET', 'type': bytes, 'name': bytes | None, 'template': [tattr], 'objects': [obj]}
tattr    = {'inv': bool, 'label': bytes | None, 'count': int | None, 'code': int | None, 'units': bytes | None,
            'values': [value] | None}                         (None = characteristic not present in the component)
obj      = {'name': [origin, copy, ident], 'attrs': [{'k': 'absent'} | {'k': 'attr', 'label', 'count', 'code', 'units',
            'values'}]}            one entry per non-invariant template attribute, in order; a shorter list = trailing omission
value    = bytes (fixed size codes: the raw word; IDENT / ASCII / UNITS: the string; DTIME: the 8 raw bytes),
           int (UVARI, ORIGIN), [o, c, ident] (OBNAME), [type, o, c, ident] (OBJREF)

build_logical(case) -> (file bytes, model).  The model holds, per record, kind / type / positions, per set a *table*
(set type and name, template cells, objects with per attribute cell (count, rep_code, units, values) after the
standard's defaulting rules: object characteristic, else template, else global default [label empty, count 1, code 19
IDENT, units empty, value absent]; invariant attribute = template cell; absent attribute = None), the split into
logical files (at each FILE-HEADER set) and per logical file the log pass (frame types, channels, rows of raw words).
Model values are obtained by decoding the *encoded bytes* with the reference decoders of vt.ref.repcodes.
"""
import functools
import struct

from hypothesis import strategies as st

from vt.gen import dlis as G
from vt.ref import repcodes as R

ROLE_ABSATR, ROLE_ATTRIB, ROLE_INVATR, ROLE_OBJECT, ROLE_RDSET, ROLE_RSET, ROLE_SET = 0x00, 0x20, 0x40, 0x60, 0xA0, 0xC0, 0xE0
F_L, F_C, F_R, F_U, F_V = 0x10, 0x08, 0x04, 0x02, 0x01
SET_T, SET_N = 0x10, 0x08
OBJ_N = 0x10
SET_ROLES = {'SET': ROLE_SET, 'RDSET': ROLE_RDSET, 'RSET': ROLE_RSET}

FIXED_SIZE = {2: 4, 5: 4, 6: 4, 7: 8, 12: 1, 13: 2, 14: 4, 15: 1, 16: 2, 17: 4, 26: 1}
FLOAT_CODES = (2, 5, 6, 7)
CODES = (2, 5, 6, 7, 12, 13, 14, 15, 16, 17, 18, 19, 20, 21, 22, 23, 24, 26, 27)
FRAME_CODES = (2, 5, 6, 7, 12, 13, 14, 15, 16, 17)
GLOBAL_DEFAULT = {'label': b'', 'count': 1, 'code': 19, 'units': b''}

#: Figure A-2: public set types and the logical record type that carries them
PUBLIC_TYPES = {b'FILE-HEADER': 0, b'ORIGIN': 1, b'WELL-REFERENCE': 1, b'AXIS': 2, b'CHANNEL': 3, b'FRAME': 4, b'PATH': 4,
                b'CALIBRATION': 5, b'CALIBRATION-COEFFICIENT': 5, b'CALIBRATION-MEASUREMENT': 5, b'COMPUTATION': 5,
                b'EQUIPMENT': 5, b'GROUP': 5, b'PARAMETER': 5, b'PROCESS': 5, b'SPLICE': 5, b'TOOL': 5, b'ZONE': 5,
                b'COMMENT': 6, b'MESSAGE': 6, b'UPDATE': 7, b'NO-FORMAT': 8, b'LONG-NAME': 9}


class EncoderError(Exception):
    """The generator produced something the encoder cannot write: a bug of the harness."""


# -------------------------------------------------------------------------------------------------
# Values
# -------------------------------------------------------------------------------------------------
def fix_vsingl(raw):
    """A VAX F word with exponent 0 and sign 1 is a reserved operand (no value): clear the sign."""
    raw = bytearray(raw)
    for i in range(0, len(raw) - 3, 4):
        e = ((raw[i + 1] & 0x7F) << 1) | (raw[i] >> 7)
        if e == 0 and raw[i + 1] & 0x80:
            raw[i + 1] &= 0x7F
    return bytes(raw)


def encode_value(code, v):
    if code in FIXED_SIZE:
        if not isinstance(v, (bytes, bytearray)) or len(v) != FIXED_SIZE[code]:
            raise EncoderError('fixed size value %r for code %d' % (v, code))
        return bytes(v)
    if code in (18, 22):
        return R.enc_uvari(v)
    if code in (19, 27):
        return R.enc_ident(v)
    if code == 20:
        return R.enc_ascii(v)
    if code == 21:
        if len(v) != 8:
            raise EncoderError('DTIME needs 8 bytes')
        return bytes(v)
    if code == 23:
        return R.enc_obname(v[0], v[1], v[2])
    if code == 24:
        return R.enc_objref(v[0], v[1], v[2], v[3])
    raise EncoderError('unsupported representation code %r' % code)


def exact_to_model(x):
    """Reference decoder result (Fraction / int / 'nan' / 'inf' / '-inf') -> float or int.  Every value of the four
    floating point codes is exactly representable as a double."""
    if isinstance(x, str):
        return float(x)
    if isinstance(x, int):
        return x
    return float(x)


def decode_value(code, b, i=0):
    """Reference decode of one value at b[i:]: (model value, bytes consumed)."""
    if code in FIXED_SIZE:
        n = FIXED_SIZE[code]
        raw = bytes(b[i:i + n])
        if len(raw) != n:
            raise EncoderError('truncated value')
        x = R.RP66_FIXED[code][1](raw)
        if x is None:
            raise EncoderError('VSINGL reserved operand generated')
        return exact_to_model(x), n
    fn = R.RP66_VARIABLE[code][1]
    v, n = fn(b, i)
    if code == 23:
        v = (v[0], v[1], bytes(v[2]))
    elif code == 24:
        v = (bytes(v[0]), (v[1][0], v[1][1], bytes(v[1][2])))
    return v, n


def spec_value_as_model(code, v):
    """What the case says the value is, in model form (self-check of encoder + reference decoder)."""
    if code in FIXED_SIZE:
        return exact_to_model(R.RP66_FIXED[code][1](bytes(v)))
    if code in (18, 22):
        return v
    if code in (19, 20, 27):
        return bytes(v)
    if code == 21:
        return R.dtime(bytes(v))[0]
    if code == 23:
        return (v[0], v[1], bytes(v[2]))
    return (bytes(v[0]), (v[1], v[2], bytes(v[3])))


def same_value(a, b):
    if isinstance(a, float) and isinstance(b, float):
        return a == b or (a != a and b != b)
    return type(a) is type(b) and a == b


# -------------------------------------------------------------------------------------------------
# EFLR
# -------------------------------------------------------------------------------------------------
def _eff(a, key, default):
    return default if a.get(key) is None else a[key]


def encode_attr_component(role, a, dflt_count, dflt_code):
    """ATTRIB / INVATR component: descriptor, then the present characteristics in the order L C R U V."""
    d = role
    out = bytearray()
    if a.get('label') is not None:
        d |= F_L
        out += R.enc_ident(a['label'])
    if a.get('count') is not None:
        d |= F_C
        out += R.enc_uvari(a['count'])
    if a.get('code') is not None:
        d |= F_R
        out.append(a['code'])
    if a.get('units') is not None:
        d |= F_U
        out += R.enc_ident(a['units'])
    if a.get('values') is not None:
        d |= F_V
        count, code = _eff(a, 'count', dflt_count), _eff(a, 'code', dflt_code)
        if len(a['values']) != count:
            raise EncoderError('value has %d elements, count is %d' % (len(a['values']), count))
        for v in a['values']:
            out += encode_value(code, v)
    return bytes([d]) + bytes(out)


def encode_set(spec):
    out = bytearray()
    d = SET_ROLES[spec['role']] | SET_T
    if spec['name'] is not None:
        d |= SET_N
    out.append(d)
    out += R.enc_ident(spec['type'])
    if spec['name'] is not None:
        out += R.enc_ident(spec['name'])
    if not spec['template']:
        raise EncoderError('a set needs a template')
    for t in spec['template']:
        out += encode_attr_component(ROLE_INVATR if t['inv'] else ROLE_ATTRIB, t, GLOBAL_DEFAULT['count'], GLOBAL_DEFAULT['code'])
    variable = [t for t in spec['template'] if not t['inv']]
    for ob in spec['objects']:
        out.append(ROLE_OBJECT | OBJ_N)
        out += R.enc_obname(ob['name'][0], ob['name'][1], ob['name'][2])
        if len(ob['attrs']) > len(variable):
            raise EncoderError('object has more attribute components than the template has attributes')
        for a, t in zip(ob['attrs'], variable):
            if a['k'] == 'absent':
                out.append(ROLE_ABSATR)
            else:
                out += encode_attr_component(ROLE_ATTRIB, a, _eff(t, 'count', 1), _eff(t, 'code', 19))
    return bytes(out)


def _present(a):
    return ''.join(ch for ch, k in (('L', 'label'), ('C', 'count'), ('R', 'code'), ('U', 'units'), ('V', 'values'))
                   if a.get(k) is not None)


def _decode_values(code, count, raw):
    out, i = [], 0
    for _ in range(count):
        v, n = decode_value(code, raw, i)
        out.append(v)
        i += n
    if i != len(raw):
        raise EncoderError('value bytes not consumed by the reference decoder')
    return out


def _values_model(code, values):
    """Model values of a value list: reference decode of its encoding, cross-checked with the case."""
    raw = b''.join(encode_value(code, v) for v in values)
    dec = _decode_values(code, len(values), raw)
    for d, v in zip(dec, values):
        if not same_value(d, spec_value_as_model(code, v)):
            raise EncoderError('encoder and reference decoder disagree for code %d: %r %r' % (code, d, v))
    return dec


def table_model(spec):
    """The table a conformant reader must present for the set."""
    tmpl = []
    for t in spec['template']:
        code = _eff(t, 'code', 19)
        tmpl.append({'label': _eff(t, 'label', b''), 'invariant': bool(t['inv']), 'present': _present(t),
                     'count': _eff(t, 'count', 1), 'rep_code': code, 'units': _eff(t, 'units', b''),
                     'values': None if t['values'] is None else _values_model(code, t['values'])})
    labels = [t['label'] for t in tmpl]
    if len(set(labels)) != len(labels):
        raise EncoderError('duplicate template labels')
    objects = []
    for ob in spec['objects']:
        cells, j = [], 0
        for t in tmpl:
            base = {'count': t['count'], 'rep_code': t['rep_code'], 'units': t['units'], 'values': t['values'], 'present': ''}
            if t['invariant']:
                cells.append(dict(base, how='invariant'))
                continue
            if j >= len(ob['attrs']):
                cells.append(dict(base, how='omitted'))
                continue
            a = ob['attrs'][j]
            j += 1
            if a['k'] == 'absent':
                cells.append(None)
                continue
            if a.get('label') is not None and a['label'] != t['label']:
                raise EncoderError('object attribute label differs from the template label')
            code = _eff(a, 'code', t['rep_code'])
            cell = {'count': _eff(a, 'count', t['count']), 'rep_code': code, 'units': _eff(a, 'units', t['units']),
                    'values': t['values'] if a.get('values') is None else _values_model(code, a['values']),
                    'present': _present(a), 'how': 'explicit'}
            if a.get('values') is None and t['values'] is not None and ('R' in cell['present'] or ('C' in cell['present'] and cell['count'] == 0)):
                raise EncoderError('code (or a count of 0) overridden without a value on an attribute with a template value (ambiguous)')
            # (a count alone may be overridden without a value: the cell then states the object's count and the template's value)
            cells.append(cell)
        if j != len(ob['attrs']):
            raise EncoderError('object attribute components left over')
        objects.append({'name': (ob['name'][0], ob['name'][1], bytes(ob['name'][2])), 'cells': cells,
                        'components': len(ob['attrs'])})
    names = [o['name'] for o in objects]
    if len(set(names)) != len(names):
        raise EncoderError('duplicate object names')
    return {'role': spec['role'], 'type': bytes(spec['type']), 'name': None if spec['name'] is None else bytes(spec['name']),
            'template': tmpl, 'objects': objects}


def table_shapes(table):
    """Names of the structural features a table uses (for class counters and narrow signatures)."""
    s = set()
    variable = [t for t in table['template'] if not t['invariant']]
    if len(variable) < len(table['template']):
        s.add('invariant-attribute')
    for o in table['objects']:
        if variable and o['components'] == 0:
            s.add('object-without-attribute-components')
        elif o['components'] < len(variable):
            s.add('trailing-omission')
        for c in o['cells']:
            if c is None:
                s.add('absent-attribute')
            elif c['how'] == 'explicit':
                if 'C' in c['present'] or 'R' in c['present']:
                    s.add('override-count-or-code')
                if 'U' in c['present']:
                    s.add('override-units')
                if c['present'] == '':
                    s.add('attribute-all-defaults')
    return s


def table_value_codes(table):
    s = set()
    for t in table['template']:
        if t['values']:
            s.add(t['rep_code'])
    for o in table['objects']:
        for c in o['cells']:
            if c is not None and c['how'] == 'explicit' and 'V' in c['present'] and c['values']:
                s.add(c['rep_code'])
    return s


# -------------------------------------------------------------------------------------------------
# IFLR
# -------------------------------------------------------------------------------------------------
def encode_iflr(rec):
    out = bytearray(R.enc_obname(rec['frame'][0], rec['frame'][1], rec['frame'][2]))
    out += R.enc_uvari(rec['number'])
    if rec['channels'] is not None:
        for blob in rec['channels']:
            out += blob
    return bytes(out)


def payload_of(rec):
    if rec['kind'] == 'set':
        return encode_set(rec['set'])
    if rec['kind'] == 'iflr':
        return encode_iflr(rec)
    if rec['kind'] == 'raw':
        return bytes(rec['payload'])
    raise EncoderError('unknown record kind %r' % rec['kind'])


def physical_record(rec):
    return {'eflr': rec['kind'] == 'set' or (rec['kind'] == 'raw' and rec['eflr']), 'type': rec['lr_type'],
            'payload': payload_of(rec), 'encrypted': bool(rec.get('encrypted'))}


# -------------------------------------------------------------------------------------------------
# File + model
# -------------------------------------------------------------------------------------------------
def _attr_cell(table, obj, label):
    for t, c in zip(table['template'], obj['cells']):
        if t['label'] == label:
            return c
    return None


def log_pass_model(tables, records, rec_ids):
    """Frame types of a logical file from its CHANNEL and FRAME tables + rows from its frame data records.
    Returns None when the logical file has no CHANNEL + FRAME pair."""
    chan = [t for t in tables if t['type'] == b'CHANNEL']
    fram = [t for t in tables if t['type'] == b'FRAME']
    if not chan or not fram:
        return None
    if len(chan) > 1 or len(fram) > 1:
        raise EncoderError('more than one CHANNEL / FRAME set in a logical file (outside the generated domain)')
    cmap = {}
    for o in chan[0]['objects']:
        rc = _attr_cell(chan[0], o, b'REPRESENTATION-CODE')
        dm = _attr_cell(chan[0], o, b'DIMENSION')
        un = _attr_cell(chan[0], o, b'UNITS')
        ln = _attr_cell(chan[0], o, b'LONG-NAME')
        if rc is None or dm is None or not rc['values'] or not dm['values']:
            raise EncoderError('channel without representation code / dimension')
        cmap[o['name']] = {'name': o['name'], 'code': rc['values'][0], 'dims': list(dm['values']),
                           'units': un['values'][0] if un is not None and un['values'] else b'',
                           'long_name': ln['values'][0] if ln is not None and ln['values'] else b''}
    frames = []
    for o in fram[0]['objects']:
        ch = _attr_cell(fram[0], o, b'CHANNELS')
        if ch is None or not ch['values']:
            raise EncoderError('frame without channels')
        chans = []
        for nm in ch['values']:
            c = dict(cmap[nm])
            n = 1
            for d in c['dims']:
                n *= d
            c['elements'] = n
            c['size'] = n * FIXED_SIZE[c['code']]
            chans.append(c)
        frames.append({'name': o['name'], 'channels': chans, 'rows': [], 'empty': 0})
    by_name = {f['name']: f for f in frames}
    for k in rec_ids:
        rec = records[k]
        if rec['kind'] != 'iflr' or rec.get('encrypted'):
            continue
        nm = (rec['frame'][0], rec['frame'][1], bytes(rec['frame'][2]))
        f = by_name.get(nm)
        if rec['channels'] is None:
            if f is not None:
                f['empty'] += 1
            continue
        if f is None:
            raise EncoderError('frame data for an unknown frame type')
        if [len(b) for b in rec['channels']] != [c['size'] for c in f['channels']]:
            raise EncoderError('frame data sizes do not match the channels')
        f['rows'].append({'record': k, 'number': rec['number'], 'channels': [bytes(b) for b in rec['channels']]})
    return {'frames': frames}


def build_logical(case):
    """(file bytes, model) for a case produced by the strategies below."""
    recs = case['records']
    phys = [physical_record(r) for r in recs]
    for p, lay in zip(phys, case['layouts']):
        if sum(s['n'] for s in lay) != len(p['payload']):
            raise EncoderError('layout does not fit the payload')
    data, pm = G.encode_file(case['sul'], phys, case['layouts'], case['vr_caps'])
    model = {'records': [], 'tables': [], 'logical_files': [], 'physical': pm, 'payloads': [p['payload'] for p in phys]}
    cur = None
    for k, (rec, p) in enumerate(zip(recs, phys)):
        m = {'kind': rec['kind'], 'eflr': p['eflr'], 'lr_type': rec['lr_type'], 'encrypted': p['encrypted'], 'table': None,
             'segments': len(case['layouts'][k]), 'vr_pos': pm['records'][k]['vr_pos'], 'lrsh_pos': pm['records'][k]['lrsh_pos'],
             'visible_records': len(pm['records'][k]['vrs'])}
        model['records'].append(m)
        if rec['kind'] == 'set' and not p['encrypted']:
            t = table_model(rec['set'])
            t['record'] = k
            t['lr_type'] = rec['lr_type']
            m['table'] = len(model['tables'])
            model['tables'].append(t)
            if t['type'] == b'FILE-HEADER':
                cur = {'tables': [], 'records': [], 'log_pass': None}
                model['logical_files'].append(cur)
            if cur is None:
                raise EncoderError('first set is not a FILE-HEADER')
            cur['tables'].append(m['table'])
        if cur is not None:
            cur['records'].append(k)
    for lf in model['logical_files']:
        lf['log_pass'] = log_pass_model([model['tables'][i] for i in lf['tables']], recs, lf['records'])
    return data, model


# -------------------------------------------------------------------------------------------------
# Strategies.  Cases are large (hundreds of choices), so the building blocks are plain functions of ``draw`` over a
# few cached primitive strategies; the public strategies at the end wrap them with st.composite.
# -------------------------------------------------------------------------------------------------
UPPER = b'ABCDEFGHIJKLMNOPQRSTUVWXYZ0123456789-_'
PRINTABLE = bytes(range(32, 127))
UNITS_CHARS = b'abcdefghijklmnopqrstuvwxyzABCDEFGHIJKLMNOPQRSTUVWXYZ0123456789 -./()'
UNIT_WORDS = [b'm', b'ft', b'0.1 in', b's', b'ms', b'us/ft', b'g/cm3', b'ohm.m', b'deg', b'degC', b'lbf', b'1/min', b'kg/m3',
              b'm/s2', b'(m3/m3)', b'API', b'']
NICE_FLOATS = [0.0, 1.0, -1.0, 153.0, -153.0, 0.5, 2889.4, 1e-3, -999.25, 1e10, 3.14159, 65536.0, 1e-20]
UVARI_EDGES = [0, 1, 127, 128, 255, 256, 16383, 16384, (1 << 30) - 1]
BOOL = st.booleans()


@functools.lru_cache(maxsize=None)
def ints(lo, hi):
    return st.integers(lo, hi)


@functools.lru_cache(maxsize=None)
def binaries(lo, hi):
    return st.binary(min_size=lo, max_size=hi)


def _pick(draw, seq):
    return seq[draw(ints(0, len(seq) - 1))]


def _text(draw, alphabet, lo, hi):
    """Byte string over an alphabet: one choice (a byte string) mapped onto the alphabet."""
    raw = draw(binaries(lo, hi))
    n = len(alphabet)
    return bytes(alphabet[b % n] for b in raw)


def _ident(draw, min_size=0):
    k = draw(ints(0, 29))
    if k < 18:
        return _text(draw, UPPER, max(1, min_size), 8)
    if k < 29:
        return _text(draw, PRINTABLE, min_size, 20)
    return _text(draw, PRINTABLE, 200, 255)


def _units(draw):
    k = draw(ints(0, 29))
    if k < 18:
        return _pick(draw, UNIT_WORDS)
    if k < 29:
        return _text(draw, UNITS_CHARS, 0, 12)
    return _text(draw, UNITS_CHARS, 100, 255)


def _ascii(draw):
    k = draw(ints(0, 79))
    if k == 0:
        # longer than 16383 bytes: four byte length, and the record cannot fit one segment
        n, s = draw(ints(16384, 17000)), draw(ints(0, 255))
        return bytes((s + 7 * i) & 0xFF for i in range(n))
    if k < 8:
        return draw(binaries(128, 400))
    if k < 40:
        return _text(draw, PRINTABLE, 0, 24)
    return draw(binaries(0, 40))


def _uvari(draw):
    k = draw(ints(0, 9))
    if k < 5:
        return draw(ints(0, 127))
    if k < 7:
        return draw(ints(128, 16383))
    if k < 9:
        return draw(ints(16384, (1 << 30) - 1))
    return _pick(draw, UVARI_EDGES)


def _obname(draw):
    return [_uvari(draw), draw(ints(0, 255)) if draw(BOOL) else 0, _ident(draw)]


def _ibm_word(x):
    """A (not necessarily normalised) IBM word of a small float: used only to get readable values."""
    if x == 0:
        return b'\x00\x00\x00\x00'
    s = 0x80 if x < 0 else 0
    x = abs(x)
    e = 64
    while x >= 1 and e < 127:
        x /= 16
        e += 1
    while x < 1 / 16 and e > 0:
        x *= 16
        e -= 1
    m = int(x * (1 << 24)) & 0xFFFFFF
    return bytes([s | e, m >> 16, (m >> 8) & 0xFF, m & 0xFF])


def _vax_word(x):
    if x == 0:
        return b'\x00\x00\x00\x00'
    w = struct.pack('>f', x * 4)    # the VAX F exponent is 2 above the IEEE exponent of the same value
    return bytes([w[1], w[0], w[3], w[2]])


FLOAT_EDGES = {2: [b'\x7f\x80\x00\x00', b'\xff\x80\x00\x00', b'\x7f\xc0\x00\x00', b'\x80\x00\x00\x00', b'\x00\x00\x00\x01', b'\x7f\x7f\xff\xff'],
               7: [b'\x7f\xf0' + bytes(6), b'\xff\xf0' + bytes(6), b'\x7f\xf8' + bytes(6), bytes(7) + b'\x01', b'\x7f\xef' + b'\xff' * 6],
               5: [b'\x42\x99\x00\x00', b'\xc2\x99\x00\x00', b'\x7f\xff\xff\xff', b'\x00\x00\x00\x01'],
               6: [b'\x19\x44\x00\x00', b'\x19\xc4\x00\x00', b'\xff\x7f\xff\xff', b'\x80\x00\x00\x00']}
FLOAT_PACK = {2: lambda x: struct.pack('>f', x), 7: lambda x: struct.pack('>d', x), 5: _ibm_word, 6: _vax_word}


def _fixed_word(draw, code):
    n = FIXED_SIZE[code]
    if code == 26:
        return b'\x01' if draw(BOOL) else b'\x00'
    k = draw(ints(0, 5))
    if code in FLOAT_CODES:
        if k < 3:
            w = draw(binaries(n, n))
        elif k < 5:
            w = FLOAT_PACK[code](_pick(draw, NICE_FLOATS))
        else:
            w = _pick(draw, FLOAT_EDGES[code])
        return fix_vsingl(w) if code == 6 else w
    if k < 5:
        return draw(binaries(n, n))
    return _pick(draw, [bytes(n), b'\xff' * n, b'\x7f' + b'\xff' * (n - 1), b'\x80' + bytes(n - 1), bytes(n - 1) + b'\x01'])


def _dtime(draw):
    y, tz, mo, d = draw(ints(0, 255)), draw(ints(0, 2)), draw(ints(1, 12)), draw(ints(1, 31))
    h, mi, s, ms = draw(ints(0, 23)), draw(ints(0, 59)), draw(ints(0, 59)), draw(ints(0, 999))
    return bytes([y, (tz << 4) | mo, d, h, mi, s, ms >> 8, ms & 0xFF])


def _value(draw, code):
    if code in FIXED_SIZE:
        return _fixed_word(draw, code)
    if code in (18, 22):
        return _uvari(draw)
    if code == 19:
        return _ident(draw)
    if code == 20:
        return _ascii(draw)
    if code == 21:
        return _dtime(draw)
    if code == 23:
        return _obname(draw)
    if code == 24:
        return [_ident(draw, 1)] + _obname(draw)
    if code == 27:
        return _units(draw)
    raise EncoderError('no strategy for code %r' % code)


def _values(draw, code, count):
    return [_value(draw, code) for _ in range(count)]


@functools.lru_cache(maxsize=None)
def value_of(code):
    """Strategy for one value of a representation code (in the case form described in the module docstring)."""
    return st.composite(lambda draw: _value(draw, code))()


# ------------------------------------------------------------------------------------------------- sets
LABEL_POOL = [b'LONG-NAME', b'DESCRIPTION', b'VALUES', b'ZONES', b'DIMENSION', b'AXIS', b'STATUS', b'SERIAL-NUMBER', b'TYPE',
              b'LOCATION', b'HEIGHT', b'TRADEMARK-NAME', b'GENERIC-NAME', b'PARTS', b'PROPERTIES', b'MINIMUM', b'MAXIMUM',
              b'DOMAIN', b'TEXT', b'TIME', b'ORIGIN', b'REFERENCES', b'COORDINATES', b'SPACING', b'FILE-ID', b'FILE-NUMBER',
              b'CREATION-TIME', b'WELL-NAME', b'COMPANY', b'PRODUCT', b'VERSION']   # 31 labels: a prime number
FURTHER_TYPES = sorted(t for t in PUBLIC_TYPES if t not in (b'FILE-HEADER', b'CHANNEL', b'FRAME'))


def _count(draw, maximum=4):
    k = draw(ints(0, maximum + 3))
    return k if k <= maximum else (1, 1, 2)[k - maximum - 1]


def _template_attr(draw, label, invariant):
    count = _count(draw) if draw(BOOL) else None
    code = _pick(draw, CODES) if draw(ints(0, 2)) else None
    units = _units(draw) if draw(ints(0, 2)) == 0 else None
    has_v = draw(ints(0, 9)) < (8 if invariant else 4)
    values = _values(draw, 19 if code is None else code, 1 if count is None else count) if has_v else None
    return {'inv': invariant, 'label': label, 'count': count, 'code': code, 'units': units, 'values': values}


def _object_attr(draw, t, allow_absent):
    """One attribute component of an object for template attribute t."""
    kind = draw(ints(0, 11))
    if allow_absent and kind < 2:
        return {'k': 'absent'}
    a = {'k': 'attr', 'label': None, 'count': None, 'code': None, 'units': None, 'values': None}
    if kind == 2:
        return a     # descriptor only: every characteristic from the template
    if draw(ints(0, 23)) == 0:
        # a long value list: the count needs a two byte UVARI (128 and more); one byte values from a pattern, no draws
        n, seed = _pick(draw, [128, 129, 130, 200, 255, 256, 300]), draw(ints(0, 255))
        a.update(count=n, code=_pick(draw, [15, 12]), values=[bytes([(seed + 3 * i) & 0xFF]) for i in range(n)])
        return a
    flags = draw(ints(0, 255))
    if flags & 0x0F == 0 and t['label'] is not None:
        a['label'] = t['label']
    if flags & 0x30 == 0:
        a['count'] = _count(draw)
    if flags & 0xC0 == 0:
        a['code'] = _pick(draw, CODES)
    if draw(ints(0, 3)) == 0:
        a['units'] = _units(draw)
    overridden = a['code'] is not None or a['count'] == 0
    if kind < 10 or (overridden and t['values'] is not None):
        a['values'] = _values(draw, _eff(a, 'code', _eff(t, 'code', 19)), _eff(a, 'count', _eff(t, 'count', 1)))
    return a


def _unique_labels(draw, n, allow_null):
    start, stride = draw(ints(0, len(LABEL_POOL) - 1)), draw(ints(1, len(LABEL_POOL) - 1))
    out = []
    for i in range(n):
        lab = LABEL_POOL[(start + i * stride) % len(LABEL_POOL)]
        k = draw(ints(0, 7))
        if k == 0:
            lab = lab + b'-' + str(i).encode()
        elif k == 1:
            lab = _text(draw, PRINTABLE, 1, 10) + bytes([0x41 + i])
        out.append(lab)
    if len(set(out)) != len(out):
        out = [lab + bytes([0x61 + i]) for i, lab in enumerate(out)]
    if allow_null and draw(ints(0, 11)) == 0:
        out[draw(ints(0, n - 1))] = None    # label characteristic not present: the global default, an empty label
    return out


def _unique_obnames(draw, n, origin=None):
    out, seen = [], set()
    for i in range(n):
        k = draw(ints(0, 7))
        if k < 2 and out:
            # same identifier as an earlier object, told apart by the copy number
            prev = out[draw(ints(0, len(out) - 1))]
            nm = [prev[0], (prev[1] + 1 + draw(ints(0, 3))) % 256, prev[2]]
        else:
            nm = _obname(draw)
            if origin is not None and k < 6:
                nm[0] = origin
        while (nm[0], nm[1], bytes(nm[2])) in seen:
            nm = [nm[0], nm[1], bytes(nm[2])[:200] + b'#' + str(i).encode()]
        seen.add((nm[0], nm[1], bytes(nm[2])))
        out.append(nm)
    return out


def _generic_set(draw, set_type=None, lr_type=None, origin=None, invariant=False, no_attr_objects=False, absent=True,
                 max_attrs=6, max_objects=5, role='SET'):
    if set_type is None:
        if draw(ints(0, 3)) == 0:
            set_type = b'X-' + _text(draw, UPPER, 1, 12)    # private type
            lr = draw(ints(12, 127)) if draw(BOOL) else draw(ints(128, 255))    # undefined public codes / private codes
        else:
            set_type = _pick(draw, FURTHER_TYPES)
            lr = PUBLIC_TYPES[set_type]
        if lr_type is None:
            lr_type = lr
    elif lr_type is None:
        lr_type = PUBLIC_TYPES.get(set_type, 64)
    k = draw(ints(0, 5))
    name = None if k < 2 else (_ident(draw) if k < 5 else _text(draw, b'0123456789', 1, 3))
    n_attr = draw(ints(1, max_attrs))
    labels = _unique_labels(draw, n_attr, True)
    template = [_template_attr(draw, lab, invariant and draw(ints(0, 2)) == 0) for lab in labels]
    if invariant and not any(t['inv'] for t in template):
        i = draw(ints(0, n_attr - 1))
        template[i] = _template_attr(draw, labels[i], True)
    variable = [t for t in template if not t['inv']]
    n_obj = draw(ints(0, max_objects)) if draw(BOOL) else draw(ints(min(2, max_objects), max_objects))
    objects = []
    for nm in _unique_obnames(draw, n_obj, origin):
        nv = len(variable)
        mode = draw(ints(0, 9))
        if no_attr_objects and nv and mode < 3:
            k = 0
        elif nv > 1 and mode < 6:
            k = draw(ints(1, nv - 1))       # trailing omission
        else:
            k = nv
        objects.append({'name': nm, 'attrs': [_object_attr(draw, t, absent) for t in variable[:k]]})
    return {'kind': 'set', 'lr_type': lr_type, 'encrypted': False,
            'set': {'role': role, 'type': set_type, 'name': name, 'template': template, 'objects': objects}}


def _plain_attr(label, code, count=None, values=None, units=None):
    return {'inv': False, 'label': label, 'count': count, 'code': code, 'units': units, 'values': values}


def _obj_attr(values=None, count=None, code=None, units=None):
    return {'k': 'attr', 'label': None, 'count': count, 'code': code, 'units': units, 'values': values}


def _file_header_set(draw, origin, seq):
    """FILE-HEADER in the conventional form (RP66V1 5.1): SEQUENCE-NUMBER and ID, ASCII, one object."""
    seq_txt = str(seq).rjust(10).encode()
    ident = _text(draw, PRINTABLE, 0, 65).ljust(65)
    template = [_plain_attr(b'SEQUENCE-NUMBER', 20), _plain_attr(b'ID', 20)]
    obj = {'name': [origin, 0, _pick(draw, [b'0', b'1', b'N'])], 'attrs': [_obj_attr([seq_txt]), _obj_attr([ident])]}
    return {'kind': 'set', 'lr_type': 0, 'encrypted': False,
            'set': {'role': 'SET', 'type': b'FILE-HEADER', 'name': _ident(draw) if draw(BOOL) else None, 'template': template,
                    'objects': [obj]}}


# ------------------------------------------------------------------------------------------------- log pass
def _dimensions(draw, scalar=False, max_elements=12):
    if scalar or draw(ints(0, 2)) == 0:
        return [1]
    rank = _pick(draw, [1, 1, 2, 2, 3])
    dims, room = [], max_elements
    for _r in range(rank):
        d = draw(ints(1, max(1, min(room, 6))))
        dims.append(d)
        room //= d
    return dims


def _shuffled(draw, items):
    items = list(items)
    for i in range(len(items) - 1, 0, -1):
        j = draw(ints(0, i))
        items[i], items[j] = items[j], items[i]
    return items


CHANNEL_IDENTS = [b'DEPT', b'TIME', b'GR', b'TENS', b'RHOB', b'NPHI', b'WF', b'CALI', b'SP', b'DT']
CHANNEL_EXTRAS = {b'PROPERTIES': 19, b'ELEMENT-LIMIT': 18, b'SOURCE': 24, b'AXIS': 23}
FRAME_EXTRAS = {b'INDEX-TYPE': 19, b'DIRECTION': 19, b'SPACING': 2, b'ENCRYPTED': 15}


def _log_pass_records(draw, origin=1, max_frame_types=4, max_channels=6, max_frames=40, codes=FRAME_CODES,
                      allow_empty_iflr=True, allow_encrypted=True, max_elements=12, frame_weights=(1, 2, 2, 3, 4),
                      array_first_channel=False):
    """CHANNEL set, FRAME set and frame data records of one logical file (to be placed after FILE-HEADER and ORIGIN).
    Returns (the two sets, frame data records)."""
    n_types = min(max_frame_types, _pick(draw, frame_weights))
    frames, used = [], set()
    for f in range(n_types):
        chans = []
        for c in range(draw(ints(1, max_channels))):
            ident = _pick(draw, CHANNEL_IDENTS if c or f else [b'DEPT', b'TIME', b'INDEX'])
            while ident in used:
                ident = ident + str(len(used)).encode()
            used.add(ident)
            name_ = [origin if draw(ints(0, 3)) else _uvari(draw), _pick(draw, [0, 0, 1, 7]), ident]
            earlier = [ch['name'] for fr_ in frames for ch in fr_[1:]]
            if array_first_channel and f and c and earlier and draw(ints(0, 4)) == 0:
                # a channel object of an earlier frame type's identifier under another copy number (e.g. the same curve
                # recorded at two sample rates): objects are told apart by origin, copy number AND identifier
                o_, c_, i_ = _pick(draw, earlier)
                cand = [o_, c_ + 1 + draw(ints(0, 2)), i_]
                if cand not in earlier and all(ch['name'][2] != i_ for ch in chans):
                    used.discard(ident)
                    name_ = cand
            chans.append({'name': name_,
                          'code': _pick(draw, codes), 'dims': _dimensions(draw, c == 0 and not (array_first_channel and draw(ints(0, 4)) == 0), max_elements),
                          'units': _pick(draw, UNIT_WORDS) if draw(BOOL) else None,
                          'long_name': _text(draw, PRINTABLE, 0, 20) if draw(BOOL) else None})
        frames.append(chans)
    all_ch = [c for f in frames for c in f]
    if draw(BOOL):
        all_ch = _shuffled(draw, all_ch)      # the CHANNEL set need not list channels in frame order
    # CHANNEL template: the four attributes the frame structure needs, plus extras, in any order
    dflt_code = _pick(draw, all_ch)['code'] if draw(BOOL) else None
    dflt_dim = draw(BOOL)
    tmpl = [_plain_attr(b'LONG-NAME', 20),
            _plain_attr(b'REPRESENTATION-CODE', 15, values=None if dflt_code is None else [bytes([dflt_code])]),
            _plain_attr(b'UNITS', 27),
            _plain_attr(b'DIMENSION', 18, count=1 if dflt_dim else None, values=[1] if dflt_dim else None)]
    extras = sorted(CHANNEL_EXTRAS)
    for i in range(draw(ints(0, 2))):
        lab = extras[(draw(ints(0, 3)) + i * 2) % 4] if i == 0 else extras[(extras.index(tmpl[-1]['label']) + 1 + draw(ints(0, 2))) % 4]
        tmpl.append(_plain_attr(lab, CHANNEL_EXTRAS[lab], count=draw(ints(0, 2)) if draw(BOOL) else None))
    tmpl = _shuffled(draw, tmpl)
    objs = []
    for ch in all_ch:
        attrs = []
        for t in tmpl:
            lab = t['label']
            if lab == b'LONG-NAME':
                a = _obj_attr(None if ch['long_name'] is None else [ch['long_name']])
            elif lab == b'REPRESENTATION-CODE':
                a = _obj_attr(None) if dflt_code == ch['code'] and draw(BOOL) else _obj_attr([bytes([ch['code']])])
            elif lab == b'UNITS':
                a = _obj_attr(None if ch['units'] is None else [ch['units']])
            elif lab == b'DIMENSION':
                if dflt_dim and ch['dims'] == [1] and draw(BOOL):
                    a = _obj_attr(None)
                else:
                    a = _obj_attr(list(ch['dims']), count=None if len(ch['dims']) == _eff(t, 'count', 1) else len(ch['dims']))
            else:
                a = _obj_attr(_values(draw, t['code'], _eff(t, 'count', 1))) if draw(BOOL) else _obj_attr(None)
            attrs.append(a)
        # trailing attributes that take everything from the template may be omitted
        while attrs and attrs[-1]['values'] is None and attrs[-1]['count'] is None and draw(BOOL):
            attrs.pop()
        if not attrs:
            attrs.append(_obj_attr(None))     # keep one component: objects without any are a separate matter (C03)
        objs.append({'name': ch['name'], 'attrs': attrs})
    channel_set = {'kind': 'set', 'lr_type': 3, 'encrypted': False,
                   'set': {'role': 'SET', 'type': b'CHANNEL', 'name': _ident(draw) if draw(BOOL) else None, 'template': tmpl, 'objects': objs}}
    # FRAME set
    ftmpl = [_plain_attr(b'CHANNELS', 23)]
    if draw(BOOL):
        ftmpl.append(_plain_attr(b'DESCRIPTION', 20))
    fx = sorted(FRAME_EXTRAS)
    k = draw(ints(0, 11))
    for lab in ([fx[k % 4]] if k < 4 else ([fx[k % 4], fx[(k + 1 + k // 8) % 4]] if k < 8 else [])):
        ftmpl.append(_plain_attr(lab, FRAME_EXTRAS[lab]))
    ftmpl = _shuffled(draw, ftmpl)
    fobjs, fnames = [], _unique_obnames(draw, n_types, origin)
    for nm, chans in zip(fnames, frames):
        attrs = []
        for t in ftmpl:
            if t['label'] == b'CHANNELS':
                attrs.append(_obj_attr([list(c['name']) for c in chans], count=None if len(chans) == 1 else len(chans)))
            elif t['label'] == b'DESCRIPTION':
                attrs.append(_obj_attr([_text(draw, PRINTABLE, 0, 16)]) if draw(BOOL) else _obj_attr(None))
            else:
                attrs.append(_obj_attr(_values(draw, t['code'], 1)) if draw(BOOL) else _obj_attr(None))
        while attrs and attrs[-1]['values'] is None and draw(BOOL):
            attrs.pop()
        fobjs.append({'name': nm, 'attrs': attrs})
    frame_set = {'kind': 'set', 'lr_type': 4, 'encrypted': False,
                 'set': {'role': 'SET', 'type': b'FRAME', 'name': _ident(draw) if draw(BOOL) else None, 'template': ftmpl, 'objects': fobjs}}
    head = [channel_set, frame_set] if draw(ints(0, 3)) else [frame_set, channel_set]
    # frame data: the frame types interleaved in a generated order
    hi = max(n_types, 12) if draw(BOOL) else max(n_types, max_frames * n_types // 2)
    total = draw(ints(n_types, hi))
    runs = draw(BOOL)
    order = []
    while len(order) < total:
        t = draw(ints(0, n_types - 1))
        order += [t] * (draw(ints(1, 6)) if runs else 1)
    order = order[:total]
    for t in range(n_types):
        if t not in order:
            order.insert(draw(ints(0, len(order))), t)
    for t in range(n_types):           # cap the frames per type
        while order.count(t) > max_frames:
            order.remove(t)
    numbering = [_pick(draw, ['seq', 'seq', 'seq', 'offset', 'any']) for _ in range(n_types)]
    start = [draw(ints(0, 300)) for _ in range(n_types)]
    sizes = [sum(FIXED_SIZE[c['code']] * _product(c['dims']) for c in chans) for chans in frames]
    seen = [0] * n_types
    data = []
    for t in order:
        chans = frames[t]
        seen[t] += 1
        if numbering[t] == 'seq':
            num = seen[t]
        elif numbering[t] == 'offset':
            num = start[t] + 2 * seen[t]
        else:
            num = _uvari(draw)
        if draw(ints(0, 3)):
            row = draw(binaries(sizes[t], sizes[t]))     # raw words: any bit pattern of every code
            blobs, i = [], 0
            for c in chans:
                n = FIXED_SIZE[c['code']] * _product(c['dims'])
                blobs.append(row[i:i + n])
                i += n
        else:
            blobs = [b''.join(_fixed_word(draw, c['code']) for _ in range(_product(c['dims']))) for c in chans]
        blobs = [fix_vsingl(b) if c['code'] == 6 else b for b, c in zip(blobs, chans)]
        data.append({'kind': 'iflr', 'lr_type': 0, 'encrypted': False, 'frame': list(fnames[t]), 'number': num, 'channels': blobs})
        if allow_empty_iflr and draw(ints(0, 11)) == 0:
            nm = list(fnames[draw(ints(0, n_types - 1))]) if draw(ints(0, 4)) else _obname(draw)
            data.append({'kind': 'iflr', 'lr_type': 0, 'encrypted': False, 'frame': nm,
                         'number': _pick(draw, [0, 0, seen[t] + 1]), 'channels': None})
        if allow_encrypted and draw(ints(0, 23)) == 0:
            data.append({'kind': 'raw', 'eflr': False, 'lr_type': 0, 'encrypted': True, 'payload': draw(binaries(2, 60))})
    return head, data


def _product(dims):
    n = 1
    for d in dims:
        n *= d
    return n


# ------------------------------------------------------------------------------------------------- files
def _segment_for(draw, n, force):
    """Trailers and padding of a segment with n body bytes (the rule of vt.gen.dlis.segment_for: even length >= 16)."""
    checksum = draw(BOOL) if force is None else force[0]
    trailing = draw(BOOL) if force is None else force[1]
    base = G.SEG_HEAD + n + 2 * checksum + 2 * trailing
    need = max(0, G.SEG_MIN - base)
    if (base + need) % 2:
        need += 1
    room = min(255 - need, G.SEG_MAX - base - need)
    extra = 0
    if room >= 2 and draw(ints(0, 3)) == 0:
        extra = 2 * (draw(ints(1, min(3, room // 2))) if draw(BOOL) else draw(ints(1, room // 2)))
    return {'n': n, 'pad': need + extra, 'checksum': checksum, 'trailing': trailing}


def _layout_for(draw, n):
    """Segmentation of a payload of n bytes."""
    force = (draw(BOOL), draw(BOOL)) if draw(BOOL) else None
    if n == 0:
        bodies = [0]
    else:
        k = draw(ints(0, 2))
        k = 1 if k == 0 else draw(ints(1, min(n, 4 if k == 1 else 12)))
        if k == 1:
            bodies = [n]
        else:
            cuts = sorted({draw(ints(1, n - 1)) for _ in range(k - 1)})
            cuts = [0] + cuts + [n]
            bodies = [b - a for a, b in zip(cuts, cuts[1:])]
    lim = G.SEG_MAX - G.SEG_HEAD - 4 - 2
    fixed = []
    for b in bodies:
        while b > lim:
            fixed.append(lim)
            b -= lim
        fixed.append(b)
    return [_segment_for(draw, b, force) for b in fixed]


def _finish_case(draw, records):
    phys = [physical_record(r) for r in records]
    layouts = [_layout_for(draw, len(p['payload'])) for p in phys]
    caps = []
    for _ in range(draw(ints(1, 4))):
        k = draw(ints(0, 3))
        caps.append(draw(ints(20, (64, 400, G.VR_MAX)[k])) if k < 3 else _pick(draw, [8192, G.VR_MAX]))
    sul = draw(SULS)
    _b, pm = G.encode_file(dict(sul, max_len=G.VR_MAX), phys, layouts, caps)
    if sul['max_len'] < pm['max_vr']:
        sul = dict(sul, max_len=draw(ints(pm['max_vr'], G.VR_MAX)))
    return {'sul': sul, 'records': records, 'layouts': layouts, 'vr_caps': caps}


SULS = G.suls()


def _encrypted_record(draw):
    return {'kind': 'raw', 'eflr': draw(ints(0, 2)) > 0, 'lr_type': draw(ints(0, 11)) if draw(BOOL) else draw(ints(0, 255)),
            'encrypted': True, 'payload': draw(binaries(0, 80))}


def _logical_file_records(draw, seq=1, max_sets=6, crash_shapes=False, absent=True, log_pass=False, allow_encrypted=True,
                          log_pass_args=None):
    origin = draw(ints(0, 127)) if draw(BOOL) else _uvari(draw)
    if draw(ints(0, 3)):
        fh = _file_header_set(draw, origin, seq)
    else:
        fh = _generic_set(draw, b'FILE-HEADER', 0, origin, absent=absent, max_objects=2)
    org = _generic_set(draw, _pick(draw, [b'ORIGIN', b'ORIGIN', b'WELL-REFERENCE']), 1, origin, absent=absent, max_objects=2)
    further = []
    for _ in range(draw(ints(0, max_sets))):
        inv = crash_shapes and draw(ints(0, 3)) == 0
        noa = crash_shapes and draw(ints(0, 3)) == 0
        further.append(_generic_set(draw, origin=origin, invariant=inv, no_attr_objects=noa, absent=absent))
        if draw(ints(0, 7)) == 0:
            src = further[draw(ints(0, len(further) - 1))]
            if draw(BOOL):
                # redundant set: an identical copy of a set written earlier in the logical file
                further.append(dict(src, set=dict(src['set'], role='RDSET')))
            else:
                # replacement set: same type and name, new content
                rep = _generic_set(draw, src['set']['type'], src['lr_type'], origin, absent=absent)
                further.append(dict(rep, set=dict(rep['set'], role='RSET', name=src['set']['name'])))
    if draw(ints(0, 5)) == 0:
        # the ORIGIN set written again, verbatim (as a plain set or marked redundant): one more table of the logical file
        again = dict(org) if draw(BOOL) else dict(org, set=dict(org['set'], role='RDSET'))
        further.insert(draw(ints(0, len(further))), again)
    records = [fh, org]
    data = []
    if log_pass:
        head, data = _log_pass_records(draw, origin=origin, allow_encrypted=allow_encrypted, **(log_pass_args or {}))
        cut = draw(ints(0, len(further)))
        records += further[:cut] + head
        # sets written after the frame structure is known may be interleaved with the frame data
        for s in further[cut:]:
            data.insert(draw(ints(0, len(data))), s)
    else:
        records += further
    records += data
    if allow_encrypted:
        for _ in range(_pick(draw, [0, 0, 0, 1, 1, 2, 3])):
            records.insert(draw(ints(0, len(records))), _encrypted_record(draw))
    return records


# ------------------------------------------------------------------------------------------------- public strategies
@st.composite
def generic_sets(draw, set_type=None, lr_type=None, origin=None, invariant=False, no_attr_objects=False, absent=True,
                 max_attrs=6, max_objects=5, role='SET'):
    """One set record from the grammar.  invariant / no_attr_objects / absent switch the three structural features on
    that the C03 candidate defects concern (so that callers can keep them out of sets other code depends on)."""
    return _generic_set(draw, set_type, lr_type, origin, invariant, no_attr_objects, absent, max_attrs, max_objects, role)


@st.composite
def finish_case(draw, records):
    """Adds a physical layout (segments, visible records, storage unit label) to a list of logical record specs."""
    return _finish_case(draw, records)


@st.composite
def logical_file_records(draw, **kw):
    """Records of one logical file: FILE-HEADER, ORIGIN, further sets (+ redundant / replacement sets), encrypted
    records interleaved, optionally a log pass (CHANNEL, FRAME, frame data)."""
    return _logical_file_records(draw, **kw)


@st.composite
def logical_files(draw, min_files=1, max_files=4, max_sets=6, crash_shapes=None, absent=True, log_pass_weight=5,
                  allow_encrypted=True, log_pass_args=None):
    """A storage unit of min_files..max_files logical files from the C03 grammar.
    crash_shapes: None = one file in four may contain sets with invariant attributes / objects without attribute
    components (the C03 candidate defects F03a/b); True / False = always allowed / never.
    log_pass_weight: one logical file in N carries a log pass (0 = never)."""
    if crash_shapes is None:
        crash_shapes = draw(ints(0, 3)) == 0
    n = draw(ints(min_files, max_files)) if draw(BOOL) else draw(ints(min_files, min(max_files, max(min_files, 2))))
    records = []
    for i in range(n):
        lp = bool(log_pass_weight) and draw(ints(0, log_pass_weight - 1)) == 0
        recs_ = _logical_file_records(draw, seq=i + 1, max_sets=max_sets if not lp else min(max_sets, 2), crash_shapes=crash_shapes,
                                      absent=absent, log_pass=lp, allow_encrypted=allow_encrypted,
                                      log_pass_args=dict(dict(max_frames=6, max_frame_types=2), **(log_pass_args or {})))
        if i and draw(ints(0, 7)) == 0:
            # the FILE-HEADER set of a later logical file written with another set role (replacement / redundant set component):
            # "exactly at each FILE-HEADER record" - the role bits of the set component do not make it another kind of record
            k_ = next(j for j, r_ in enumerate(recs_) if r_['kind'] == 'set' and r_['set']['type'] == b'FILE-HEADER')
            recs_[k_] = dict(recs_[k_], set=dict(recs_[k_]['set'], role=_pick(draw, ['RDSET', 'RSET'])))
        records += recs_
    return _finish_case(draw, records)


@st.composite
def log_pass_files(draw, max_frame_types=4, max_channels=6, max_frames=40, max_sets=2, codes=FRAME_CODES, allow_empty_iflr=True,
                   allow_encrypted=True, max_elements=12, frame_weights=(1, 2, 2, 3, 4), array_first_channel=False):
    """A storage unit holding one logical file with a log pass (the C04 grammar); no structural feature of the C03
    candidate defects is used, so the file indexes on the unchanged tree."""
    records = _logical_file_records(draw, max_sets=max_sets, crash_shapes=False, absent=False, log_pass=True,
                                    allow_encrypted=allow_encrypted,
                                    log_pass_args=dict(max_frame_types=max_frame_types, max_channels=max_channels, max_frames=max_frames,
                                                       codes=codes, allow_empty_iflr=allow_empty_iflr, max_elements=max_elements,
                                                       frame_weights=frame_weights, array_first_channel=array_first_channel))
    return _finish_case(draw, records)


def summary(case, model):
    """Compact description of a case for the evidence file."""
    lfs = []
    for lf in model['logical_files']:
        tabs = []
        for i in lf['tables']:
            t = model['tables'][i]
            tabs.append({'type': t['type'], 'role': t['role'], 'template': [(a['label'], a['present'], int(a['invariant'])) for a in t['template']][:8],
                         'objects': len(t['objects']), 'features': sorted(table_shapes(t)), 'segments': model['records'][t['record']]['segments']})
        lp = lf['log_pass']
        lfs.append({'tables': tabs[:8], 'frames': None if lp is None else [
            {'channels': [(c['name'][2], c['code'], c['dims']) for c in f['channels']], 'rows': len(f['rows']), 'empty': f['empty']}
            for f in lp['frames']]})
    return {'logical_files': lfs, 'records': len(case['records']), 'encrypted': sum(1 for r in model['records'] if r['encrypted'])}
