"""Independent encoder (and strict decoder) for Western Atlas / Dresser Atlas BIT files.

Written from the only specification the format has - the docstring of ``TotalDepth/BIT/ReadBIT.py``, the TIF
description in ``TotalDepth/LIS/core/TifMarker.py`` and a hex dump of the bundled example
``example_data/BIT/data/29_10-_3Z_dwl_DWL_WIRE_1644659.bit`` - and sharing no code with TotalDepth.

File layout
-----------
A BIT file is a chain of TIF sets.  Every set starts with a 12 byte marker of three little-endian uint32:

    word 0  type   0 = data, 1 = end marker
    word 1  prev   file position of the start of the previous set (0 for the first *and* second set)
    word 2  next   file position of the start of the next set ( = own position + 12 + payload length)

A log pass is: one header set (type 0, payload 276 bytes), any number of data sets (type 0), one type 1 set with
an empty payload.  After the last pass a second type 1 set ends the file.

Header payload (big-endian fields):

    4    unknown head                              (example 00 02 00 00)
    72   description, printable ASCII
    5    unknown_a   binary                        (example 00 0a 00 18 00)
    75   unknown_b   19 bytes binary/ASCII then 56 printable bytes (the file type sniffer wants the last 56 printable)
    8    unknown_c   binary                        (example 00 12 00 0b 00 06 20 20)
    2    channel count C, '>H', 0..20
    2    null
    80   20 channel names of 4 bytes, the first C significant, the rest filler (spaces)
    20   five IBM single precision floats: start, stop, spacing, unknown (0), unknown (16)
    8+   unknown tail                              (example 'MN239J 1')

Data payload with F frames: C runs of F big-endian IBM single words, channel after channel ("channel-major"):
``ch0[f0..fF-1] ch1[f0..fF-1] ...``.  F may differ from set to set (the last one of a pass is typically short).

Model (JSON-able)
-----------------
    {'passes': [pass, ...], 'ending': 'standard'}
    pass = {'head': bytes4, 'description': bytes72, 'unknown_a': bytes5, 'unknown_b': bytes75, 'unknown_c': bytes8,
            'null': int, 'channels': [str4, ...], 'filler': bytes (4 * (20 - C)),
            'range_words': [start, stop, spacing, unknown, unknown]   raw IBM words (ints),
            'tail': bytes, 'block_frames': [F0, F1, ...], 'data': [[word, ...] per channel]  (all frames, in order)}

``ending``: 'standard' (type 1 after every pass + one more type 1), 'single' (no second type 1 at the very end),
'none' (the last pass is not terminated at all; the reader documents "premature EOF handled silently").

Public API: ``tif_marker  tif_chain  walk_tif  make_pass  make_model  encode_header_block  encode_data_block
encode_bit_file  decode_bit_file  pass_frames  model_summary  bit_models  bit_passes  ibm_word_lists  self_check``.
"""
import struct

from hypothesis import strategies as st

from vt.ref import ibm

TIF_SIZE = 12
TIF_DATA = 0
TIF_END = 1
MAX_CHANNELS = 20
HEADER_FIXED = 4 + 72 + 5 + 75 + 8 + 2 + 2 + 80 + 20  # 268, + tail (8 in the wild) = 276
PRINTABLE = bytes(range(0x20, 0x7F))

EXAMPLE_HEAD = bytes.fromhex('00020000')
EXAMPLE_UNKNOWN_A = bytes.fromhex('000a001800')
EXAMPLE_UNKNOWN_B = b'T  2 9 / 1 0 - 3  '.ljust(75)
EXAMPLE_UNKNOWN_C = bytes.fromhex('0012000b00062020')
EXAMPLE_TAIL = b'MN239J 1'


class BitModelError(Exception):
    """The model cannot be encoded (a bug in the caller / generator, never a verdict on the code under test)."""


# ---------------------------------------------------------------------------------------------
# TIF
# ---------------------------------------------------------------------------------------------
def tif_marker(tif_type: int, prev: int, nxt: int) -> bytes:
    return struct.pack('<3L', tif_type, prev, nxt)


def tif_chain(sets) -> bytes:
    """sets: iterable of (type, payload).  Returns the byte string with correct prev / next positions."""
    out = bytearray()
    prev = 0
    for tif_type, payload in sets:
        tell = len(out)
        out += tif_marker(tif_type, prev, tell + TIF_SIZE + len(payload))
        out += payload
        prev = tell
    return bytes(out)


def walk_tif(data: bytes, strict=True):
    """Independent TIF walker: list of (tell, type, prev, next, payload).  Stops after two consecutive type 1 sets or
    at the end of the data.  With strict=True every inconsistency raises BitModelError."""
    ret = []
    tell = 0
    prev_tell = 0
    while tell < len(data):
        if tell + TIF_SIZE > len(data):
            if strict:
                raise BitModelError('truncated TIF marker at %d' % tell)
            break
        t, p, n = struct.unpack_from('<3L', data, tell)
        if strict:
            if t not in (TIF_DATA, TIF_END):
                raise BitModelError('TIF type %d at %d' % (t, tell))
            if p != prev_tell:
                raise BitModelError('TIF prev %d at %d, expected %d' % (p, tell, prev_tell))
            if n < tell + TIF_SIZE or n > len(data):
                raise BitModelError('TIF next %d at %d (file length %d)' % (n, tell, len(data)))
        ret.append((tell, t, p, n, data[tell + TIF_SIZE:n]))
        if len(ret) >= 2 and t == TIF_END and ret[-2][1] == TIF_END:
            break
        prev_tell = tell
        tell = n
    return ret


# ---------------------------------------------------------------------------------------------
# Model helpers
# ---------------------------------------------------------------------------------------------
def make_pass(channels, data, block_frames=None, start=0x443A6600, stop=0x4438FE00, spacing=0x40400000,
              description=b'', head=EXAMPLE_HEAD, unknown_a=EXAMPLE_UNKNOWN_A, unknown_b=EXAMPLE_UNKNOWN_B,
              unknown_c=EXAMPLE_UNKNOWN_C, null=0, filler=None, extra_words=(0x00000000, 0x42100000),
              tail=EXAMPLE_TAIL):
    """Builds a pass with the defaults of the bundled file.  start / stop / spacing: raw IBM words (int) or floats
    (encoded to the nearest IBM single)."""
    def word(v):
        return ibm.float_to_ibm_word(v) if isinstance(v, float) else int(v)
    frames = len(data[0]) if data else 0
    return {
        'head': bytes(head), 'description': bytes(description).ljust(72)[:72], 'unknown_a': bytes(unknown_a),
        'unknown_b': bytes(unknown_b), 'unknown_c': bytes(unknown_c), 'null': null, 'channels': list(channels),
        'filler': bytes(filler) if filler is not None else b' ' * (4 * (MAX_CHANNELS - len(channels))),
        'range_words': [word(start), word(stop), word(spacing), word(extra_words[0]), word(extra_words[1])],
        'tail': bytes(tail), 'block_frames': list(block_frames) if block_frames is not None else ([frames] if frames else []),
        'data': [list(c) for c in data],
    }


def make_model(passes, ending='standard'):
    return {'passes': list(passes), 'ending': ending}


def pass_frames(p) -> int:
    return sum(p['block_frames'])


def check_pass(p):
    n = len(p['channels'])
    if not 0 <= n <= MAX_CHANNELS:
        raise BitModelError('channel count %d' % n)
    for name, size in (('head', 4), ('description', 72), ('unknown_a', 5), ('unknown_b', 75), ('unknown_c', 8),
                       ('filler', 4 * (MAX_CHANNELS - n))):
        if len(p[name]) != size:
            raise BitModelError('%s must be %d bytes, not %d' % (name, size, len(p[name])))
    for c in p['channels']:
        if len(c) != 4 or any(ord(ch) > 0x7F for ch in c):
            raise BitModelError('channel name %r' % (c,))
    if len(p['range_words']) != 5 or any(not 0 <= w <= ibm.WORD_MAX for w in p['range_words']):
        raise BitModelError('range_words')
    if len(p['data']) != n:
        raise BitModelError('data has %d channels, header %d' % (len(p['data']), n))
    total = pass_frames(p)
    if any(f < 0 for f in p['block_frames']):
        raise BitModelError('negative block frame count')
    if n == 0 and total:
        raise BitModelError('frames without channels')
    for c in p['data']:
        if len(c) != total:
            raise BitModelError('channel with %d words, block_frames sum to %d' % (len(c), total))
        if any(not 0 <= w <= ibm.WORD_MAX for w in c):
            raise BitModelError('data word out of range')


def encode_header_block(p) -> bytes:
    check_pass(p)
    out = bytearray()
    out += p['head'] + p['description'] + p['unknown_a'] + p['unknown_b'] + p['unknown_c']
    out += struct.pack('>H', len(p['channels'])) + struct.pack('>H', p['null'])
    out += b''.join(c.encode('ascii') for c in p['channels']) + p['filler']
    out += b''.join(struct.pack('>L', w) for w in p['range_words'])
    out += p['tail']
    if len(out) != HEADER_FIXED + len(p['tail']):
        raise BitModelError('header length')
    return bytes(out)


def encode_data_block(p, index: int) -> bytes:
    """Payload of data set ``index`` of the pass: channel-major runs of block_frames[index] words."""
    first = sum(p['block_frames'][:index])
    count = p['block_frames'][index]
    out = bytearray()
    for c in p['data']:
        out += struct.pack('>%dL' % count, *c[first:first + count])
    return bytes(out)


def tif_sets(model):
    """List of (type, payload) of the whole file."""
    sets = []
    last = len(model['passes']) - 1
    ending = model.get('ending', 'standard')
    for i, p in enumerate(model['passes']):
        sets.append((TIF_DATA, encode_header_block(p)))
        for b in range(len(p['block_frames'])):
            sets.append((TIF_DATA, encode_data_block(p, b)))
        if i < last or ending != 'none':
            sets.append((TIF_END, b''))
    if ending == 'standard':
        sets.append((TIF_END, b''))
    elif ending not in ('single', 'none'):
        raise BitModelError('ending %r' % (ending,))
    return sets


def encode_bit_file(model) -> bytes:
    """Model -> bytes.  Self-checking: the independent walker must find the chain it was given."""
    sets = tif_sets(model)
    data = tif_chain(sets)
    walked = walk_tif(data, strict=True)
    if [(t, pl) for _tell, t, _p, _n, pl in walked] != sets or (walked and walked[-1][3] != len(data)):
        raise BitModelError('TIF chain self-check failed')
    return data


def decode_header_block(payload: bytes):
    if len(payload) < HEADER_FIXED:
        raise BitModelError('header payload of %d bytes' % len(payload))
    o = 0

    def take(n):
        nonlocal o
        o += n
        return payload[o - n:o]
    p = {'head': take(4), 'description': take(72), 'unknown_a': take(5), 'unknown_b': take(75), 'unknown_c': take(8)}
    count = struct.unpack('>H', take(2))[0]
    p['null'] = struct.unpack('>H', take(2))[0]
    if count > MAX_CHANNELS:
        raise BitModelError('channel count %d' % count)
    names = take(80)
    p['channels'] = [names[4 * i:4 * i + 4].decode('ascii') for i in range(count)]
    p['filler'] = names[4 * count:]
    p['range_words'] = list(struct.unpack('>5L', take(20)))
    p['tail'] = payload[o:]
    return p


def decode_bit_file(data: bytes):
    """Strict independent reader: bytes -> model (inverse of encode_bit_file on well-formed files)."""
    sets = walk_tif(data, strict=True)
    passes = []
    cur = None
    ends = 0
    for _tell, t, _p, _n, payload in sets:
        if t == TIF_DATA:
            ends = 0
            if cur is None:
                cur = decode_header_block(payload)
                cur['block_frames'] = []
                cur['data'] = [[] for _ in cur['channels']]
            else:
                n = len(cur['channels'])
                if n == 0 or len(payload) % (4 * n):
                    raise BitModelError('data payload of %d bytes for %d channels' % (len(payload), n))
                f = len(payload) // (4 * n)
                words = struct.unpack('>%dL' % (f * n), payload)
                for c in range(n):
                    cur['data'][c].extend(words[c * f:(c + 1) * f])
                cur['block_frames'].append(f)
        else:
            if payload:
                raise BitModelError('type 1 set with payload')
            ends += 1
            if cur is not None:
                passes.append(cur)
                cur = None
    ending = 'standard' if ends == 2 else ('single' if ends == 1 else 'none')
    if cur is not None:
        passes.append(cur)
    return {'passes': passes, 'ending': ending}


def model_summary(model):
    """Compact description for evidence samples."""
    return {'ending': model.get('ending', 'standard'), 'passes': [
        {'channels': p['channels'], 'block_frames': p['block_frames'],
         'range_words': ['%08x' % w for w in p['range_words']],
         'first_words': [['%08x' % w for w in c[:3]] for c in p['data'][:3]]} for p in model['passes']]}


# ---------------------------------------------------------------------------------------------
# Hypothesis strategies
# ---------------------------------------------------------------------------------------------
_BOUNDARY_WORDS = None


def _boundary_pool():
    global _BOUNDARY_WORDS
    if _BOUNDARY_WORDS is None:
        _BOUNDARY_WORDS = ibm.boundary_words()
    return _BOUNDARY_WORDS


ANY_WORD = st.integers(0, ibm.WORD_MAX)
_REALISTIC_VALUES = [0.0, 1.0, -1.0, 0.0001, 153.0, -249.709, 100.0, 0.25, 14950.0, -999.25, 8.5, 2.65, 1e-5, 65536.0,
                     0.5, 2.0, 10.0, 16.0, 255.0, 256.0, 4095.9375, 1e6, -1e6, 3.14159, 0.1, 0.2, 0.3, -0.1]
_REALISTIC_POOL = None


def _realistic_pool():
    """Words of numbers a logging tool would record (encoded once; the exact encoder is slow)."""
    global _REALISTIC_POOL
    if _REALISTIC_POOL is None:
        vals = list(_REALISTIC_VALUES)
        vals += [k / 4.0 for k in range(-200, 200, 7)] + [k * 0.01 for k in range(0, 3000, 37)]
        vals += [float(k) for k in range(-40, 400, 9)] + [14950.0 - 0.25 * k for k in range(0, 1500, 31)]
        _REALISTIC_POOL = [ibm.float_to_ibm_word(v) for v in vals]
    return _REALISTIC_POOL


REALISTIC = st.integers(0, 1 << 16).map(lambda k: _realistic_pool()[k % len(_realistic_pool())])


def style_words(raw, style, param=0):
    """Pure transformation of uniformly drawn words into a style (the draw itself is one st.binary, which is cheap
    to generate and shrinks well)."""
    if style == 1:      # boundary words
        pool = _boundary_pool()
        return [pool[w % len(pool)] for w in raw]
    if style == 2:      # realistic log values
        pool = _realistic_pool()
        return [pool[w % len(pool)] for w in raw]
    if style == 3:      # un-normalised: leading hex digit of the fraction zero
        return [w & 0xFF0FFFFF for w in raw]
    if style == 4:      # zero fraction with any sign / characteristic, mixed with arbitrary words
        return [(w & 0xFF000000) if w & 0x100 else w for w in raw]
    if style == 5:      # smooth curve: the fraction carries into the characteristic byte now and then
        step = [1, 2, 0x100, 0x10000, 0xFFFF, 0x100001][param % 6]
        base = raw[0] if raw else 0
        return [(base + i * step) & ibm.WORD_MAX for i in range(len(raw))]
    if style == 6:      # mixture, chosen per word by its low bits
        bp, rp = _boundary_pool(), _realistic_pool()
        return [w if w & 3 == 0 else (bp[(w >> 2) % len(bp)] if w & 3 == 1 else (rp[(w >> 2) % len(rp)] if w & 3 == 2
                else w & 0xFF0FFFFF)) for w in raw]
    return list(raw)


@st.composite
def ibm_word_lists(draw, n):
    """n raw IBM words in one of several styles (uniform bits, boundary words, realistic log values,
    un-normalised, zero fraction with any characteristic, a smooth curve, a mixture)."""
    if n == 0:
        return []
    style = draw(st.integers(0, 6))
    b = draw(st.binary(min_size=4 * n, max_size=4 * n))
    return style_words(struct.unpack('>%dL' % n, b), style, b[0])


NAME_ALPHABET = 'ABCDEFGHIJKLMNOPQRSTUVWXYZ0123456789'
NAME_TAIL = NAME_ALPHABET + ' ' * 12 + '_-./#'
REAL_NAMES = ['COND', 'SN  ', 'SP  ', 'GR  ', 'CAL ', 'TEN ', 'SPD ', 'ACQ ', 'AC  ', 'RT  ', 'CN  ', 'DEN ', 'CORR',
              'RFOC', 'RILM', 'RILD', 'K   ', 'TH  ', 'U   ', 'PORZ']


@st.composite
def channel_name_lists(draw, n):
    """n distinct 4 byte printable names; 'X   ' is reserved by the reader for its computed axis."""
    if draw(st.integers(0, 2)) == 0:
        k = draw(st.integers(0, len(REAL_NAMES) - 1))
        return [REAL_NAMES[(k + i) % len(REAL_NAMES)] for i in range(n)]
    raw = draw(st.binary(min_size=4 * n, max_size=4 * n))
    names = []
    seen = {'X   '}
    for i in range(n):
        q = raw[4 * i:4 * i + 4]
        nm = NAME_ALPHABET[q[0] % 36] + ''.join(NAME_TAIL[x % len(NAME_TAIL)] for x in q[1:])
        if nm in seen:  # make it distinct by construction: position index in base 36 in the last two characters
            nm = nm[:2] + NAME_ALPHABET[i // 36] + NAME_ALPHABET[i % 36]
            while nm in seen:
                nm = NAME_ALPHABET[(NAME_ALPHABET.index(nm[0]) + 1) % 36] + nm[1:]
        seen.add(nm)
        names.append(nm)
    if n >= 2 and raw[0] % 8 == 0 and '    ' not in names:
        names[raw[1] % n] = '    '        # a channel whose name was left blank: still a channel with data in every block
    return names


def _printable(n):
    return st.binary(min_size=n, max_size=n).map(lambda b: bytes(PRINTABLE[x % len(PRINTABLE)] for x in b))


@st.composite
def block_patterns(draw, frames):
    """Per-set frame counts summing to ``frames``: constant block size with a short last block, a single block,
    one frame per block, or an arbitrary composition."""
    if frames == 0:
        return []
    kind = draw(st.integers(0, 4))
    if kind == 0:
        return [frames]
    if kind == 1:
        b = draw(st.integers(1, max(1, min(64, frames))))
        out = [b] * (frames // b)
        if frames % b:
            out.append(frames % b)
        return out
    if kind == 2:
        b = draw(st.sampled_from([16, 8, 4, 2, 32]))
        out = [b] * (frames // b)
        if frames % b:
            out.append(frames % b)
        return out
    if kind == 3 and frames <= 40:
        return [1] * frames
    out = []
    left = frames
    while left:
        b = draw(st.integers(1, min(left, 48)))
        out.append(b)
        left -= b
    return out


@st.composite
def range_word_lists(draw):
    """start, stop, spacing, two unknowns.  spacing > 0 and start != stop as numbers (by construction)."""
    kind = draw(st.integers(0, 3))
    if kind == 0:  # as in the wild: depths in feet, quarter / half foot spacing
        a = draw(st.integers(0, 80000)) / 4.0
        d = draw(st.integers(1, 8000)) / 4.0
        sp = draw(st.sampled_from([0.25, 0.5, 0.125, 1.0, 0.1, 0.1524, 2.0]))
        start, stop = (a, a + d) if draw(st.booleans()) else (a + d, a)
        words = [ibm.float_to_ibm_word(start), ibm.float_to_ibm_word(stop), ibm.float_to_ibm_word(sp)]
    elif kind == 1:
        words = [draw(REALISTIC), draw(REALISTIC), draw(REALISTIC) & 0x7FFFFFFF]
    else:
        words = [draw(ANY_WORD), draw(ANY_WORD), draw(ANY_WORD) & 0x7FFFFFFF]
    if draw(st.integers(0, 11)) == 0:
        words[2] = draw(st.sampled_from([0x00000000, 0x41000000]))   # spacing 0.0 (a stationary or time based recording): X stays at the start
    elif words[2] & 0xFFFFFF == 0:  # otherwise the spacing is not zero
        words[2] |= draw(st.integers(1, 0xFFFFFF))
    if ibm.ibm_fraction(words[0]) == ibm.ibm_fraction(words[1]):  # start == stop: direction undefined
        words[1] = (words[0] ^ 0x80000000) if words[0] & 0xFFFFFF else 0x41100000
    words.append(draw(st.one_of(st.just(0), ANY_WORD)))
    words.append(draw(st.one_of(st.just(0x42100000), ANY_WORD)))
    return words


@st.composite
def bit_passes(draw, max_channels=MAX_CHANNELS, max_frames=200, min_frames=1, min_channels=1):
    n = draw(st.one_of(st.integers(min_channels, min(max_channels, 4)), st.integers(min_channels, max_channels),
                       st.just(max_channels)))
    fkind = draw(st.integers(0, 10))
    blocks = None
    if fkind <= 5:
        frames = draw(st.integers(min_frames, max(min_frames, min(40, max_frames))))
    elif fkind <= 8:
        frames = draw(st.integers(min_frames, max(min_frames, max_frames)))
    elif fkind == 9 and max_frames * n >= 1024:
        # one data set of >= 4096 bytes (real files use 640 byte sets; nothing in the format limits the size)
        big = draw(st.integers(-(-1024 // n), min(max_frames, max(-(-1024 // n), 2048 // n))))
        rest = draw(st.integers(0, 5))
        frames = big + rest
        blocks = [big] + ([rest] if rest else [])
        if draw(st.booleans()):
            blocks.reverse()
    else:
        frames = min_frames
    # keep the volume of a pass bounded (4000 words) so that cases stay cheap
    if blocks is None:
        frames = max(min_frames, min(frames, max(1, 4000 // n)))
        blocks = draw(block_patterns(frames))
    data = [draw(ibm_word_lists(frames)) for _ in range(n)]
    plain = draw(st.booleans())
    return {
        # four bytes of unknown meaning that the reader skips: anything, also what begins other formats' records (a LIS
        # physical record header of 0x114 bytes, a storage unit label, zeros)
        'head': EXAMPLE_HEAD if plain else draw(st.one_of(st.binary(min_size=4, max_size=4), st.sampled_from(
            [b'\x01\x14\x00\x00', b'\x01\x14\x00\x01', b'\x00\x00\x00\x00', b'\xff\xff\xff\xff', b'   1', b'~V\r\n']))),
        'description': draw(_printable(72)),
        'unknown_a': EXAMPLE_UNKNOWN_A if plain else draw(st.binary(min_size=5, max_size=5)),
        'unknown_b': (EXAMPLE_UNKNOWN_B if plain else draw(st.binary(min_size=19, max_size=19)) + draw(_printable(56))),
        'unknown_c': EXAMPLE_UNKNOWN_C if plain else draw(st.binary(min_size=8, max_size=8)),
        'null': 0 if draw(st.integers(0, 7)) else draw(st.integers(1, 0xFFFF)),
        'channels': draw(channel_name_lists(n)),
        'filler': b' ' * (4 * (MAX_CHANNELS - n)) if draw(st.integers(0, 3)) else draw(_printable(4 * (MAX_CHANNELS - n))),
        'range_words': draw(range_word_lists()),
        'tail': EXAMPLE_TAIL if draw(st.integers(0, 3)) else draw(st.binary(min_size=0, max_size=16)),
        'block_frames': blocks,
        'data': data,
    }


@st.composite
def bit_models(draw, max_passes=4, max_channels=MAX_CHANNELS, max_frames=200, min_frames=1, endings=('standard',)):
    """Well-formed BIT file models: 1..max_passes passes, 1..max_channels distinct channel names,
    min_frames..max_frames frames per pass in any block pattern, arbitrary IBM words, up and down logs."""
    k = draw(st.sampled_from([1, 1, 2, 2, 3, max_passes])) if max_passes > 1 else 1
    k = min(k, max_passes)
    passes = [draw(bit_passes(max_channels, max_frames if i == 0 else min(max_frames, 60), min_frames)) for i in range(k)]
    return {'passes': passes, 'ending': draw(st.sampled_from(list(endings)))}


# ---------------------------------------------------------------------------------------------
def self_check(example_path=None):
    """Encoder / decoder agree with each other and - when the bundled file is available - with the real layout:
    decode(example) re-encodes to the identical bytes."""
    p = make_pass(['AAAA', 'BBBB'], [[1, 2, 3, 4, 5], [6, 7, 8, 9, 10]], block_frames=[2, 2, 1])
    m = make_model([p, make_pass(['CCCC'], [[]], block_frames=[])])
    data = encode_bit_file(m)
    if decode_bit_file(data) != m:
        raise BitModelError('decode(encode(model)) != model')
    hdr = encode_header_block(p)
    if len(hdr) != 276 or encode_data_block(p, 0) != struct.pack('>4L', 1, 2, 6, 7) \
            or encode_data_block(p, 2) != struct.pack('>2L', 5, 10):
        raise BitModelError('block layout')
    if example_path:
        with open(example_path, 'rb') as f:
            raw = f.read()
        model = decode_bit_file(raw)
        if encode_bit_file(model) != raw:
            raise BitModelError('re-encoding the bundled example does not reproduce its bytes')
        if [len(x['channels']) for x in model['passes']] != [10, 10] or model['passes'][0]['channels'][0] != 'COND':
            raise BitModelError('bundled example decoded unexpectedly')
        return model
    return None
