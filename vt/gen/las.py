"""LAS 1.2 / 2.0: content model -> text in a chosen layout.  Independent of TotalDepth.

Written from "LAS Version 2.0: A Digital Standard for Logs" (CWLS, update 2017) and the LAS 1.2 description:

* a file is a sequence of sections, each introduced by a line whose first character is ``~`` followed by the
  section letter (V W C P O A); ``~V`` is first, ``~A`` is last, the others come in any order in between;
* header lines of ~V ~W ~C ~P:  ``MNEM.UNITS   VALUE : DESCRIPTION`` - the mnemonic ends at the *first* dot, the
  units follow the dot immediately and end at the first space, the description follows the *last* colon;
  spaces may precede the mnemonic, separate it from the dot, and pad value and description;
* ``~O`` holds free text; lines whose first non-blank character is ``#`` are comments; blank lines are ignored;
* ``~A``: one line of blank / tab separated numbers per depth step (WRAP NO), or (WRAP YES) the index alone on
  its line followed by the other values on as many continuation lines as needed, every step starting a new line.

Content model (JSON-able; everything is text *as written*, already stripped)::

    {'vers': '2.0', 'vers_desc': str, 'wrap_desc': str,
     'order': ['W', 'C', 'P', 'O'],                 # the sections between ~V and ~A, in file order ('P', 'O' optional)
     'W': [line, ...], 'C': [line, ...], 'P': [line, ...], 'O': [str, ...],
     'data': [[token, ...], ...]}                   # frames x curves, every token as written
    line = {'mnem': str, 'unit': str, 'value': str, 'kind': 'empty'|'int'|'float'|'bool'|'text', 'desc': str}

Layout (JSON-able): see ``layouts()``; every list is used cyclically, so any layout applies to any model.

Public API:  las_models(...), layouts(...), plain_layout(wrap=False), render_las(model, layout) -> str,
render_las_info(model, layout) -> (str, info), render_header_line(line, pads), header_lines(...) strategies,
model_null(model), BAD_TOKENS, RETYPEABLE_*.
"""
import typing

from hypothesis import strategies as st

from vt.ref import lasfmt

# ---------------------------------------------------------------------------------------------
# Vocabulary
# ---------------------------------------------------------------------------------------------
#: Tokens that are not numbers under any reading (not accepted by Python's float() either), free of '#' and '~'
#: so that they can start a continuation line.
BAD_TOKENS = ('abc', '-', '--', 'N/A', 'NULL', '1.2.3', '1,5', '12:30:15', '1e', 'e5', '+-1', '1.5.', '0x1F',
              '*****', '1..2', '5E+', 'null', '-.', '1/2', '(1.5)', '15-Dec-06')

#: Strings that the int / float / yes-no typing rule would change (finding F09 when applied to a non-value field).
RETYPEABLE_MNEM = ('NO', 'YES', 'No', 'yes', 'INF', 'NAN', 'nan', 'Inf', 'INFINITY', '123', '1E5', '42', '1', '0',
                   '900', '1e3', '-1', '+7', '007')
#: Curve mnemonics: no sign characters (keeps the ~A title line unambiguous for other tools).
RETYPEABLE_CURVE_MNEM = ('NO', 'YES', 'INF', 'NAN', 'Inf', 'nan', 'INFINITY', '123', '1E5', '900', '12345')
RETYPEABLE_UNIT = ('NO', 'YES', 'no', 'INF', 'NAN', '1', '100', '1.5', '.5', '1E3', '5.', '0', '-1', '1e-3', 'inf')
RETYPEABLE_DESC = ('2', 'NO', 'YES', 'no', '1.5', '42', 'nan', 'INF', '-999.25', '1e6', '0', 'Yes', '  7  ')

UNITS_COMMON = ('M', 'FT', 'F', 'GAPI', 'V/V', 'OHMM', 'OHM.M', 'US/F', 'K/M3', 'G/C3', '%', '.1IN', 'DEGC', 'LB/F',
                'm', 'ft', 'API', 'MM/DD/YY', 'S', 'MV', 'PU', 'IN', 'B/E', 'mts', 'FEET', 'CP', 'M/HR', '0.1M')
WORDS = ('ANY', 'OIL', 'COMPANY', 'INC.', 'LTD', 'WELL', 'No.', 'ET', 'AL', '12-8-5-1', 'W5M', 'WILDCAT', 'AREA',
         'ALBERTA', 'CANADA', 'The', 'Logging', 'Ltd.', 'Run', 'depth', 'Gamma', 'Ray', '(corrected)', '{F}',
         'Bulk', 'Density', 'A/B', '#1', '100%', '~V', 'x=1', 'a,b', "Driller's", '"quoted"', '<tag>', '&amp;',
         '1.2', '3', 'Version', '2.0', 'log', 'ASCII', 'Standard', '-', 'CWLS', 'One', 'line', 'per', 'step', 'YES',
         'NO', 'e', '..', 'v1.0.3', 'MNEM.UNIT', '[mV]', '@', '$5', 'N/A')
#: Pieces of value text with colons, dots, inner spaces, times and dates.
VALUE_PIECES = ('12:30:15', '23:59', '13/12/1986', '2012-11-14 10:50', '15-Dec-06', 'a: b', 'N 45:30:15.5',
                'x.y.z', 'A:B:C', '45 310 01 00', '00 000 00 00', ':x', 'end:', '10:50:00.125 UTC', 'Lat: 51.5',
                '2012-11-14 10:50:23.123456 UTC', '1:200', 'C:\\LOGS\\W1.LAS', 'http://x.y/z', '12.5.3', '::',
                '08:00 - 17:30', 'time 1:2:3 end')
COMMENTS = ('# comment', '#MNEM.UNIT       VALUE/NAME            DESCRIPTION', '#---------    -------   ----------',
            '#', '#~A  fake section title in a comment', '# 1.0   2.0   3.0', '#STRT.M  10.0 : not a line', '##',
            '# a : b . c', '#\t tab')
TITLES = {
    'V': ('~V', '~Version Information', '~VERSION INFORMATION SECTION', '~Version Information Section', '~Vers'),
    'W': ('~W', '~Well Information Block', '~WELL INFORMATION', '~Well Information Section', '~Well'),
    'C': ('~C', '~Curve Information Block', '~CURVE INFORMATION', '~Curve Information Section', '~Curve'),
    'P': ('~P', '~Parameter Information Block', '~PARAMETER INFORMATION', '~Parameter Information Section', '~Par'),
    'O': ('~O', '~Other Information', '~OTHER', '~Other Information Section', '~Oth'),
    'A': ('~A', '~ASCII Log Data', '~A {names}', '~Ascii', '~A  Log data section', '~ASCII LOG DATA SECTION'),
}
SEPS = (' ', '  ', '\t', '   ', ' \t', '\t ', '\t\t', '        ', ' \t ')
LEADS = ('', ' ', '   ', '\t', '', '  ', '\t ', '')
TRAILS = ('', ' ', '', '\t', '   ', '')
WS_LINES = (' ', '   ', '\t', ' \t ', '        ')

_MNEM_FIRST = 'ABCDEFGHIJKLMNOPQRSTUVWXYZabcdefghijklmnopqrstuvwxyz'
_MNEM_REST = _MNEM_FIRST + '0123456789_' + '0123456789_-'
_MNEM_ODD = '[]()-/%&'
_UNIT_CHARS = 'ABCDEFGHIJKLMNOPQRSTUVWXYZabcdefghijklmnopqrstuvwxyz0123456789/%.'
#: printable ASCII without the colon
_DESC_CHARS = ''.join(chr(c) for c in range(0x20, 0x7f) if chr(c) != ':')
_TEXT_CHARS = ''.join(chr(c) for c in range(0x20, 0x7f))

WELL_COMMON = (('COMP', ''), ('WELL', ''), ('FLD', ''), ('LOC', ''), ('PROV', ''), ('CNTY', ''), ('STAT', ''),
               ('CTRY', ''), ('SRVC', ''), ('DATE', ''), ('UWI', ''), ('API', ''), ('LIC', ''), ('EKB', 'M'),
               ('EGL', 'FT'), ('LATI', 'DEG'), ('LONG', 'DEG'), ('TIME', ''))
PARAM_COMMON = (('MUD', ''), ('BHT', 'DEGC'), ('BS', 'MM'), ('FD', 'K/M3'), ('MATR', ''), ('MDEN', ''), ('RMF', 'OHMM'),
                ('DFD', 'K/M3'), ('RUN', ''), ('TLAB', ''), ('EKB', 'M'), ('CSGL', 'M'), ('TDL', 'FT'), ('GDAT', ''))
CURVE_COMMON = (('GR', 'GAPI'), ('DT', 'US/M'), ('RHOB', 'K/M3'), ('NPHI', 'V/V'), ('SFLU', 'OHMM'), ('SFLA', 'OHMM'),
                ('ILM', 'OHMM'), ('ILD', 'OHMM'), ('CALI', 'IN'), ('SP', 'MV'), ('DPHI', 'V/V'), ('TENS', 'lbs'),
                ('ETIM', 'min'), ('PEF', 'B/E'), ('DRHO', 'G/C3'), ('ROP', 'M/HR'), ('TGAS', '%'), ('C1', 'ppm'))
INDEX_COMMON = (('DEPT', 'M'), ('DEPT', 'F'), ('DEPTH', 'FT'), ('DEPT', 'FT'), ('TIME', 'S'), ('ETIM', 'S'), ('MD', 'm'),
                ('INDEX', ''), ('Depth', 'mts'))


# ---------------------------------------------------------------------------------------------
# Small text strategies (by construction, no filtering)
# ---------------------------------------------------------------------------------------------
def _safe(text: str, suffix: str) -> str:
    """Text that the typing rule leaves alone (appends the suffix when it would not)."""
    return text + suffix if lasfmt.retypeable(text) else text


@st.composite
def safe_mnemonics(draw):
    """A mnemonic (no space, dot, colon; does not start with '#' or '~') that the typing rule leaves alone."""
    k = draw(st.integers(0, 9))
    if k <= 6:
        s = draw(st.sampled_from(_MNEM_FIRST)) + draw(st.text(alphabet=_MNEM_REST, max_size=7))
    elif k == 7:  # long
        s = draw(st.sampled_from(_MNEM_FIRST)) + draw(st.text(alphabet=_MNEM_REST, min_size=8, max_size=20))
    elif k == 8:  # odd but legal characters
        s = (draw(st.sampled_from(_MNEM_FIRST)) + draw(st.text(alphabet=_MNEM_REST, max_size=4))
             + draw(st.sampled_from(_MNEM_ODD)) + draw(st.text(alphabet=_MNEM_REST + _MNEM_ODD, max_size=3)))
    else:  # digit first (legal, rare in practice)
        s = draw(st.sampled_from('0123456789')) + draw(st.text(alphabet=_MNEM_REST, max_size=3)) \
            + draw(st.sampled_from(_MNEM_FIRST))
    return _safe(s, '_')


@st.composite
def safe_units(draw):
    """'' or a units string without spaces or colons that the typing rule leaves alone."""
    k = draw(st.integers(0, 9))
    if k <= 2:
        return ''
    if k <= 6:
        return draw(st.sampled_from(UNITS_COMMON))
    s = draw(st.text(alphabet=_UNIT_CHARS, min_size=1, max_size=6))
    return _safe(s, 'U')


def _join_words(draw, pool, chars, lo, hi):
    n = draw(st.integers(lo, hi))
    out = []
    for _ in range(n):
        if draw(st.integers(0, 4)) == 0:
            out.append(draw(st.text(alphabet=chars, min_size=1, max_size=8)))
        else:
            out.append(draw(st.sampled_from(pool)))
        out.append(draw(st.sampled_from((' ', ' ', ' ', '  ', '   ', ', ', ' - ', '.'))))
    return ''.join(out[:-1]).strip(lasfmt.ASCII_WS) if out else ''


@st.composite
def safe_descriptions(draw, chars=_DESC_CHARS):
    """Description free of colons, stripped, possibly empty, that the typing rule leaves alone."""
    if draw(st.integers(0, 7)) == 0:
        return ''
    s = _join_words(draw, WORDS, chars, 1, 5).replace(':', ';')
    return _safe(s, ' desc') if s else ''


@st.composite
def int_texts(draw):
    sign = draw(st.sampled_from(('', '', '', '-', '-', '+')))
    zeros = '0' * draw(st.sampled_from((0, 0, 0, 0, 1, 2)))
    n = draw(st.one_of(st.integers(0, 9999), st.integers(0, 10 ** 18)))
    return sign + zeros + str(n)


@st.composite
def float_texts(draw, max_exp=30):
    """A decimal numeral with a point and / or an exponent (never an integer numeral)."""
    sign = draw(st.sampled_from(('', '', '', '-', '-', '+')))
    k = draw(st.integers(0, 9))
    ip = str(draw(st.one_of(st.integers(0, 9999), st.integers(0, 10 ** 9))))
    nd = draw(st.integers(1, 6))
    fp = str(draw(st.integers(0, 10 ** nd - 1))).rjust(nd, '0')
    if k <= 4:
        body = ip + '.' + fp
    elif k == 5:
        body = '.' + fp
    elif k == 6:
        body = ip + '.'
    elif k == 7:  # many digits
        body = ip + '.' + fp + str(draw(st.integers(0, 10 ** 18))).rjust(18, '0')
    else:
        mant = draw(st.sampled_from((ip, ip + '.' + fp, ip[:1] + '.' + fp, '.' + fp, ip + '.')))
        e = draw(st.sampled_from('eE')) + draw(st.sampled_from(('', '+', '-'))) + \
            ('0' * draw(st.integers(0, 1))) + str(draw(st.integers(0, max_exp)))
        body = mant + e
    return sign + body


@st.composite
def text_values(draw, chars=_TEXT_CHARS):
    """Text value (never empty, never something the typing rule would read as number / yes / no); may contain
    colons, dots, inner spaces, times and dates."""
    k = draw(st.integers(0, 6))
    if k == 6:
        # near misses of what the typing rule reads as yes / no or as a number: plain text all of them
        s = draw(st.sampled_from(('Y', 'N', 'TRUE', 'FALSE', 'True', 'false', 'T', 'F', 'YE', 'NOO', 'YESS', 'ON', 'OFF', 'NONE', 'NULL',
                                  'N/A', 'y', 'n', 'E', 'W', 'S', '-', '+', '.', 'e5', '1e', '0x1F', '1,5', '12:30', '1-2', 'NaNa', 'in f')))
    elif k <= 1:
        s = _join_words(draw, WORDS, chars, 1, 4)
    elif k <= 3:
        s = draw(st.sampled_from(VALUE_PIECES))
    else:
        a = _join_words(draw, WORDS, chars, 0, 2)
        b = draw(st.sampled_from(VALUE_PIECES))
        c = _join_words(draw, WORDS, chars, 0, 2)
        s = (a + draw(st.sampled_from((' ', ': ', '  ', ':'))) + b + draw(st.sampled_from((' ', '', ' : '))) + c)
        s = s.strip(lasfmt.ASCII_WS)
    if not s:
        s = 'TEXT'
    return _safe(s, ' (text)')


@st.composite
def values(draw, weights=(2, 3, 3, 2, 6)):
    """(text, kind) for kind in empty / int / float / bool / text."""
    kinds = ('empty',) * weights[0] + ('int',) * weights[1] + ('float',) * weights[2] + ('bool',) * weights[3] \
        + ('text',) * weights[4]
    kind = draw(st.sampled_from(kinds))
    if kind == 'empty':
        return '', kind
    if kind == 'int':
        return draw(int_texts()), kind
    if kind == 'float':
        return draw(float_texts()), kind
    if kind == 'bool':
        return draw(st.sampled_from(('YES', 'NO', 'YES', 'NO', 'Yes', 'No', 'yes', 'no', 'yEs', 'nO'))), kind
    return draw(text_values()), kind


def _line(mnem, unit, value, kind, desc):
    return {'mnem': mnem, 'unit': unit, 'value': value, 'kind': kind, 'desc': desc}


def _unique(name: str, used: set) -> str:
    base, k = name, 1
    while name in used:
        k += 1
        name = '%s_%d' % (base, k)
    used.add(name)
    return name


@st.composite
def header_lines(draw, used: set, retype_pct=0, common=(), curve=False, allow_date_time_curves=False):
    """One header line with a mnemonic not in ``used`` (which is updated)."""
    k = draw(st.integers(0, 3))
    if common and k <= 1:
        mnem, unit = draw(st.sampled_from(common))
        if draw(st.integers(0, 3)) == 0:
            unit = draw(safe_units())
    else:
        mnem, unit = draw(safe_mnemonics()), draw(safe_units())
    desc = draw(safe_descriptions())
    if retype_pct and draw(st.integers(0, 99)) < retype_pct:
        which = draw(st.sampled_from(('mnem', 'unit', 'desc', 'desc', 'unit', 'all')))
        if which in ('mnem', 'all'):
            mnem = draw(st.sampled_from(RETYPEABLE_CURVE_MNEM if curve else RETYPEABLE_MNEM))
        if which in ('unit', 'all'):
            unit = draw(st.sampled_from(RETYPEABLE_UNIT))
        if which in ('desc', 'all'):
            desc = draw(st.sampled_from(RETYPEABLE_DESC)).strip()
    if curve:
        value, kind = draw(st.one_of(
            st.just(('', 'empty')), st.just(('', 'empty')),
            st.sampled_from((('45 310 01 00', 'text'), ('00 000 00 00', 'text'), ('7 350 02 00', 'text'),
                             ('0', 'int'), ('42', 'int'))), values()))
        if not allow_date_time_curves and (mnem, unit) in (('DATE', 'D'), ('TIME', 'HHMMSS')):
            unit = unit + 'X'
    else:
        value, kind = draw(values())
    if mnem in used and lasfmt.retypeable(mnem):
        mnem = draw(safe_mnemonics())
    mnem = _unique(mnem, used)
    return _line(mnem, unit, value, kind, desc)


# ---------------------------------------------------------------------------------------------
# Data section
# ---------------------------------------------------------------------------------------------
def _fixed(n: int, decimals: int, plus=False) -> str:
    """Text of the integer n scaled by 10^-decimals, e.g. _fixed(-12345, 2) == '-123.45'."""
    sign = '-' if n < 0 else ('+' if plus else '')
    digits = str(abs(n)).rjust(decimals + 1, '0')
    if decimals == 0:
        return sign + digits
    return sign + digits[:-decimals] + '.' + digits[-decimals:]


@st.composite
def index_columns(draw, frames: int):
    """Index tokens, strictly monotonic, pairwise distinct as numbers.  Returns (tokens, step_text)."""
    decimals = draw(st.sampled_from((0, 0, 1, 1, 2, 3, 4, 4)))
    regular = draw(st.integers(0, 4)) != 0
    start = draw(st.one_of(st.integers(-2000, 20000), st.integers(-10 ** 7, 10 ** 7)))
    direction = draw(st.sampled_from((1, 1, -1)))
    if regular:
        step = draw(st.integers(1, 5000)) * direction
        if draw(st.integers(0, 24)) == 0:  # an index that passes through the customary null value -999.25
            decimals = draw(st.sampled_from((2, 2, 3, 4)))
            start = -99925 * 10 ** (decimals - 2) - draw(st.integers(0, frames - 1)) * step
        ns = [start + i * step for i in range(frames)]
        step_text = _fixed(step, decimals)
    else:
        ns, cur = [], start
        for _ in range(frames):
            ns.append(cur)
            cur += draw(st.integers(1, 3000)) * direction
        step_text = draw(st.sampled_from(('0', '0.0', '0.0000')))
    extra_zeros = draw(st.sampled_from((0, 0, 0, 1, 2))) if decimals else 0
    toks = [_fixed(n, decimals) + '0' * extra_zeros for n in ns]
    if decimals == 0 and draw(st.integers(0, 3)) == 0:
        toks = [t + '.0' for t in toks]
    return toks, step_text


SPECIAL_TOKENS = ('0', '0.0', '-0.0', '+0', '0.000000', '1', '-1', '1.0E+00', '1e-30', '1E30', '+1.5', '007.50',
                  '1.e3', '1E+05', '-2.5e-03', '00', '9007199254740993', '0.1', '0.30000000000000004', '1e22', '1e23',
                  '4.35', '2.675', '1.7976931348623157e308', '2.2250738585072014e-308', '5e-324', '123456789012345678')


def spread(r: int) -> typing.Tuple[int, int]:
    """Bijective mixing of one drawn 64-bit integer into (cls in 0..1999, payload): Hypothesis prefers small
    integers, the mixing spreads them over all token classes; 0 maps to a plain fixed-point token."""
    h = (r * 0x9E3779B97F4A7C15 + 0x0123456789ABCDEF) % 2 ** 64
    h ^= h >> 29
    return h % 2000, (h // 2000) % 10 ** 16


def data_token(cls: int, payload: int, null_text: str, bad_pct: int) -> str:
    """One token of a non-index column as a pure function of two drawn integers (cls in 0..1999, payload >= 0)."""
    if cls % 100 < bad_pct:
        return BAD_TOKENS[payload % len(BAD_TOKENS)]
    k = cls // 100
    if k <= 8:
        return _fixed(payload % (2 * 10 ** 7 + 1) - 10 ** 7, 1 + (payload // 10 ** 8) % 5)
    if k <= 10:
        return str(payload % (2 * 10 ** 6 + 1) - 10 ** 6)
    if k <= 12:  # exponent forms
        mant = _fixed(payload % 10 ** 6 - 5 * 10 ** 5, (payload // 10 ** 6) % 4, plus=(payload // 10 ** 7) % 5 == 0)
        e = (payload // 10 ** 8) % 61 - 30
        es = ('-' if e < 0 else ('+', '', '+0')[(payload // 10 ** 10) % 3]) + str(abs(e))
        return mant + 'eE'[(payload // 10 ** 11) % 2] + es
    if k <= 14:
        return (null_text, null_text, '-999.25', '-999.2500', '-999.250')[payload % 5]
    if k == 15:  # below the customary null value
        return _fixed(-99926 - payload % 10 ** 9, 2)
    if k == 16:  # around the customary null value
        return _fixed(-99925 + payload % 5 - 2, 2) + '0' * ((payload // 5) % 3)
    if k == 17:
        v = (payload // 100) % 4
        if v == 0:
            return SPECIAL_TOKENS[payload % len(SPECIAL_TOKENS)]
        digits = str(payload % 10 ** 5)
        return (None, '.' + digits, digits + '.', '-.' + digits)[v]
    return _fixed(payload - 5 * 10 ** 15, cls % 13, plus=payload % 7 == 0)


NULL_DEFAULT_TEXTS = ('-999.25', '-999.2500', '-999.25', '-999.250')
NULL_OTHER_TEXTS = ('-9999', '-999', '-9999.25', '0', '-99999.0', '1e30', '-32768')


@st.composite
def las_models(draw, max_curves=8, max_frames=30, max_lines=8, retype_pct=0, bad_pct=4, other_null_pct=0,
               min_curves=1, min_frames=1):
    """Content model of a well-formed LAS 1.2 / 2.0 file.

    retype_pct      per header line: chance (in %) that mnemonic / units / description is a string that the
                    int / float / yes-no typing rule would change (0: such strings never occur)
    bad_pct         per data token of a non-index column: chance of an unparseable token
    other_null_pct  chance that the ~W NULL line declares something else than -999.25 (or is absent)
    """
    vers = draw(st.sampled_from(('2.0', '2.0', '1.2', '1.2', '2.00', '1.20')))
    if min_curves >= 2 or draw(st.integers(0, 11)) != 0:
        lo = min(max(2, min_curves), max_curves)
        ncurves = draw(st.one_of(st.integers(lo, max_curves), st.integers(lo, max(lo, min(max_curves, 4)))))
    else:
        ncurves = 1  # the index alone
    nframes = draw(st.one_of(st.integers(min_frames, max_frames), st.integers(min_frames, min(max_frames, 5))))
    # index + null
    index, step_text = draw(index_columns(nframes))
    null_line = True
    null_text = draw(st.sampled_from(NULL_DEFAULT_TEXTS))
    if other_null_pct and draw(st.integers(0, 99)) < other_null_pct:
        if draw(st.integers(0, 3)) == 0:
            null_line = False
        else:
            null_text = draw(st.sampled_from(NULL_OTHER_TEXTS))
    # curves
    used = set()
    curves = []
    ix_mnem, ix_unit = draw(st.sampled_from(INDEX_COMMON))
    first = draw(header_lines(used, retype_pct, common=((ix_mnem, ix_unit),), curve=True))
    curves.append(first)
    for _ in range(ncurves - 1):
        curves.append(draw(header_lines(used, retype_pct, common=CURVE_COMMON, curve=True)))
    # well
    used = set()
    xu = first['unit'] if not lasfmt.retypeable(first['unit']) else 'M'
    well = []
    for m, v, d in (('STRT', index[0], 'START DEPTH'), ('STOP', index[-1], 'STOP DEPTH'), ('STEP', step_text, 'STEP')):
        kind = lasfmt.classify_value(v)[0]
        well.append(_line(_unique(m, used), xu, v, kind, d))
    if null_line:
        well.append(_line(_unique('NULL', used), '', null_text, lasfmt.classify_value(null_text)[0], 'NULL VALUE'))
    else:
        used.add('NULL')
    for _ in range(draw(st.integers(0, max_lines))):
        well.append(draw(header_lines(used, retype_pct, common=WELL_COMMON)))
    if draw(st.integers(0, 5)) == 0:  # required lines not necessarily first
        k = draw(st.integers(0, len(well) - 1))
        well = well[k:] + well[:k]
    # parameters / other
    order = ['W', 'C']
    model = {'vers': vers,
             'vers_desc': draw(st.sampled_from(('CWLS LOG ASCII STANDARD - VERSION ' + vers, 'CWLS log ASCII Standard',
                                                '', 'LAS, version ' + vers))),
             'wrap_desc': draw(st.sampled_from(('ONE LINE PER DEPTH STEP', 'Multiple lines per depth step', '',
                                                'One line per depth step'))),
             'W': well, 'C': curves}
    if draw(st.integers(0, 3)) != 0:
        used = set()
        model['P'] = [draw(header_lines(used, retype_pct, common=PARAM_COMMON))
                      for _ in range(draw(st.integers(0, max_lines)))]
        order.append('P')
    if draw(st.integers(0, 2)) == 0:
        n = draw(st.integers(0, 4))
        lines = []
        for _ in range(n):
            t = _join_words(draw, WORDS + VALUE_PIECES, _TEXT_CHARS, 1, 6)
            if not t or t[0] in '~#':
                t = 'Note ' + t
            lines.append(t)
        model['O'] = lines
        order.append('O')
    model['order'] = list(draw(st.permutations(order)))
    # data
    null_tok = null_text if lasfmt.is_number(null_text) else '-999.25'
    ncells = nframes * (ncurves - 1)
    raw = draw(st.lists(st.integers(0, 2 ** 64 - 1), min_size=ncells, max_size=ncells))
    data = []
    for f in range(nframes):
        row = [index[f]]
        for c in range(ncurves - 1):
            cls, payload = spread(raw[f * (ncurves - 1) + c])
            row.append(data_token(cls, payload, null_tok, bad_pct))
        data.append(row)
    model['data'] = data
    return model


def model_null(model) -> typing.Tuple[float, bool]:
    """(null value declared by the ~W NULL line or the customary -999.25 when there is none, declared?)"""
    for line in model['W']:
        if line['mnem'] == 'NULL':
            p = lasfmt.parse_number(line['value'])
            if p is not None:
                return p.as_float(), True
    return -999.25, False


# ---------------------------------------------------------------------------------------------
# Layout
# ---------------------------------------------------------------------------------------------
#: insert codes: 0 nothing, 1 empty line, 2 white-space-only line, 3 comment in column 0, 4 indented comment,
#: 5 comment followed by an empty line
INSERT_NONE, INSERT_EMPTY, INSERT_WS, INSERT_COMMENT, INSERT_COMMENT_INDENTED, INSERT_COMMENT_EMPTY = range(6)


@st.composite
def layouts(draw, wrap=None, decorations=True):
    """A layout: how one content model is laid out as text.  ``wrap`` None: drawn."""
    ints = lambda lo, hi, a, b: draw(st.lists(st.integers(lo, hi), min_size=a, max_size=b))  # noqa
    if decorations:
        density = draw(st.sampled_from((0, 1, 1, 2, 4)))
        n = draw(st.integers(5, 19))
        inserts = [draw(st.integers(1, 5)) if draw(st.integers(0, 9)) < density else 0 for _ in range(n)]
    else:
        inserts = [0]
    pads = ints(0, 14, 6, 24) if draw(st.integers(0, 3)) else ints(0, 2, 6, 12)
    if draw(st.integers(0, 9)) == 0:
        # "any amount of space padding": some header lines longer than the usual I/O buffer sizes (8 KiB)
        pads[draw(st.integers(0, len(pads) - 1))] = draw(st.sampled_from((8185, 8192, 8200, 9000, 17000)))
    return {
        'wrap': draw(st.booleans()) if wrap is None else bool(wrap),
        'titles': ints(0, 5, 1, 6),
        'pads': pads,
        'inserts': inserts,
        'ws': ints(0, 9, 1, 5),
        'seps': ints(0, len(SEPS) - 1, 1, 8) if draw(st.integers(0, 2)) else [0],
        'leads': ints(0, len(LEADS) - 1, 1, 5),
        'trails': ints(0, len(TRAILS) - 1, 1, 5),
        'aligned': draw(st.sampled_from((0, 0, 8, 12, 16))),   # > 0: right aligned columns of that width
        'chunks': ints(1, 7, 1, 6),                            # values per continuation line in wrapped form
        'final_newline': draw(st.integers(0, 4)) != 0,
        'preamble': draw(st.sampled_from((0, 0, 0, 0, 0, 0, 0, 0, 0, 63, 64, 70, 200, 1100))),
    }


def plain_layout(wrap=False):
    """Conventional layout: one space padding, no comments, no blank lines."""
    return {'wrap': bool(wrap), 'titles': [1], 'pads': [1, 0, 2, 1, 1, 0], 'inserts': [0], 'ws': [0], 'seps': [0],
            'leads': [0], 'trails': [0], 'aligned': 0, 'chunks': [5], 'final_newline': True}


class _Cyc:
    def __init__(self, seq):
        self.seq = list(seq) or [0]
        self.i = 0

    def next(self):
        v = self.seq[self.i % len(self.seq)]
        self.i += 1
        return v


def render_header_line(line, pads=(1, 0, 2, 1, 1, 0)) -> str:
    """``MNEM.UNITS VALUE : DESCRIPTION`` with pads = (lead, before dot, after units, before colon, after colon,
    trailing) spaces; at least one space separates units from a non-empty value."""
    lead, p1, p2, p3, p4, trail = pads
    if line['value'] != '':
        p2 = max(1, p2)
    return (' ' * lead + line['mnem'] + ' ' * p1 + '.' + line['unit'] + ' ' * p2 + line['value'] + ' ' * p3 + ':'
            + ' ' * p4 + line['desc'] + ' ' * trail)


def render_las_info(model, layout):
    """Returns (text, info); info counts the layout features actually present in the text."""
    pads, inserts, ws = _Cyc(layout['pads']), _Cyc(layout['inserts']), _Cyc(layout['ws'])
    titles, seps = _Cyc(layout['titles']), _Cyc(layout['seps'])
    leads, trails, chunks = _Cyc(layout['leads']), _Cyc(layout['trails']), _Cyc(layout['chunks'])
    wrap = bool(layout['wrap'])
    aligned = int(layout.get('aligned') or 0)
    info = {'comment_in_data': 0, 'blank_in_data': 0, 'comment_in_header': 0, 'blank_in_header': 0,
            'comment_inside_wrapped_frame': 0, 'indented_comment': 0, 'ws_only_line': 0, 'tabs_in_data': 0,
            'before_first_section': 0, 'data_lines': 0}
    out = []          # (zone, text) zone: 'H' header part, 'D' data part
    state = {'zone': 'H', 'in_frame': False, 'started': False}

    def decorate():
        code = inserts.next()
        if code == INSERT_NONE:
            return
        zone = state['zone']
        extra = []
        if code == INSERT_EMPTY:
            extra.append('')
        elif code == INSERT_WS:
            extra.append(WS_LINES[ws.next() % len(WS_LINES)])
            info['ws_only_line'] += 1
        elif code == INSERT_COMMENT:
            extra.append(COMMENTS[ws.next() % len(COMMENTS)])
        elif code == INSERT_COMMENT_INDENTED:
            extra.append(('  ', '\t', ' \t ')[ws.next() % 3] + COMMENTS[ws.next() % len(COMMENTS)])
            info['indented_comment'] += 1
        else:
            extra += [COMMENTS[ws.next() % len(COMMENTS)], '']
        is_comment = code in (INSERT_COMMENT, INSERT_COMMENT_INDENTED, INSERT_COMMENT_EMPTY)
        if not state['started']:
            info['before_first_section'] += 1
        if zone == 'D':
            info['comment_in_data' if is_comment else 'blank_in_data'] += 1
            if is_comment and state['in_frame']:
                info['comment_inside_wrapped_frame'] += 1
        else:
            info['comment_in_header' if is_comment else 'blank_in_header'] += 1
        out.extend(extra)

    def emit(text):
        decorate()
        out.append(text)
        state['started'] = True

    def title(sect):
        t = TITLES[sect][titles.next() % len(TITLES[sect])]
        if '{names}' in t:
            t = t.replace('{names}', '  '.join(line['mnem'] for line in model['C']))
        return t + ' ' * (pads.next() % 3)

    def header(line):
        return render_header_line(line, (pads.next() % 5, pads.next() % 4, pads.next(), pads.next(),
                                         pads.next() % 6, pads.next() % 4))

    def data_line(tokens):
        if aligned:
            body = ' '.join(t.rjust(aligned - 1) for t in tokens)
        else:
            parts = []
            for i, t in enumerate(tokens):
                if i:
                    parts.append(SEPS[seps.next() % len(SEPS)])
                parts.append(t)
            body = ''.join(parts)
        text = LEADS[leads.next() % len(LEADS)] + body + TRAILS[trails.next() % len(TRAILS)]
        if '\t' in text:
            info['tabs_in_data'] += 1
        info['data_lines'] += 1
        return text

    for i in range(int(layout.get('preamble') or 0)):
        # a long run of comment and blank lines before the first section (a licence text, a processing history)
        out.append(('# %s line %d of the preamble' % ('=' * (i % 7), i)) if i % 5 else '')
        info['before_first_section'] += 1
    emit(title('V'))
    emit(header({'mnem': 'VERS', 'unit': '', 'value': model['vers'], 'desc': model['vers_desc']}))
    emit(header({'mnem': 'WRAP', 'unit': '', 'value': 'YES' if wrap else 'NO', 'desc': model['wrap_desc']}))
    for sect in model['order']:
        emit(title(sect))
        if sect == 'O':
            for t in model['O']:
                emit(' ' * (pads.next() % 4) + t + ' ' * (pads.next() % 3))
        else:
            for line in model[sect]:
                emit(header(line))
    info['lines_before_a'] = len(out)   # header part: everything before the ~A title and its decorations
    emit(title('A'))
    state['zone'] = 'D'
    for row in model['data']:
        if not wrap:
            emit(data_line(row))
        else:
            emit(data_line(row[:1]))
            state['in_frame'] = True
            rest = row[1:]
            while rest:
                k = max(1, chunks.next())
                emit(data_line(rest[:k]))
                rest = rest[k:]
            state['in_frame'] = False
    decorate()  # trailing decoration at the end of the file
    text = '\n'.join(out)
    if layout.get('final_newline', True):
        text += '\n'
    info['header_text'] = '\n'.join(out[:info['lines_before_a']]) + '\n'
    return text, info


def render_las(model, layout) -> str:
    return render_las_info(model, layout)[0]


# ---------------------------------------------------------------------------------------------
# Self check of the vocabulary (a failure is a bug of the generator, not of the code under test)
# ---------------------------------------------------------------------------------------------
def self_check():
    for t in BAD_TOKENS:
        assert not lasfmt.python_floatable(t) and not lasfmt.is_number(t), t
        assert t[0] not in '#~' and not any(c in lasfmt.ASCII_WS for c in t), t
    for group in (RETYPEABLE_MNEM, RETYPEABLE_CURVE_MNEM, RETYPEABLE_UNIT, RETYPEABLE_DESC):
        for t in group:
            assert lasfmt.retypeable(t), t
    for t in RETYPEABLE_MNEM + RETYPEABLE_CURVE_MNEM:
        assert not any(c in t for c in ' .:'), t
    for t in RETYPEABLE_UNIT + UNITS_COMMON:
        assert not any(c in t for c in ' :\t'), t
    for t in UNITS_COMMON:
        assert not lasfmt.retypeable(t), t
    for t in COMMENTS:
        assert t.startswith('#')
    for group in TITLES.values():
        for t in group:
            assert t[0] == '~'


self_check()
