"""Fault operators on the bytes of a file, as Hypothesis strategies (C12; also usable by C20 style checks).

An operator is a JSON-able dict; ``apply(op, data)`` is a pure function.  Positions are stored as plain integers and reduced
modulo the length of the data when applied, so an operator stays applicable when the file it is applied to shrinks.

    {'op': 'truncate', 'at': k}                     keep data[:k mod (len + 1)]  (k may address the very end: nothing cut)
    {'op': 'truncate-tail', 'cut': k}               drop the last 1 + k mod len bytes
    {'op': 'flip', 'bits': [[pos, bit], ...]}       flip 1..8 single bits
    {'op': 'overwrite', 'at': pos, 'bytes': b}      overwrite a run of bytes (a header field) in place
    {'op': 'zero', 'at': pos, 'n': n}               zero a run of bytes
    {'op': 'insert', 'at': pos, 'bytes': b}         insert bytes (everything behind moves)
    {'op': 'delete', 'at': pos, 'n': n}             delete a run of bytes
    {'op': 'empty'}                                 zero length file
    {'op': 'splice', 'at': k, 'other': b}           other[:k'] + data[k:]: another format's beginning in front of the rest
    {'op': 'replace', 'bytes': b}                   arbitrary bytes instead of the file

Nothing here imports TotalDepth.
"""
from hypothesis import strategies as st

#: offsets of header fields worth overwriting, per format (file positions)
HEADER_OFFSETS = {
    # TIF marker words, BIT header block: head, description, channel count (12 + 164), null, names, range floats
    'BIT': [0, 4, 8, 12, 16, 88, 93, 168, 176, 177, 178, 180, 184, 260, 264, 268, 272, 276, 280, 288, 292, 296],
    # storage unit label fields (sequence, version, structure, max length, id), first visible record, first segment header
    'RP66V1': [0, 4, 9, 15, 20, 80, 81, 82, 83, 84, 85, 86, 87, 88, 89, 90],
    # physical record header (length, attributes), logical record header; the same behind a 12 byte TIF marker
    'LIS': [0, 1, 2, 3, 4, 5, 6, 8, 12, 13, 14, 15, 16, 17, 18, 20, 60, 62, 64],
}
FIELD_VALUES = [b'\x00', b'\xff', b'\x00\x00', b'\xff\xff', b'\x7f\xff', b'\x80\x00', b'\x00\x15', b'\x00\x01', b'\x00\x00\x00\x00', b'\xff\xff\xff\xff',
                b'    ', b'0000', b'9999', b'V1.0', b'\x01\x00\x00\x00', b'\x00\x00\x00\x01', b'\x00\x00\x01\x14']


def apply(op, data: bytes) -> bytes:
    data = bytes(data)
    n = len(data)
    kind = op['op']
    if kind == 'empty':
        return b''
    if kind == 'replace':
        return bytes(op['bytes'])
    if kind == 'truncate':
        return data[:op['at'] % (n + 1)]
    if n == 0:
        return data
    if kind == 'truncate-tail':
        return data[:n - 1 - (op['cut'] % n)]
    if kind == 'flip':
        b = bytearray(data)
        for pos, bit in op['bits']:
            b[pos % n] ^= 1 << (bit % 8)
        return bytes(b)
    if kind == 'overwrite':
        pos = op['at'] % n
        b = bytearray(data)
        new = bytes(op['bytes'])[:n - pos]
        b[pos:pos + len(new)] = new
        return bytes(b)
    if kind == 'zero':
        pos = op['at'] % n
        m = min(1 + op['n'], n - pos)
        return data[:pos] + bytes(m) + data[pos + m:]
    if kind == 'insert':
        pos = op['at'] % (n + 1)
        return data[:pos] + bytes(op['bytes']) + data[pos:]
    if kind == 'delete':
        pos = op['at'] % n
        return data[:pos] + data[pos + 1 + op['n']:]
    if kind == 'splice':
        k = op['at'] % (n + 1)
        other = bytes(op['other'])
        return other[:min(len(other), max(k, 1))] + data[k:]
    raise ValueError('unknown damage operator %r' % (kind,))


def changes(op, data: bytes) -> bool:
    return apply(op, data) != bytes(data)


@st.composite
def damage_ops(draw, fmt=None, max_len=1 << 16, foreign=()):
    """One damage operator.  fmt selects the header offsets worth aiming at; foreign: byte strings of other formats for 'splice'."""
    kind = draw(st.sampled_from(['truncate', 'truncate', 'truncate-tail', 'flip', 'flip', 'overwrite', 'overwrite', 'zero', 'insert',
                                 'delete', 'empty', 'splice', 'replace']))
    pos = st.one_of(st.integers(0, 127), st.integers(0, 400), st.integers(0, max_len))
    if kind == 'truncate':
        return {'op': kind, 'at': draw(st.one_of(pos, st.sampled_from([1, 4, 12, 79, 80, 84, 100, 288, 292])))}
    if kind == 'truncate-tail':
        return {'op': kind, 'cut': draw(st.one_of(st.integers(0, 40), st.integers(0, max_len)))}
    if kind == 'flip':
        return {'op': kind, 'bits': draw(st.lists(st.tuples(pos, st.integers(0, 7)).map(list), min_size=1, max_size=8))}
    if kind == 'overwrite':
        offs = HEADER_OFFSETS.get(fmt)
        at = draw(st.sampled_from(offs)) if offs and draw(st.integers(0, 3)) else draw(pos)
        return {'op': kind, 'at': at, 'bytes': draw(st.one_of(st.sampled_from(FIELD_VALUES), st.binary(min_size=1, max_size=8)))}
    if kind == 'zero':
        return {'op': kind, 'at': draw(pos), 'n': draw(st.integers(0, 64))}
    if kind == 'insert':
        return {'op': kind, 'at': draw(pos), 'bytes': draw(st.binary(min_size=1, max_size=16))}
    if kind == 'delete':
        return {'op': kind, 'at': draw(pos), 'n': draw(st.integers(0, 16))}
    if kind == 'splice' and foreign:
        return {'op': kind, 'at': draw(pos), 'other': draw(st.sampled_from(list(foreign)))}
    if kind == 'replace' or kind == 'splice':
        return {'op': 'replace', 'bytes': draw(st.binary(min_size=0, max_size=300))}
    return {'op': 'empty'}


@st.composite
def damaged(draw, data: bytes, fmt=None, foreign=()):
    """(operator, damaged bytes) with damaged != data by construction (falls back to cutting the last byte / emptying)."""
    op = draw(damage_ops(fmt, max(len(data), 1), foreign))
    out = apply(op, data)
    if out == bytes(data):
        op = {'op': 'truncate-tail', 'cut': 0} if data else {'op': 'replace', 'bytes': b'\x00'}
        out = apply(op, data)
    return op, out
