"""Independent model, renderer and corruption operators for DAT mud-log text files.

Written from the description in the docstring of ``TotalDepth/DAT/DAT_parser.py`` (the only specification the format
has) and the bundled ``example_data/DAT/data/example.dat``; shares no code with TotalDepth.

Format
------
Section 1, channel declarations, one per line: ``NAME description words UNITS`` - NAME an upper-case/digit word,
the description free text of one or more words, UNITS a single word; whitespace (spaces or tabs) separated; order
irrelevant; a declared channel need not have data.
Section 2, one header line ``UTIM DATE TIME CH1 CH2 ...`` naming declared channels; its order is the column order.
Section 3, data rows of as many whitespace separated values as the header has names: UTIM an integer Unix time,
DATE as ``09Dec06`` / ``9Dec06`` (style A) or ``09-Dec-06`` / ``9-Dec-06`` (style B) with a two digit year (51..99 ->
19xx, 00..50 -> 20xx), TIME as ``hh-mm-ss``, everything else a decimal number.  Rows may carry trailing spaces.

Model (JSON-able)
-----------------
    {'decls':  [{'name', 'desc': [word, ...], 'units', 'seps': [sep, ...], 'trail': str}],   file order; len(seps) == len(desc) + 1
     'header': [name, ...], 'header_seps': [sep, ...], 'header_trail': str,       header[:3] == UTIM DATE TIME
     'rows':   [{'utim': int, 'date': {'y', 'm', 'd', 'style': 'A'|'B', 'pad': bool}, 'time': [h, m, s],
                 'nums': [token, ...], 'seps': [sep, ...], 'trail': str}],
     'eol': '\\n' | '\\r\\n', 'final_eol': bool}

Public API: ``render_lines  render_dat  expected_channels  dat_models  dat_corruptions  dat_corrupted
describe_corruption  corruption_line  model_from_text  self_check  NON_NUMERIC_TEXT``.
"""
import datetime
import re

from hypothesis import strategies as st

MONTHS = ['Jan', 'Feb', 'Mar', 'Apr', 'May', 'Jun', 'Jul', 'Aug', 'Sep', 'Oct', 'Nov', 'Dec']
TIME_CHANNELS = [('UTIM', 'sec'), ('DATE', 'ddmmyy'), ('TIME', 'hhmmss')]
RESERVED = ('UTIM', 'DATE', 'TIME')
NAME_CHARS = 'ABCDEFGHIJKLMNOPQRSTUVWXYZ0123456789'


class DatModelError(Exception):
    """The model cannot be rendered (generator bug, never a verdict on the code under test)."""


# ---------------------------------------------------------------------------------------------
# Rendering
# ---------------------------------------------------------------------------------------------
def full_year(y2: int) -> int:
    """Two digit year -> year, the documented window: 51..99 -> 1951..1999, 00..50 -> 2000..2050."""
    return 1900 + y2 if y2 > 50 else 2000 + y2


def date_token(d) -> str:
    day = '%02d' % d['d'] if d['pad'] else '%d' % d['d']
    yy = '%02d' % (d['y'] % 100)
    if d['style'] == 'A':
        return day + MONTHS[d['m'] - 1] + yy
    return day + '-' + MONTHS[d['m'] - 1] + '-' + yy


def time_token(t) -> str:
    return '%02d-%02d-%02d' % (t[0], t[1], t[2])


def row_tokens(row):
    return [str(row['utim']), date_token(row['date']), time_token(row['time'])] + list(row['nums'])


def join_tokens(tokens, seps):
    if len(seps) < len(tokens) - 1:
        seps = list(seps) + [' '] * (len(tokens) - 1 - len(seps))
    out = []
    for i, t in enumerate(tokens):
        if i:
            out.append(seps[i - 1])
        out.append(t)
    return ''.join(out)


def check_model(model):
    names = [d['name'] for d in model['decls']]
    if len(set(names)) != len(names):
        raise DatModelError('duplicate declarations')
    if list(model['header'][:3]) != list(RESERVED) or len(model['header']) < 4:
        raise DatModelError('header must be UTIM DATE TIME + at least one channel')
    if len(set(model['header'])) != len(model['header']) or any(h not in names for h in model['header']):
        raise DatModelError('header names must be distinct declared channels')
    for d in model['decls']:
        if not re.fullmatch(r'[A-Z0-9]+', d['name']) or not d['desc'] or len(d['seps']) != len(d['desc']) + 1:
            raise DatModelError('declaration %r' % (d,))
        if any((not w) or re.search(r'\s', w) for w in d['desc'] + [d['units']]):
            raise DatModelError('declaration words must be non-empty and free of whitespace')
    for r in model['rows']:
        if len(r['nums']) != len(model['header']) - 3:
            raise DatModelError('row width')
        datetime.date(r['date']['y'], r['date']['m'], r['date']['d'])
        if full_year(r['date']['y'] % 100) != r['date']['y']:
            raise DatModelError('year %d outside the two digit window' % r['date']['y'])
        datetime.time(*r['time'])


def render_lines(model, corruption=None):
    """Returns (lines, index) where index = {'decls': [line numbers], 'header': n, 'rows': [line numbers]}.
    ``corruption`` (see dat_corruptions) is applied to the tokens of exactly one line."""
    check_model(model)
    lines = []
    index = {'decls': [], 'header': None, 'rows': []}
    for d in model['decls']:
        index['decls'].append(len(lines))
        lines.append(join_tokens([d['name']] + list(d['desc']) + [d['units']], d['seps']) + d.get('trail', ''))
    header = list(model['header'])
    hseps = list(model['header_seps'])
    c = corruption
    if c and c['kind'] == 'header-rename':
        header[c['col']] = c['name']
    elif c and c['kind'] == 'header-dup-replace':
        header[c['col']] = header[c['src']]
    elif c and c['kind'] == 'header-dup-insert':
        header.insert(c['pos'], model['header'][c['src']])
        hseps.insert(0, ' ')
    index['header'] = len(lines)
    lines.append(join_tokens(header, hseps) + model.get('header_trail', ''))
    for i, r in enumerate(model['rows']):
        toks = row_tokens(r)
        seps = list(r['seps'])
        if c and c.get('row') == i:
            k = c['kind']
            if k == 'row-drop-col':
                del toks[c['col']]
            elif k == 'row-add-col':
                toks.insert(c['pos'], c['token'])
                seps.insert(0, ' ')
            elif k in ('row-blank', 'row-is-header-again'):
                pass
            elif k in ('row-text', 'row-date', 'row-time', 'row-utim-overlong'):
                col = {'row-date': 1, 'row-time': 2, 'row-utim-overlong': 0}.get(k, c.get('col'))
                toks[col] = c['token']
            else:
                raise DatModelError('corruption %r' % (c,))
        index['rows'].append(len(lines))
        if c and c.get('row') == i and c['kind'] == 'row-blank':
            lines.append(c['token'])       # the whole data line wiped out
            continue
        if c and c.get('row') == i and c['kind'] == 'row-is-header-again':
            lines.append(join_tokens(list(model['header']), list(model['header_seps'])))     # the header line where a data line should be
            continue
        lines.append(join_tokens(toks, seps) + r['trail'])
    return lines, index


def render_dat(model, corruption=None) -> str:
    lines, _index = render_lines(model, corruption)
    return model['eol'].join(lines) + (model['eol'] if model['final_eol'] else '')


def corruption_line(model, corruption) -> int:
    """0-based line number the corruption changes."""
    _lines, index = render_lines(model, corruption)
    if corruption['kind'].startswith('header'):
        return index['header']
    return index['rows'][corruption['row']]


def describe_corruption(c) -> str:
    return c['kind'] + (':' + c['how'] if 'how' in c else '')


# ---------------------------------------------------------------------------------------------
# What a correct reader gives
# ---------------------------------------------------------------------------------------------
EPOCH = datetime.datetime(1970, 1, 1)


def expected_channels(model):
    """List of (name, description, units, kind, values) in header order; kind in 'utim' 'date' 'time' 'float'."""
    decl = {d['name']: d for d in model['decls']}
    out = []
    for col, name in enumerate(model['header']):
        d = decl[name]
        if col == 0:
            kind, vals = 'utim', [EPOCH + datetime.timedelta(seconds=r['utim']) for r in model['rows']]
        elif col == 1:
            kind, vals = 'date', [datetime.date(r['date']['y'], r['date']['m'], r['date']['d']) for r in model['rows']]
        elif col == 2:
            kind, vals = 'time', [datetime.time(*r['time']) for r in model['rows']]
        else:
            kind, vals = 'float', [float(r['nums'][col - 3]) for r in model['rows']]
        out.append((name, ' '.join(d['desc']), d['units'], kind, vals))
    return out


# ---------------------------------------------------------------------------------------------
# Strategies
# ---------------------------------------------------------------------------------------------
DESC_CHARS = 'abcdefghijklmnopqrstuvwxyzABCDEFGHIJKLMNOPQRSTUVWXYZ0123456789-/%().,#&+'
DESC_WORD = st.one_of(
    st.sampled_from(['Depth', 'Bit', 'Measured', 'Hole', 'Vertical', 'Pressure', 'Gradient', 'Total', 'Gas', 'n-Pentane',
                     'ROP', 'on', 'at', 'TD', 'ECD', 'Mud', 'Flow', 'In', 'Out', 'Temp', '%', '(avg)', 'No.1']),
    st.sampled_from(['Depth', 'Hookload', 'Torque', 'iso-Butane', 'Volume', 'Pits', 'Trip', 'Active', 'Pumped']),
    st.text(alphabet=DESC_CHARS, min_size=1, max_size=8))
UNITS = st.one_of(
    st.sampled_from(['m', 'm/sec', 'g/cc', 'unitless', 'inch', 'tons', 'kNm', 'rpm', 'hr', 'bar', 'm3', 'l/min', 'degC',
                     '%', 'ppm', 'm/hr', 'sec', 'ddmmyy', 'hhmmss']),
    st.text(alphabet=DESC_CHARS, min_size=1, max_size=6))
TRAIL = st.sampled_from(['', '', '', ' ', '  ', '\t'])
UTIM_FIRST = st.sampled_from(['Unix', 'UNIX', 'Epoch', 'Seconds', 'Time'])


@st.composite
def channel_names(draw, n):
    """n distinct names [A-Z0-9]{2,6}, none of UTIM DATE TIME."""
    pool = ['WAC', 'BDIA', 'DBTM', 'DBTV', 'DMEA', 'DVER', 'RSU', 'RSD', 'SWAB', 'SURG', 'ROP', 'BPOS', 'HKL', 'WOB',
            'TRQ', 'RPMA', 'RPMB', 'GAS', 'METH', 'ETH', 'C1', 'C2', 'H2S', 'T1', '10', '4X4']
    seen = set(RESERVED)
    out = []
    for i in range(n):
        if draw(st.booleans()):
            nm = draw(st.sampled_from(pool))
        else:
            nm = draw(st.text(alphabet=NAME_CHARS, min_size=2, max_size=6))
        while nm in seen:  # distinct by construction
            nm = (nm + NAME_CHARS[i % 36])[-6:] if len(nm) < 6 else NAME_CHARS[(NAME_CHARS.index(nm[0]) + 1) % 36] + nm[1:]
        seen.add(nm)
        out.append(nm)
    return out


FIXED_TOKENS = ['0', '-0', '0.0', '0.00', '-0.0', '1', '8.50', '.5', '5.', '+3.2', '007.50', '1e5', '1E-3', '-2.5e+10',
                '269999', '222036.00', '1e-30', '123456789012', '-.5', '+0', '1.e2', '3.02', '14.70']


def number_token_from_bytes(b: bytes) -> str:
    """A decimal number token (integer, fixed point, exponent, repr) as a pure function of 8 bytes."""
    kind, prec = b[0] % 8, b[1] % 9
    v = int.from_bytes(b[2:8], 'big')
    x = (v / float(1 << 48) * 2.0 - 1.0) * 1e6
    if kind == 0:
        return str(v % 1001001 - 1000)
    if kind == 1:
        return FIXED_TOKENS[v % len(FIXED_TOKENS)]
    if kind in (2, 3):
        return '%.*f' % (prec % 5, x)
    if kind == 4:
        return '%.*e' % (prec, x)
    if kind == 5:
        y = 10.0 ** (v / float(1 << 48) * 60.0 - 30.0)
        return ('%.*E' if b[1] & 0x40 else '%.*g') % (prec + 1, -y if b[1] & 0x80 else y)
    if kind == 6:
        return repr(x)
    return '%.2f' % (x / 1000.0)


def number_tokens():
    return st.binary(min_size=8, max_size=8).map(number_token_from_bytes)


SEPS = [' ', ' ', ' ', ' ', '\t', '  ', ' \t', '\t\t', '    ']


def sep_lists(n, single):
    if single or n == 0:
        return st.just([' '] * n)
    return st.binary(min_size=n, max_size=n).map(lambda b: [SEPS[x % len(SEPS)] for x in b])


def last_day(y, m):
    return (datetime.date(y + (m == 12), m % 12 + 1, 1) - datetime.timedelta(days=1)).day


SPECIAL_UTIMS = [0, 1, 59, 86399, 86400, 1165665017, 951782400, 946684799, 2 ** 31 - 1, -1, -86400, -500000000]    # also instants before 1970
UTIMS = st.one_of(st.integers(0, 2 ** 31 - 1), st.sampled_from(SPECIAL_UTIMS))
ROW_FIXED = 13
TRAILS = ['', '', '', ' ', '  ', '\t']


def row_from_bytes(b: bytes, ncol: int, single: bool, utim=None):
    """A data row as a pure function of ROW_FIXED + 9 * ncol + 3 bytes (one cheap, well shrinking draw per row).
    With ``utim`` given, DATE and TIME describe that instant; otherwise the three are independent."""
    flags = b[8]
    style, pad = ('A' if flags & 1 else 'B'), bool(flags & 2)
    if utim is not None:
        dt = EPOCH + datetime.timedelta(seconds=utim)     # 1970..2038: inside the two digit year window
        date = {'y': dt.year, 'm': dt.month, 'd': dt.day, 'style': style, 'pad': pad}
        tm = [dt.hour, dt.minute, dt.second]
    else:
        utim = SPECIAL_UTIMS[b[0] % len(SPECIAL_UTIMS)] if b[4] % 4 == 0 else int.from_bytes(b[0:4], 'big') & 0x7FFFFFFF
        y2 = [50, 51, 0, 99, 49, 52][b[5] % 6] if b[5] >= 196 else b[5] % 100
        y = full_year(y2)
        m = b[6] % 12 + 1
        last = last_day(y, m)
        d = [1, 9, 10, last][b[7] % 4] if b[7] >= 224 else b[7] % last + 1
        date = {'y': y, 'm': m, 'd': d, 'style': style, 'pad': pad}
        tm = [[0, 12, 13, 23][b[9] % 4] if b[9] >= 240 else b[9] % 24, b[10] % 60, b[11] % 60]
    o = ROW_FIXED
    nums = [number_token_from_bytes(b[o + 8 * k:o + 8 * k + 8]) for k in range(ncol)]
    o += 8 * ncol
    nsep = ncol + 2
    seps = [' '] * nsep if single else [SEPS[x % len(SEPS)] for x in b[o:o + nsep]]
    return {'utim': utim, 'date': date, 'time': tm, 'nums': nums, 'seps': seps, 'trail': TRAILS[b[12] % len(TRAILS)]}


@st.composite
def dat_models(draw, max_channels=9, max_rows=20, min_rows=0):
    """Well-formed DAT models: UTIM DATE TIME + 1..max_channels numeric declarations in any order, a header naming
    a non-empty subset of the numeric channels in any order, min_rows..max_rows rows."""
    n = draw(st.integers(1, max_channels))
    names = draw(channel_names(n))
    decls = []
    for name, units in TIME_CHANNELS:
        first = [draw(UTIM_FIRST)] if name == 'UTIM' else []
        desc = first + draw(st.lists(DESC_WORD, min_size=0 if first else 1, max_size=3))
        decls.append({'name': name, 'desc': desc, 'units': units})
    for name in names:
        decls.append({'name': name, 'desc': draw(st.lists(DESC_WORD, min_size=1, max_size=4)), 'units': draw(UNITS)})
    if draw(st.integers(0, 3)):
        decls = draw(st.permutations(decls))
    single = draw(st.booleans())  # many real files use one space everywhere
    for d in decls:
        k = len(d['desc']) + 1
        d['seps'] = draw(sep_lists(k, single))
        d['trail'] = draw(TRAIL)
    sub = draw(st.lists(st.sampled_from(names), min_size=1, max_size=n, unique=True)) if draw(st.integers(0, 2)) \
        else list(names)
    header = list(RESERVED) + list(sub)
    hs = len(header) - 1
    header_seps = draw(sep_lists(hs, single))
    nrows = draw(st.one_of(st.integers(min_rows, max(min_rows, 4)), st.integers(min_rows, max_rows)))
    rows = []
    consistent = draw(st.booleans())
    t0 = draw(UTIMS)
    ncol = len(sub)
    size = ROW_FIXED + 9 * ncol + 3
    for i in range(nrows):
        rows.append(row_from_bytes(draw(st.binary(min_size=size, max_size=size)), ncol, single,
                                   min(t0 + 5 * i, 2 ** 31 - 1) if consistent else None))
    return {'decls': list(decls), 'header': header, 'header_seps': header_seps, 'header_trail': draw(TRAIL), 'rows': rows,
            'eol': draw(st.sampled_from(['\n', '\n', '\r\n'])), 'final_eol': draw(st.sampled_from([True, True, False]))}


#: Text that is not a number for Python's float() and int() (checked by self_check) and contains no whitespace.
#: NOT here: nan, inf, infinity, 1e5, 1_0 ... - float() accepts those, so they would not be corruptions.
NON_NUMERIC_TEXT = ['abc', 'N/A', '--', '-', '+', '.', 'e5', '1e', '1.2.3', '1,5', '0x1F', '12:30', 'None', 'null', '#N/A',
                    '1..2', '--5', '5-', '1e+', '*', '?', 'n/a', '1.5.', '1e5e5', 'O.5', '12a', 'a12', '-.', '1/2', '()']
UNDECLARED_TAIL = 'XQZ'


@st.composite
def dat_corruptions(draw, model):
    """One single-line corruption that makes the file invalid, valid for this model by construction."""
    header = model['header']
    nrows = len(model['rows'])
    kinds = ['header-rename', 'header-dup-replace', 'header-dup-insert']
    if nrows:
        kinds += ['row-drop-col', 'row-add-col', 'row-text', 'row-date', 'row-time'] * 2 + ['row-utim-overlong', 'row-blank', 'row-is-header-again']
    kind = draw(st.sampled_from(kinds))
    c = {'kind': kind}
    if kind == 'header-rename':
        c['col'] = draw(st.integers(3, len(header) - 1))
        declared = set(d['name'] for d in model['decls'])
        nm = draw(st.one_of(st.text(alphabet=NAME_CHARS, min_size=1, max_size=6),
                            st.just(header[c['col']][:5] + 'X'), st.just(header[c['col']][:-1] or 'Q'),
                            # a declared name in another letter case is another name
                            st.just(header[c['col']].lower()), st.just(header[c['col']].swapcase()), st.just(header[c['col']].capitalize())))
        k = 0
        while nm in declared or not nm:  # undeclared by construction
            nm = (nm + UNDECLARED_TAIL[k % 3])[-7:]
            k += 1
            if k > 6:
                nm = 'Q' + nm[1:] + 'Q'
        c['name'] = nm
    elif kind == 'header-dup-replace':
        c['col'] = draw(st.integers(3, len(header) - 1))
        c['src'] = draw(st.integers(0, len(header) - 2))
        if c['src'] >= c['col']:
            c['src'] += 1
    elif kind == 'header-dup-insert':
        c['src'] = draw(st.integers(0, len(header) - 1))
        c['pos'] = draw(st.integers(3, len(header)))
    else:
        c['row'] = draw(st.one_of(st.just(0), st.integers(0, nrows - 1), st.just(nrows - 1)))
        row = model['rows'][c['row']]
        if kind == 'row-drop-col':
            c['col'] = draw(st.integers(0, len(header) - 1))
        elif kind == 'row-add-col':
            c['pos'] = draw(st.integers(0, len(header)))
            c['token'] = draw(st.one_of(number_tokens(), st.sampled_from(['0', '0.0', 'x'])))
        elif kind == 'row-is-header-again':
            pass        # (two files pasted together, a logger that re-writes its header): names are not values
        elif kind == 'row-blank':
            # a data line with nothing on it (empty, blanks, NULs): it does not match the header, whatever follows
            c['token'] = draw(st.sampled_from(['', ' ', '   ', '\t', ' \t ', '\x00\x00\x00']))
            if c['token'] == '' and c['row'] == nrows - 1 and not model['final_eol']:
                c['token'] = ' '        # an empty last line without line end is no line at all: the file is simply shorter
        elif kind == 'row-utim-overlong':
            # digits only, but far beyond any time that a date/time object can hold (year 9999 = 253402300799 s): e.g.
            # two numbers that ran together.  Such a line cannot be "the corresponding date/time object".
            c['token'] = str(draw(st.integers(1, 9))) + ''.join(str(draw(st.integers(0, 9))) for _ in range(draw(st.integers(12, 30))))
        elif kind == 'row-text':
            c['col'] = draw(st.one_of(st.just(0), st.integers(3, len(header) - 1)))
            c['token'] = draw(st.sampled_from(NON_NUMERIC_TEXT))
        elif kind == 'row-date':
            d = row['date']
            good = date_token(d)
            mon, yy = MONTHS[d['m'] - 1], '%02d' % (d['y'] % 100)
            dash = '-' if d['style'] == 'B' else ''
            how = draw(st.sampled_from(['month-unknown', 'day-zero', 'day-too-big', 'feb-30', 'no-year', 'no-day',
                                        'mixed-separators', 'trailing-junk', 'leading-junk', 'no-month', 'year-overlong', 'day-overlong']))
            c['how'] = how
            c['token'] = {
                'month-unknown': '%02d%s%s%s%s' % (d['d'], dash, draw(st.sampled_from(['Dez', 'Okt', 'Mai', 'Xxx', 'Ju', 'Sept'])), dash, yy),
                'day-zero': '00%s%s%s%s' % (dash, mon, dash, yy),
                'day-too-big': '%d%s%s%s%s' % (draw(st.integers(32, 99)), dash, mon, dash, yy),
                'feb-30': '%d%sFeb%s%s' % (draw(st.integers(30, 31)), dash, dash, yy),
                'no-year': '%02d%s%s%s' % (d['d'], dash, mon, dash),
                'no-day': '%s%s%s%s' % (dash, mon, dash, yy),
                'mixed-separators': '%02d-%s%s' % (d['d'], mon, yy) if draw(st.booleans()) else '%02d%s-%s' % (d['d'], mon, yy),
                'trailing-junk': good + draw(st.sampled_from(['x', '-', 'a1', '.0'])),
                'leading-junk': draw(st.sampled_from(['x', '-', 'D'])) + good,
                'no-month': '%02d%s%s%s' % (d['d'], dash, dash, yy),
                # digits in the right places, but no calendar holds them (two fields run together, a stuck key)
                'year-overlong': '%02d%s%s%s%s' % (d['d'], dash, mon, dash, yy + '9' * draw(st.integers(8, 24))),
                'day-overlong': '%s%s%s%s%s' % ('3' * draw(st.integers(10, 24)), dash, mon, dash, yy),
            }[how]
        else:
            h, m, s = row['time']
            how = draw(st.sampled_from(['hour-too-big', 'minute-too-big', 'second-too-big', 'colons', 'two-fields',
                                        'four-fields', 'junk', 'empty-field', 'text']))
            c['how'] = how
            c['token'] = {
                'hour-too-big': '%02d-%02d-%02d' % (draw(st.integers(24, 99)), m, s),
                'minute-too-big': '%02d-%02d-%02d' % (h, draw(st.integers(60, 99)), s),
                'second-too-big': '%02d-%02d-%02d' % (h, m, draw(st.integers(62, 99))),
                'colons': '%02d:%02d:%02d' % (h, m, s),
                'two-fields': '%02d-%02d' % (h, m),
                'four-fields': '%02d-%02d-%02d-%02d' % (h, m, s, draw(st.integers(0, 59))),
                'junk': '%02d-%02d-%02d' % (h, m, s) + draw(st.sampled_from(['x', '.5', '-', 'PM'])),
                'empty-field': '%02d--%02d' % (h, s),
                'text': draw(st.sampled_from(['noon', 'hh-mm-ss', 'abc', '-'])),
            }[how]
    return c


@st.composite
def dat_corrupted(draw, max_channels=9, max_rows=12):
    model = draw(dat_models(max_channels=max_channels, max_rows=max_rows, min_rows=draw(st.sampled_from([0, 1, 1, 1]))))
    return {'model': model, 'corruption': draw(dat_corruptions(model))}


# ---------------------------------------------------------------------------------------------
# Independent reader of well-formed files (used for the bundled example and the self-check)
# ---------------------------------------------------------------------------------------------
RE_DATE_A = re.compile(r'(\d{1,2})([A-Z][a-z]{2})(\d{2})')
RE_DATE_B = re.compile(r'(\d{1,2})-([A-Z][a-z]{2})-(\d{2})')
RE_TIME = re.compile(r'(\d{2})-(\d{2})-(\d{2})')


def _split(line):
    """tokens, separators, trailing whitespace"""
    body = line.rstrip(' \t')
    trail = line[len(body):]
    parts = re.split(r'([ \t]+)', body)
    return parts[0::2], parts[1::2], trail


def model_from_text(text):
    """Strict inverse of render_dat for well-formed files (raises DatModelError otherwise)."""
    eol = '\r\n' if '\r\n' in text else '\n'
    final = text.endswith(eol)
    lines = text.split(eol)
    if final:
        lines = lines[:-1]
    model = {'decls': [], 'header': None, 'header_seps': None, 'header_trail': '', 'rows': [], 'eol': eol,
             'final_eol': final}
    for line in lines:
        toks, seps, trail = _split(line)
        if model['header'] is None:
            if toks[:3] == list(RESERVED) and len(toks) > 3:
                model['header'], model['header_seps'], model['header_trail'] = toks, seps, trail
            else:
                if len(toks) < 3:
                    raise DatModelError('declaration %r' % line)
                model['decls'].append({'name': toks[0], 'desc': toks[1:-1], 'units': toks[-1], 'seps': seps, 'trail': trail})
        else:
            if len(toks) != len(model['header']):
                raise DatModelError('row width %r' % line)
            ma = RE_DATE_A.fullmatch(toks[1])
            mb = RE_DATE_B.fullmatch(toks[1])
            m = ma or mb
            mt = RE_TIME.fullmatch(toks[2])
            if not m or not mt or not toks[0].isdigit() or m.group(2) not in MONTHS:
                raise DatModelError('row %r' % line)
            date = {'y': full_year(int(m.group(3))), 'm': MONTHS.index(m.group(2)) + 1, 'd': int(m.group(1)),
                    'style': 'A' if ma else 'B', 'pad': len(m.group(1)) == 2 and int(m.group(1)) < 10}
            if int(m.group(1)) >= 10:
                date['pad'] = False
            model['rows'].append({'utim': int(toks[0]), 'date': date, 'time': [int(g) for g in mt.groups()],
                                  'nums': toks[3:], 'seps': seps, 'trail': trail})
    if model['header'] is None:
        raise DatModelError('no header line')
    if render_dat(model) != text:
        raise DatModelError('model does not reproduce the text')
    return model


_checked = False


def self_check(example_path=None):
    global _checked
    if not _checked:
        for t in NON_NUMERIC_TEXT:
            if re.search(r'\s', t):
                raise DatModelError('whitespace in %r' % t)
            for f in (float, int):
                try:
                    f(t)
                except ValueError:
                    continue
                raise DatModelError('%r is a number for %s()' % (t, f.__name__))
        text = ('UTIM Unix Time sec\nDATE Date ddmmyy\nTIME Time hhmmss\nWAC Wits Activity Code unitless\nBDIA\tBit  Diameter inch\n'
                'UTIM DATE TIME BDIA\n1165665017 09Dec06 11-50-17 8.50 \n1165665022 9-Dec-06 11-50-22 -0\n')
        m = model_from_text(text)
        exp = expected_channels(m)
        if [e[0] for e in exp] != ['UTIM', 'DATE', 'TIME', 'BDIA'] or exp[3][1:3] != ('Bit Diameter', 'inch') \
                or exp[0][4][0] != datetime.datetime(2006, 12, 9, 11, 50, 17) or exp[1][4] != [datetime.date(2006, 12, 9)] * 2 \
                or exp[2][4][1] != datetime.time(11, 50, 22) or exp[3][4] != [8.5, 0.0]:
            raise DatModelError('expected_channels self-check')
        if full_year(50) != 2050 or full_year(51) != 1951:
            raise DatModelError('year window')
        _checked = True
    if example_path:
        with open(example_path, newline='') as f:
            text = f.read()
        return model_from_text(text)
    return None
