"""RP66V1 files in the form the LAS converter needs (C11, C12), built on the independent encoder of vt.gen.dlis_logical.

A storage unit of 1..n logical files, each: FILE-HEADER in the conventional form (SEQUENCE-NUMBER, ID), an ORIGIN set whose first
object carries the attributes RP66V1 5.2.1 lists and the LAS well section maps (FILE-ID, CREATION-TIME, WELL-NAME, FIELD-NAME,
PRODUCER-NAME, COMPANY ... - any of the text attributes may be valueless), optionally one PARAMETER set in the standard's form
(LONG-NAME, VALUES), then CHANNEL and FRAME sets and frame data from ``dlis_logical._log_pass_records`` (1..3 frame types
interleaved), with two pure transformations of the generated frame data:

  * the first channel of every frame type (the index, RP66V1 5.7.1) becomes a regular sequence start + k * spacing encoded in the
    channel's representation code (never VSINGL), increasing or decreasing;
  * words of the floating point codes that are not finite, sub-normal or beyond 2^100 (2^996 for FDOUBL) are replaced by the word
    of -999.25, so that every value prints as a plain decimal and a mean over <= 12 elements cannot overflow.

Nothing here imports TotalDepth.  ``build(case)`` is ``dlis_logical.build_logical``.
"""
import struct

from hypothesis import strategies as st

from vt.gen import dlis_logical as L
from vt.ref import repcodes as R

build = L.build_logical

INT_PACK = {12: '>b', 13: '>h', 14: '>i', 15: '>B', 16: '>H', 17: '>I'}
INT_RANGE = {12: (-128, 127), 13: (-32768, 32767), 14: (-2 ** 31, 2 ** 31 - 1), 15: (0, 255), 16: (0, 65535), 17: (0, 2 ** 32 - 1)}
X_CODES = (2, 7, 5, 13, 14, 16, 17, 12, 15)
TEXT = bytes(range(32, 127))
WORDS = [b'ACME OIL', b'NORTH FIELD', b'WELL 12/3-4', b'Logging Co.', b'A:B', b'x', b'', b'#1', b'~X', b'50%', b'a.b.c', b'  padded  ']
MAX32 = 2.0 ** 100
MAX64 = 2.0 ** 996


def _enc(code, v):
    if code in INT_PACK:
        return struct.pack(INT_PACK[code], int(v))
    return L.FLOAT_PACK[code](float(v))


def _text(draw):
    k = draw(L.ints(0, 9))
    if k < 4:
        return L._pick(draw, WORDS)
    return L._text(draw, TEXT, 0, 24)


def _dtime(draw):
    y, tz, mo, d = draw(L.ints(0, 255)), draw(L.ints(0, 2)), draw(L.ints(1, 12)), draw(L.ints(1, 28))
    h, mi, s, ms = draw(L.ints(0, 23)), draw(L.ints(0, 59)), draw(L.ints(0, 59)), draw(L.ints(0, 999))
    return bytes([y, (tz << 4) | mo, d, h, mi, s, ms >> 8, ms & 0xFF])


def _origin_set(draw, origin, seq):
    """ORIGIN set: template in the order of RP66V1 5.2.1 (a subset, always with the attributes the converter reads)."""
    A = L._plain_attr
    tmpl = [A(b'FILE-ID', 20), A(b'FILE-SET-NAME', 19), A(b'FILE-SET-NUMBER', 18), A(b'FILE-NUMBER', 18), A(b'FILE-TYPE', 19),
            A(b'PRODUCT', 20), A(b'VERSION', 20), A(b'PROGRAMS', 20), A(b'CREATION-TIME', 21), A(b'ORDER-NUMBER', 20),
            A(b'RUN-NUMBER', 17), A(b'WELL-ID', 19), A(b'WELL-NAME', 20), A(b'FIELD-NAME', 20), A(b'PRODUCER-CODE', 16),
            A(b'PRODUCER-NAME', 20), A(b'COMPANY', 20), A(b'NAME-SPACE-NAME', 19)]
    attrs = []
    for t in tmpl:
        lab, code = t['label'], t['code']
        if lab == b'CREATION-TIME':
            a = L._obj_attr([_dtime(draw)])
        elif lab in (b'WELL-NAME', b'FIELD-NAME', b'PRODUCER-NAME', b'COMPANY'):
            if draw(L.ints(0, 7)) == 0:
                a = L._obj_attr(None)           # no value: the converter has to cope with an absent value
            else:
                a = L._obj_attr([_text(draw)], units=L._pick(draw, L.UNIT_WORDS) if draw(L.ints(0, 9)) == 0 else None)
        elif lab == b'FILE-NUMBER':
            a = L._obj_attr([seq])
        elif code in (18,):
            a = L._obj_attr([draw(L.ints(0, 300))])
        elif code == 17:
            a = L._obj_attr([struct.pack('>I', draw(L.ints(0, 99)))])
        elif code == 16:
            a = L._obj_attr([struct.pack('>H', draw(L.ints(0, 999)))])
        elif code == 19:
            a = L._obj_attr([L._text(draw, L.UPPER, 0, 10)]) if draw(L.BOOL) else L._obj_attr(None)
        else:
            a = L._obj_attr([_text(draw)]) if draw(L.BOOL) else L._obj_attr(None)
        attrs.append(a)
    return {'kind': 'set', 'lr_type': 1, 'encrypted': False,
            'set': {'role': 'SET', 'type': b'ORIGIN', 'name': None if draw(L.BOOL) else L._ident(draw), 'template': tmpl,
                    'objects': [{'name': [origin, 0, b'DEFINING_ORIGIN'], 'attrs': attrs}]}}


def _parameter_set(draw, origin):
    tmpl = [L._plain_attr(b'LONG-NAME', 20), L._plain_attr(b'VALUES', 20)]
    objs = []
    names = [b'LOC ', b'COUN', b'STAT', b'NATI', b'APIN', b'UWI ', b'LATI', b'LONG', b'BS', b'MDEN', b'DFD']
    k0 = draw(L.ints(0, len(names) - 1))
    for i in range(draw(L.ints(0, 4))):
        nm = names[(k0 + i * 3) % len(names)]
        if draw(L.BOOL):
            val = L._obj_attr([_text(draw)], units=L._pick(draw, L.UNIT_WORDS) if draw(L.BOOL) else None)
        else:
            val = L._obj_attr([struct.pack('>f', L._pick(draw, L.NICE_FLOATS))], code=2)
        objs.append({'name': [origin, 0, nm], 'attrs': [L._obj_attr([_text(draw)]), val]})
    return {'kind': 'set', 'lr_type': 5, 'encrypted': False,
            'set': {'role': 'SET', 'type': b'PARAMETER', 'name': None, 'template': tmpl, 'objects': objs}}


def _finite_word(code, raw):
    """raw word of a floating point code -> the same word, or the word of -999.25 when it is outside the printable domain."""
    x = R.RP66_FIXED[code][1](raw)
    if x is None or isinstance(x, str):
        return _enc(code, -999.25)
    lim = MAX64 if code == 7 else MAX32
    ax = abs(x)
    if ax > lim:
        return _enc(code, -999.25)
    tiny = 2.0 ** -1022 if code == 7 else 2.0 ** -126
    if ax != 0 and ax < tiny:
        return _enc(code, -999.25)
    return raw


def _x_values(draw, code, n):
    down = draw(L.ints(0, 2)) == 0
    if code in INT_PACK:
        lo, hi = INT_RANGE[code]
        step = draw(L.ints(1, 3))
        span = step * (n - 1)
        if span > hi - lo:
            step, span = 1, n - 1
        if span > hi - lo:
            raise L.EncoderError('too many frames for an index of code %d' % code)
        start = draw(L.ints(max(lo, -50), max(max(lo, -50), min(hi - span, 2000))))
        vals = [start + k * step for k in range(n)]
        return list(reversed(vals)) if down else vals
    j = draw(L.ints(0, 5))
    spacing = [0.5, 0.25, 1.0, 0.1524, 60.0, 0.125][j]
    start = [1000.0, 0.0, 2889.5, -20.0, 12000.25, 5.0][draw(L.ints(0, 5))]
    vals = [start + k * spacing for k in range(n)]
    return list(reversed(vals)) if down else vals


def _regularise(draw, head, data, max_frames):
    """Applies the two transformations of the module docstring to the frame data records (in place)."""
    chan_set = next(h for h in head if h['set']['type'] == b'CHANNEL')['set']
    frame_set = next(h for h in head if h['set']['type'] == b'FRAME')['set']
    # channel name -> code as the CHANNEL set states it (object value, else template default)
    labels = [t['label'] for t in chan_set['template']]
    k_rc = labels.index(b'REPRESENTATION-CODE')
    codes = {}
    for ob in chan_set['objects']:
        a = ob['attrs'][k_rc] if k_rc < len(ob['attrs']) else None
        v = a['values'] if a is not None and a.get('values') is not None else chan_set['template'][k_rc]['values']
        codes[(ob['name'][0], ob['name'][1], bytes(ob['name'][2]))] = v[0][0]
    k_ch = [t['label'] for t in frame_set['template']].index(b'CHANNELS')
    for fo in frame_set['objects']:
        fname = (fo['name'][0], fo['name'][1], bytes(fo['name'][2]))
        chans = [(c[0], c[1], bytes(c[2])) for c in fo['attrs'][k_ch]['values']]
        ccodes = [codes[c] for c in chans]
        recs = [r for r in data if r['kind'] == 'iflr' and r['channels'] is not None
                and (r['frame'][0], r['frame'][1], bytes(r['frame'][2])) == fname]
        if not recs:
            continue
        xcode = ccodes[0]
        xs = _x_values(draw, xcode, len(recs))
        for r, x in zip(recs, xs):
            blobs = list(r['channels'])
            blobs[0] = _enc(xcode, x)
            for k in range(1, len(blobs)):
                c = ccodes[k]
                if c in L.FLOAT_CODES:
                    size = L.FIXED_SIZE[c]
                    b = blobs[k]
                    blobs[k] = b''.join(_finite_word(c, b[i:i + size]) for i in range(0, len(b), size))
                    if c == 6:
                        blobs[k] = L.fix_vsingl(blobs[k])
            r['channels'] = blobs


def _set_x_codes(draw, head):
    """The first channel of every frame type gets a representation code from X_CODES and a plain identifier."""
    chan_set = next(h for h in head if h['set']['type'] == b'CHANNEL')['set']
    frame_set = next(h for h in head if h['set']['type'] == b'FRAME')['set']
    labels = [t['label'] for t in chan_set['template']]
    k_rc = labels.index(b'REPRESENTATION-CODE')
    k_ch = [t['label'] for t in frame_set['template']].index(b'CHANNELS')
    by_name = {(o['name'][0], o['name'][1], bytes(o['name'][2])): o for o in chan_set['objects']}
    for fo in frame_set['objects']:
        c0 = fo['attrs'][k_ch]['values'][0]
        ob = by_name[(c0[0], c0[1], bytes(c0[2]))]
        code = L._pick(draw, X_CODES)
        while len(ob['attrs']) <= k_rc:
            ob['attrs'].append(L._obj_attr(None))
        ob['attrs'][k_rc] = L._obj_attr([bytes([code])])


def _one_logical_file(draw, seq, max_frame_types, max_channels, max_frames, codes, parameter):
    origin = draw(L.ints(0, 127))
    fh = L._file_header_set(draw, origin, seq)
    recs = [fh, _origin_set(draw, origin, seq)]
    if parameter and draw(L.ints(0, 2)) == 0:
        recs.append(_parameter_set(draw, origin))
    if max_frame_types == 0:
        return recs
    # X codes are assigned before the frame data is generated: _log_pass_records sizes the rows from the channel codes
    head, data = _log_pass_with_x(draw, origin, max_frame_types, max_channels, max_frames, codes)
    return recs + head + data


def _log_pass_with_x(draw, origin, max_frame_types, max_channels, max_frames, codes):
    """_log_pass_records, then the X channel code and values replaced consistently (row sizes follow the new code)."""
    head, data = L._log_pass_records(draw, origin=origin, max_frame_types=max_frame_types, max_channels=max_channels,
                                     max_frames=max_frames, codes=codes, allow_empty_iflr=False, allow_encrypted=False,
                                     frame_weights=(1, 1, 2, 2, 3))
    _set_x_codes(draw, head)
    _regularise(draw, head, data, max_frames)
    _plain_names(draw, head, data)
    return head, data


SAFE = b'ABCDEFGHIJKLMNOPQRSTUVWXYZabcdefghijklmnopqrstuvwxyz0123456789_-'


def _plain_names(draw, head, data):
    """Frame identifiers become file name safe (the converter names its output after them) and at most 12 characters; two frame
    objects that the generator gave the same identifier (told apart by origin / copy number only) keep a common identifier one
    time in four.  LONG-NAME values of channels lose their colons and UNITS values their spaces (the LAS line is
    'MNEM.UNIT value : description', C10's domain)."""
    chan_set = next(h for h in head if h['set']['type'] == b'CHANNEL')['set']
    frame_set = next(h for h in head if h['set']['type'] == b'FRAME')['set']
    labels = [t['label'] for t in chan_set['template']]
    for lab, a, b in ((b'LONG-NAME', b':', b';'), (b'UNITS', b' ', b'')):
        k = labels.index(lab)
        for ob in chan_set['objects']:
            if k < len(ob['attrs']) and ob['attrs'][k].get('values'):
                ob['attrs'][k]['values'] = [bytes(v).replace(a, b) for v in ob['attrs'][k]['values']]
    new, used = {}, set()
    rename = {}
    for k, fo in enumerate(frame_set['objects']):
        old = (fo['name'][0], fo['name'][1], bytes(fo['name'][2]))
        if old[2] in new and draw(L.ints(0, 3)) == 0:
            nm = new[old[2]]
        else:
            nm = bytes(c if c in SAFE else 0x5F for c in old[2])[:12] or b'F'
            while nm in used:
                nm = nm[:10] + b'%d' % k
            used.add(nm)
            new[old[2]] = nm
        fo['name'] = [fo['name'][0], fo['name'][1], nm]
        rename[old] = fo['name']
    for r in data:
        if r['kind'] == 'iflr':
            key = (r['frame'][0], r['frame'][1], bytes(r['frame'][2]))
            if key in rename:
                r['frame'] = list(rename[key])


@st.composite
def tolas_files(draw, max_files=2, max_frame_types=3, max_channels=5, max_frames=24, codes=L.FRAME_CODES, parameter=True,
                allow_no_log_pass=True, plant=()):
    """Storage unit of 1..max_files logical files, each with a log pass of 1..max_frame_types frame types (one file in eight
    without a log pass when allow_no_log_pass).  plant: identifiers (index channels of *another* file, C12) one of which a plain
    channel of the first logical file takes."""
    n = 1 if max_files <= 1 or draw(L.ints(0, 2)) else draw(L.ints(2, max_files))
    records = []
    any_lp = False
    for i in range(n):
        nolp = allow_no_log_pass and n > 1 and draw(L.ints(0, 7)) == 0 and (any_lp or i < n - 1)
        any_lp = any_lp or not nolp
        recs = _one_logical_file(draw, i + 1, 0 if nolp else max_frame_types, max_channels, max_frames, codes, parameter)
        if records and draw(L.ints(0, 2)) == 0:
            _share_index_name(draw, records, recs)
        if not records and plant:
            _share_index_name(draw, [], recs, [bytes(x) for x in plant])
        records += recs
    return L._finish_case(draw, records)


def _share_index_name(draw, earlier, recs, x_names=None):
    """One channel of the logical file ``recs`` that is not the index of its frame gets the identifier of an index channel of an
    earlier logical file (identifiers are unique within a logical file only): DEPT is the index of one log and a plain channel of
    the next."""
    def sets(rs, t):
        return [r['set'] for r in rs if r['kind'] == 'set' and r['set']['type'] == t]
    x_names = list(x_names or [])
    for fs in sets(earlier, b'FRAME'):
        k = [t['label'] for t in fs['template']].index(b'CHANNELS')
        x_names += [bytes(fo['attrs'][k]['values'][0][2]) for fo in fs['objects']]
    cs, fs = sets(recs, b'CHANNEL'), sets(recs, b'FRAME')
    if not x_names or not cs or not fs:
        return
    k = [t['label'] for t in fs[0]['template']].index(b'CHANNELS')
    mine = [bytes(o['name'][2]) for o in cs[0]['objects']]
    plain = [v for fo in fs[0]['objects'] for v in fo['attrs'][k]['values'][1:]]
    new = L._pick(draw, x_names)
    if not plain or new in mine:
        return
    target = L._pick(draw, plain)
    old = (target[0], target[1], bytes(target[2]))
    for o in cs[0]['objects']:
        if (o['name'][0], o['name'][1], bytes(o['name'][2])) == old:
            o['name'] = [old[0], old[1], new]
    for fo in fs[0]['objects']:
        fo['attrs'][k]['values'] = [[v[0], v[1], new] if (v[0], v[1], bytes(v[2])) == old else v for v in fo['attrs'][k]['values']]
