"""Independent RP66V1 (DLIS) encoder - physical layer: storage unit label, logical record segments, visible records.

Written from RP66V1 section 2 (SUL 2.3.2; Logical Record Segment Header, attributes of Figure 2-3, trailer order
padding / checksum / trailing length 2.2.2; Visible Record 2.3.6).  Shares no code with TotalDepth.

A *record* is {'eflr': bool, 'type': 0..255, 'payload': bytes, 'encrypted': bool}
A *layout* is, per record, a list of segments {'n': body bytes, 'pad': pad byte count (0 = no padding), 'checksum': bool,
'trailing': bool}, plus a list of visible record capacity targets.
"""
import struct

from hypothesis import strategies as st

SUL_SIZE = 80
VR_HEAD = 4
SEG_HEAD = 4
SEG_MIN = 16
VR_MAX = 16384
SEG_MAX = VR_MAX - VR_HEAD

A_EFLR, A_PRED, A_SUCC, A_ENCRYPTED, A_ENCPACKET, A_CHECKSUM, A_TRAILING, A_PADDING = 0x80, 0x40, 0x20, 0x10, 0x08, 0x04, 0x02, 0x01


def encode_sul(sul):
    """sul: {'seq': int 1..9999, 'seq_pad': ' ' | '0', 'version': b'V1.00', 'max_len': int, 'max_pad': ' '|'0', 'ident': 60 bytes}"""
    # the pad is one character, or a two character pattern ('0 ', ' 0'): zeros and blanks mixed, which the label grammar of
    # the reader and of the recogniser ([0 ]* then the number) both take
    def rj(n, width, pad):
        txt = str(n)
        return ((pad * width)[:width - len(txt)] + txt).encode('ascii')
    seq = rj(sul['seq'], 4, sul.get('seq_pad', ' '))
    mx = rj(sul['max_len'], 5, sul.get('max_pad', ' '))
    ident = bytes(sul['ident'])
    assert len(seq) == 4 and len(mx) == 5 and len(ident) == 60 and len(sul['version']) == 5
    return seq + bytes(sul['version']) + b'RECORD' + mx + ident


def segment_length(seg):
    return SEG_HEAD + seg['n'] + seg['pad'] + 2 * bool(seg['checksum']) + 2 * bool(seg['trailing'])


def pad_bytes(rec, seg):
    """The pad area of a segment.  Plain: filler and the pad count as last byte.  Encrypted: the padding was encrypted with
    the body, so the bytes - and the last one in particular - are anything (here mostly 0xFF, larger than many bodies)."""
    n = seg['pad']
    if not n:
        return b''
    if rec.get('encrypted') and (seg['n'] * 7 + n) % 3 != 0:
        return bytes((0xA5 + 37 * i) & 0xFF for i in range(n - 1)) + b'\xff'
    return bytes([0x7e] * (n - 1)) + bytes([n])


def encode_segment(rec, seg, body, first, last):
    attr = 0
    if rec['eflr']:
        attr |= A_EFLR
    if not first:
        attr |= A_PRED
    if not last:
        attr |= A_SUCC
    if rec.get('encrypted'):
        attr |= A_ENCRYPTED
    if seg.get('enc_packet'):
        attr |= A_ENCPACKET
    if seg['checksum']:
        attr |= A_CHECKSUM
    if seg['trailing']:
        attr |= A_TRAILING
    if seg['pad']:
        attr |= A_PADDING
    length = segment_length(seg)
    out = bytearray(struct.pack('>HBB', length, attr, rec['type']))
    out += body
    out += pad_bytes(rec, seg)
    if seg['checksum']:
        out += b'\xc5\x5c'   # opaque: the reader does not verify checksums
    if seg['trailing']:
        out += struct.pack('>H', length)
    assert len(out) == length and length % 2 == 0 and SEG_MIN <= length <= SEG_MAX, (length, seg)
    return bytes(out)


def encode_file(sul, records, layouts, vr_caps):
    """Returns (bytes, model).  model = {'records': [{'vr_pos', 'lrsh_pos', 'vrs': [(pos, length)...], 'seg_bounds': [...],
    'segments': n}], 'vr_count', 'max_vr'}"""
    out = bytearray(encode_sul(sul))
    segs = []   # (record index, segment bytes, first?)
    for k, (rec, lay) in enumerate(zip(records, layouts)):
        ofs = 0
        assert sum(s['n'] for s in lay) == len(rec['payload'])
        for j, seg in enumerate(lay):
            body = rec['payload'][ofs:ofs + seg['n']]
            ofs += seg['n']
            segs.append((k, encode_segment(rec, seg, body, j == 0, j == len(lay) - 1), j == 0))
    model = {'records': [None] * len(records), 'vr_count': 0, 'max_vr': 0}
    i = 0
    cap_i = 0
    while i < len(segs):
        cap = vr_caps[cap_i % len(vr_caps)] if vr_caps else VR_MAX
        cap_i += 1
        group = [segs[i]]
        total = VR_HEAD + len(segs[i][1])
        i += 1
        while i < len(segs) and total + len(segs[i][1]) <= cap:
            group.append(segs[i])
            total += len(segs[i][1])
            i += 1
        assert 20 <= total <= VR_MAX
        vr_pos = len(out)
        out += struct.pack('>HH', total, 0xFF01)
        model['vr_count'] += 1
        model['max_vr'] = max(model['max_vr'], total)
        for (k, sb, first) in group:
            if first:
                model['records'][k] = {'vr_pos': vr_pos, 'lrsh_pos': len(out), 'vrs': [], 'segments': 0}
            m = model['records'][k]
            if not m['vrs'] or m['vrs'][-1][0] != vr_pos:
                m['vrs'].append((vr_pos, total))
            m['segments'] += 1
            out += sb
    for k, lay in enumerate(layouts):
        acc, b = 0, []
        for s in lay:
            acc += s['n']
            b.append(acc)
        model['records'][k]['seg_bounds'] = b
    return bytes(out), model


# -------------------------------------------------------------------------------------------------
# Strategies
# -------------------------------------------------------------------------------------------------
PRINTABLE = bytes(range(32, 127))


@st.composite
def suls(draw, min_max_len=20):
    seq = draw(st.one_of(st.integers(1, 9), st.sampled_from([10, 20, 100, 101, 1000, 9999, 9090, 110]), st.integers(1, 9999)))
    max_len = draw(st.one_of(st.sampled_from([8192, 16384, 10000, 4096, 2000, 1020, 100]), st.integers(20, 16384)))
    max_len = max(max_len, min_max_len)
    ident = draw(st.one_of(
        st.sampled_from([b'Default Storage Set', b'CUSTOMER', b'']).map(lambda s: s.ljust(60)),
        st.lists(st.sampled_from(list(PRINTABLE)), min_size=60, max_size=60).map(bytes),
        # ... with the white space characters that are ASCII text too (tab, line feed, carriage return, VT, FF)
        st.lists(st.sampled_from(list(PRINTABLE) + [9, 10, 13, 11, 12] * 4), min_size=60, max_size=60).map(bytes)))
    version = b'V1.' + ('%02d' % draw(st.one_of(st.just(0), st.integers(0, 99)))).encode()
    return {'seq': seq, 'seq_pad': draw(st.sampled_from([' ', ' ', '0', '0 ', ' 0'])), 'version': version, 'max_len': max_len,
            'max_pad': draw(st.sampled_from([' ', '0', '0', '0 ', ' 0'])), 'ident': ident}


@st.composite
def segment_for(draw, n, encrypted, force=None):
    """Trailer and padding choice for a segment body of n bytes (pad chosen so that the length is even and >= 16)."""
    checksum = draw(st.booleans()) if force is None else force[0]
    trailing = draw(st.booleans()) if force is None else force[1]
    base = SEG_HEAD + n + 2 * checksum + 2 * trailing
    need = max(0, SEG_MIN - base)
    if (base + need) % 2:
        need += 1
    room = min(255 - need, SEG_MAX - base - need)
    extra = 0
    if room >= 2 and draw(st.integers(0, 3)) == 0:
        extra = 2 * draw(st.one_of(st.integers(1, min(3, room // 2)), st.integers(1, room // 2)))
    return {'n': n, 'pad': need + extra, 'checksum': checksum, 'trailing': trailing}


@st.composite
def record_and_layout(draw, max_payload=3000, allow_encrypted=True, min_payload=0):
    encrypted = allow_encrypted and draw(st.integers(0, 7)) == 0
    kind = draw(st.integers(0, 5))
    if kind == 0:
        n = draw(st.integers(0, 20))
    elif kind == 1:
        n = draw(st.integers(0, 200))
    elif kind == 2:
        n = draw(st.integers(0, max(0, min(max_payload, 1500))))
    else:
        n = draw(st.integers(0, max_payload))
    n = max(n, min_payload)
    same_trailers = draw(st.booleans())
    force = (draw(st.booleans()), draw(st.booleans())) if same_trailers else None
    if kind == 5 and draw(st.booleans()):
        # one segment of the maximum size: fills a visible record of exactly 16384 bytes
        tr = force if force is not None else (draw(st.booleans()), draw(st.booleans()))
        force = tr
        n = SEG_MAX - SEG_HEAD - 2 * tr[0] - 2 * tr[1] - draw(st.sampled_from([0, 0, 1, 2]))
        bodies = [n]
    else:
        k = 1 if n == 0 else draw(st.one_of(st.just(1), st.integers(1, min(n, 6)), st.integers(1, min(n, 24))))
        if k == 1:
            bodies = [n]
        else:
            cuts = sorted(draw(st.lists(st.integers(1, n - 1), min_size=k - 1, max_size=k - 1, unique=True))) if n > k else list(range(1, n))
            cuts = [0] + cuts + [n]
            bodies = [b - a for a, b in zip(cuts, cuts[1:])]
        # keep every segment within the maximum size
        lim = SEG_MAX - SEG_HEAD - 4 - 2
        fixed = []
        for b in bodies:
            while b > lim:
                fixed.append(lim)
                b -= lim
            fixed.append(b)
        bodies = fixed
        if draw(st.integers(0, 5)) == 0:
            # a segment that carries no payload at all (header, pad bytes, trailer): anywhere in the chain
            for _ in range(draw(st.integers(1, 2))):
                bodies.insert(draw(st.integers(0, len(bodies))), 0)
    seed = draw(st.integers(0, 255))
    head = draw(st.binary(max_size=min(n, 8)))
    payload = head + bytes(((seed + 3 * i + (i >> 8) * 11) & 0xFF) for i in range(n - len(head)))
    layout = [draw(segment_for(b, encrypted, force)) for b in bodies]
    if encrypted and draw(st.booleans()):
        # encryption packets (attribute bit 5, legal with the encryption flag only): the segment body then starts with
        # size (UNORM, counts itself), producer code (UNORM) and encryption information; the reader hands encrypted
        # segment bodies over as they are, so the packet is part of what it delivers
        buf, ofs = bytearray(payload), 0
        for seg in layout:
            if seg['n'] >= 4 and draw(st.integers(0, 2)) != 0:
                size = 2 * draw(st.integers(2, min(seg['n'], 16) // 2))
                buf[ofs:ofs + 4] = struct.pack('>HH', size, 440)
                seg['enc_packet'] = True
            ofs += seg['n']
        payload = bytes(buf)
    rec = {'eflr': draw(st.booleans()), 'type': draw(st.one_of(st.integers(0, 11), st.integers(0, 255))),
           'payload': payload, 'encrypted': encrypted}
    if encrypted and len(layout) >= 3 and draw(st.integers(0, 2)) == 0:
        # every attribute bit set in the segments of an encrypted record (header bytes .. .. FF tt in the middle segments):
        # explicit record, packet, checksum, trailing length and padding all present; a small type code
        rec['eflr'] = True
        rec['type'] = draw(st.sampled_from([0, 1, 1, 2, 3, 4, 5, 255]))
        buf, ofs, new_layout = bytearray(payload), 0, []
        for seg in layout:
            base = SEG_HEAD + seg['n'] + 4
            pad = max(seg['pad'], 2 if base % 2 == 0 else 1)
            if (base + pad) % 2:
                pad += 1
            if seg['n'] >= 4 and base + pad <= SEG_MAX and pad <= 255:
                seg = dict(seg, checksum=True, trailing=True, pad=pad, enc_packet=True)
                if not (buf[ofs] << 8 | buf[ofs + 1]) or not layout[0].get('enc_packet'):
                    buf[ofs:ofs + 4] = struct.pack('>HH', 4, 440)
            new_layout.append(seg)
            ofs += seg['n']
        layout = new_layout
        rec['payload'] = bytes(buf)
    return rec, layout


@st.composite
def physical_files(draw, min_records=1, max_records=10, max_payload=3000, allow_encrypted=True):
    n = draw(st.integers(min_records, max_records))
    big = draw(st.integers(0, 9)) == 0
    pairs = [draw(record_and_layout(max_payload=40000 if big and i == 0 else max_payload, allow_encrypted=allow_encrypted))
             for i in range(n)]
    records = [p[0] for p in pairs]
    layouts = [p[1] for p in pairs]
    caps = draw(st.lists(st.one_of(st.integers(20, 64), st.integers(20, 400), st.integers(20, VR_MAX),
                                   st.sampled_from([8192, VR_MAX])), min_size=1, max_size=6))
    # the label's maximum record length must not be smaller than the longest visible record: compute it by a dry run
    sul = draw(suls())
    _b, model = encode_file(dict(sul, max_len=VR_MAX), records, layouts, caps)
    if sul['max_len'] < model['max_vr']:
        sul = dict(sul, max_len=draw(st.integers(model['max_vr'], VR_MAX)))
    return {'sul': sul, 'records': records, 'layouts': layouts, 'vr_caps': caps}


def build(case):
    return encode_file(case['sul'], case['records'], case['layouts'], case['vr_caps'])


def expected_payload(rec, layout):
    """What a reader must deliver: the payload; for an encrypted record the raw segment bodies *including* their pad
    bytes, because padding of an encrypted segment cannot be identified (RP66V1 2.2.2.1, and the reader's own rule)."""
    if not rec.get('encrypted'):
        return rec['payload']
    out, ofs = bytearray(), 0
    for seg in layout:
        out += rec['payload'][ofs:ofs + seg['n']]
        ofs += seg['n']
        out += pad_bytes(rec, seg)
    return bytes(out)
