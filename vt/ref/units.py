"""Exact reference for affine unit conversion (C17).

A unit is (scale, offset) relative to the base unit of its dimension:  base = (value - offset) * scale.
Converting v from unit 1 to unit 2 is therefore, in exact arithmetic,

    f(v) = (v - o1) * s1 / s2 + o2

``exact`` evaluates that with ``fractions.Fraction`` on the *float constants of the table* (a float is a rational
number, so nothing is lost).  ``bound`` is the rounding bound allowed to an implementation that evaluates the
expression in IEEE double arithmetic in any reasonable order.
"""
import json
import os
import sys
from fractions import Fraction

EPS = sys.float_info.epsilon
TINY = 4 * 5e-324
K = 4.0


def exact(v, s1, o1, s2, o2) -> Fraction:
    return (Fraction(v) - Fraction(o1)) * Fraction(s1) / Fraction(s2) + Fraction(o2)


class ExactMap:
    """f(v) = a*v + b with rational a, b: the map unit 1 -> unit 2 precomputed once per pair."""
    __slots__ = ('a', 'b')

    def __init__(self, s1, o1, s2, o2):
        self.a = Fraction(s1) / Fraction(s2)
        self.b = Fraction(o2) - Fraction(o1) * self.a

    def __call__(self, v) -> Fraction:
        return self.a * Fraction(v) + self.b


def bound(v, s1, o1, s2, o2) -> float:
    """Rounding bound of one conversion of v.

    Four operations (subtract, multiply, divide, add), each with relative error <= eps/2, give
    |got - f(v)| <= 2*eps*|x| + eps/2*|o2| (+ second order terms) with x = (v - o1)*s1/s2, |x| <= (|v|+|o1|)*|s1/s2|.
    K = 4 times eps times (|v|+|o1|)*|s1/s2| + |o2| is twice that; it also covers the variants that skip zero
    offsets or multiply by the precomputed ratio s1/s2 (fewer or equally many roundings)."""
    return K * EPS * ((abs(v) + abs(o1)) * abs(s1 / s2) + abs(o2)) + TINY


def bound_there_and_back(v, y, s1, o1, s2, o2) -> float:
    """|g(y') - v| where y' is the observed result of converting v (within bound of f(v)) and g converts back:
    the error of the first leg is magnified by |s2/s1| and the second leg adds its own rounding."""
    return abs(s2 / s1) * bound(v, s1, o1, s2, o2) + bound(y, s2, o2, s1, o1)


def bound_via(v, y, s1, o1, s2, o2, s3, o3) -> float:
    """|conv(conv(v, 1->2), 2->3) - conv(v, 1->3)| with y the observed intermediate result."""
    return bound(v, s1, o1, s3, o3) + abs(s2 / s3) * bound(v, s1, o1, s2, o2) + bound(y, s2, o2, s3, o3)


def within(got, want: Fraction, tol: float) -> bool:
    """got is a finite float within tol of the rational want."""
    if not isinstance(got, float) or got != got or got in (float('inf'), float('-inf')):
        return False
    return abs(Fraction(got) - want) <= Fraction(tol)


# ---------------------------------------------------------------------------------------------
# The OSDD table, read independently of TotalDepth's loader
# ---------------------------------------------------------------------------------------------
def osdd_path(repo_src):
    return os.path.join(repo_src, 'TotalDepth', 'common', 'data', 'osdd_units.json')


def load_osdd(repo_src):
    """{code: (code, name, standard_form, dimension, scale, offset)} straight from the JSON file."""
    with open(osdd_path(repo_src)) as f:
        raw = json.load(f)
    return {k: tuple(v) for k, v in raw.items()}


def by_dimension(table):
    """{dimension: [code, ...]} for the named dimensions, codes sorted (deterministic order)."""
    ret = {}
    for code in sorted(table):
        dim = table[code][3]
        if dim:
            ret.setdefault(dim, []).append(code)
    return ret
