"""Plain-list reference model of run-length encoded number sequences (C16, reused by C18).

A *run* is the triple ``(first, stride, repeat)`` of the property's state description: ``first`` is the first value,
``stride`` the increment and ``repeat`` the number of *further* values, so a run denotes ``repeat + 1`` numbers.
Everything here is ordinary list arithmetic; nothing is shared with TotalDepth.
"""
import sys

EPS = sys.float_info.epsilon
TINY = 4 * 5e-324  # absolute slack for the subnormal range, where a relative bound is meaningless


# ---------------------------------------------------------------------------------------------
# expansion / encoding
# ---------------------------------------------------------------------------------------------
def expand(first, stride, repeat):
    """The ``repeat + 1`` numbers denoted by one run.  Exact for ints; floats: one product and one sum each."""
    if repeat < 0:
        raise ValueError('repeat must be >= 0')
    return [first] + [first + k * stride for k in range(1, repeat + 1)]


def expand_items(items):
    """Concatenation of the expansions of ``[(first, stride, repeat), ...]``."""
    ret = []
    for first, stride, repeat in items:
        ret.extend(expand(first, stride, repeat))
    return ret


def expand_range(start, stop, step):
    """Numbers of a ``range(start, stop, step)`` style description (the XML index writes ranges like that)."""
    return list(range(start, stop, step))


def encode(seq):
    """Greedy reference encoder: extend the last run while the next value continues it, else start a new run.
    Exact comparison (used for ints and for counting runs of float lists built on purpose)."""
    items = []
    for v in seq:
        if items:
            first, stride, repeat = items[-1]
            if repeat == 0:
                items[-1] = (first, v - first, 1)
                continue
            if v == first + stride * (repeat + 1):
                items[-1] = (first, stride, repeat + 1)
                continue
        items.append((v, 0, 0))
    return items


def count_runs(seq):
    return len(encode(seq))


# ---------------------------------------------------------------------------------------------
# list queries
# ---------------------------------------------------------------------------------------------
def is_ascending(seq):
    """Non-decreasing."""
    return all(a <= b for a, b in zip(seq, seq[1:]))


def is_strictly_ascending(seq):
    return all(a < b for a, b in zip(seq, seq[1:]))


def has_equal_neighbours(seq):
    return any(a == b for a, b in zip(seq, seq[1:]))


def largest_le(seq, q):
    """Largest member of seq that is <= q, or None when there is none (no ordering of seq assumed)."""
    cands = [v for v in seq if v <= q]
    return max(cands) if cands else None


def index_valid(n, i):
    return -n <= i < n


# ---------------------------------------------------------------------------------------------
# float tolerances
# ---------------------------------------------------------------------------------------------
def magnitude(seq):
    return max([abs(v) for v in seq] or [0.0])


def tol_index(seq):
    """Bound for a float recovered by position (also first, last, largest_le).

    A run can only hold ``first + k*stride``: the stride is a rounded difference of two members (error
    <= eps/2 * 2M), the product and the sum round once each (<= eps/2 * 2M and eps/2 * M) and a member may have been
    accepted into the run although it differs from that expression by one unit in the last place (eps * M):
    together < 3.5 * eps * M; 4 * eps * M is used.  M = max |member|."""
    return 4 * EPS * magnitude(seq) + TINY


def tol_iteration(seq):
    """Bound for floats recovered by iteration, which may accumulate one rounding (eps/2 * M) per step on top of
    the positional bound."""
    return (0.5 * len(seq) + 4) * EPS * magnitude(seq) + TINY


# ---------------------------------------------------------------------------------------------
# LIS type 0/1 frame index: records are (position, frames, x)
# ---------------------------------------------------------------------------------------------
def total_frames(triples):
    return sum(t[1] for t in triples)


def frame_locate(triples, f):
    """(position of the record that contains frame f, offset of f inside that record) or None if out of range."""
    if f < 0:
        return None
    before = 0
    for pos, frames, _x in triples:
        if f < before + frames:
            return pos, f - before
        before += frames
    return None


def encode_type01(triples):
    """Greedy reference grouping of records: a group continues while the frame count is unchanged and the
    position continues the arithmetic progression of the group.  Returns [(first_pos, stride, repeat, frames)]."""
    items = []
    for pos, frames, _x in triples:
        if items:
            first, stride, repeat, fr = items[-1]
            if fr == frames:
                if repeat == 0:
                    items[-1] = (first, pos - first, 1, fr)
                    continue
                if pos == first + stride * (repeat + 1):
                    items[-1] = (first, stride, repeat + 1, fr)
                    continue
        items.append((pos, 0, 0, frames))
    return items
