"""Exact reference decoders for LIS-79 and RP66V1 representation codes, written from the bit layouts in the
standards (LIS-79 Appendix B; RP66V1 Appendix B).  Scalar forms return fractions.Fraction / int (exact); the
``*_vec`` forms are numpy vectorised versions for whole-word sweeps, cross-checked against the scalar forms by
``self_check()``.  Nothing here imports TotalDepth.
"""
import math
import struct
from fractions import Fraction

import numpy as np


def _signed(v, bits):
    return v - (1 << bits) if v & (1 << (bits - 1)) else v


def pow2(e):
    return Fraction(2) ** e


# ------------------------------------------------------------------------------ LIS-79
def lis49(w):
    """16 bit floating point: 12 bit two's complement fraction (bits 15..4), 4 bit unsigned exponent."""
    m = _signed((w >> 4) & 0xFFF, 12)
    return Fraction(m, 1 << 11) * pow2(w & 0xF)


def lis50(w):
    """32 bit low resolution floating point: 16 bit two's complement exponent, 16 bit two's complement fraction."""
    e = _signed((w >> 16) & 0xFFFF, 16)
    m = _signed(w & 0xFFFF, 16)
    return Fraction(m, 1 << 15) * pow2(e)


def lis56(w):
    return _signed(w & 0xFF, 8)


def lis66(w):
    return w & 0xFF


def lis68(w):
    """32 bit floating point: sign, 8 bit excess-128 exponent (one's complemented for negative numbers), 23 bit
    fraction; sign + fraction form a 24 bit two's complement fraction."""
    s = (w >> 31) & 1
    e = (w >> 23) & 0xFF
    m = w & 0x7FFFFF
    if s:
        return Fraction(m - (1 << 23), 1 << 23) * pow2(127 - e)
    return Fraction(m, 1 << 23) * pow2(e - 128)


def lis70(w):
    """32 bit fixed point: two's complement with the binary point after bit 16."""
    return Fraction(_signed(w & 0xFFFFFFFF, 32), 1 << 16)


def lis73(w):
    return _signed(w & 0xFFFFFFFF, 32)


def lis77(w):
    return w & 0xFF


def lis79(w):
    return _signed(w & 0xFFFF, 16)


LIS = {49: (lis49, 2), 50: (lis50, 4), 56: (lis56, 1), 66: (lis66, 1), 68: (lis68, 4), 70: (lis70, 4), 73: (lis73, 4),
       77: (lis77, 1), 79: (lis79, 2)}


def as_double(fr):
    """The double nearest to an exact value: ('ok', float) when finite, ('overflow', None) when beyond doubles.
    Values below the smallest subnormal round to 0.0 / a subnormal by the usual rule."""
    if isinstance(fr, int):
        return 'ok', float(fr)
    try:
        return 'ok', float(fr)   # Fraction.__float__ is correctly rounded (integer division based)
    except OverflowError:
        return 'overflow', None


def exactly_representable(fr):
    st_, d = as_double(fr)
    return st_ == 'ok' and Fraction(d) == fr


# vectorised (float64 results are exact for all of these: <= 24 significant bits, exponent within range)
def lis68_vec(w):
    w = w.astype(np.int64)
    s = (w >> 31) & 1
    e = (w >> 23) & 0xFF
    m = w & 0x7FFFFF
    mant = np.where(s == 1, m - (1 << 23), m).astype(np.float64)
    exp = np.where(s == 1, 127 - e, e - 128) - 23
    return np.ldexp(mant, exp.astype(np.int32))


def lis70_vec(w):
    w = w.astype(np.int64)
    v = np.where(w & 0x80000000, w - (1 << 32), w)
    return v.astype(np.float64) / 65536.0


def lis50_vec(w):
    """Returns (values, finite_mask).  Where the exact value is beyond +-DBL_MAX finite_mask is False; values whose
    magnitude is below 2^-1074 come out as (signed) zero - correct rounding."""
    w = w.astype(np.int64)
    e = (w >> 16) & 0xFFFF
    e = np.where(e & 0x8000, e - 0x10000, e)
    m = w & 0xFFFF
    m = np.where(m & 0x8000, m - 0x10000, m)
    ee = np.clip(e - 15, -2000, 2000).astype(np.int32)
    with np.errstate(over='ignore', under='ignore'):
        v = np.ldexp(m.astype(np.float64), ee)
    return v, np.isfinite(v)


# ------------------------------------------------------------------------------ RP66V1
def fsingl(b):
    """IEEE 754 single, big endian.  Returns Fraction or 'nan' / 'inf' / '-inf'."""
    w = int.from_bytes(b[:4], 'big')
    s, e, m = w >> 31, (w >> 23) & 0xFF, w & 0x7FFFFF
    if e == 255:
        return 'nan' if m else ('-inf' if s else 'inf')
    v = Fraction(m, 1 << 23) * pow2(-126) if e == 0 else (1 + Fraction(m, 1 << 23)) * pow2(e - 127)
    return -v if s else v


def fdoubl(b):
    w = int.from_bytes(b[:8], 'big')
    s, e, m = w >> 63, (w >> 52) & 0x7FF, w & ((1 << 52) - 1)
    if e == 2047:
        return 'nan' if m else ('-inf' if s else 'inf')
    v = Fraction(m, 1 << 52) * pow2(-1022) if e == 0 else (1 + Fraction(m, 1 << 52)) * pow2(e - 1023)
    return -v if s else v


def isingl(b):
    """IBM System/360 single: sign, 7 bit excess-64 base 16 exponent, 24 bit fraction."""
    s = b[0] >> 7
    e = b[0] & 0x7F
    m = (b[1] << 16) | (b[2] << 8) | b[3]
    v = Fraction(m, 1 << 24) * Fraction(16) ** (e - 64)
    return -v if s else v


def vsingl(b):
    """VAX F floating as stored by RP66V1 (byte order 2-1-4-3 of the big-endian picture):
    byte1 = E(low bit) M(22..16), byte0... see RP66V1 B.6.  value = (-1)^s * (0.5 + m/2^24) * 2^(e-128);
    e == 0 and s == 0 is zero; e == 0 and s == 1 is a reserved operand (returns None)."""
    s = b[1] >> 7
    e = ((b[1] & 0x7F) << 1) | (b[0] >> 7)
    m = ((b[0] & 0x7F) << 16) | (b[3] << 8) | b[2]
    if e == 0:
        return Fraction(0) if s == 0 else None
    v = (Fraction(1, 2) + Fraction(m, 1 << 24)) * pow2(e - 128)
    return -v if s else v


def isingl_vec(w):
    w = w.astype(np.int64)
    s = (w >> 31) & 1
    e = ((w >> 24) & 0x7F) - 64
    m = (w & 0xFFFFFF).astype(np.float64)
    v = np.ldexp(m, (4 * e - 24).astype(np.int32))
    return np.where(s == 1, -v, v)


def vsingl_vec(w):
    """w = big-endian integer of the four bytes as stored.  Returns (values, defined_mask)."""
    w = w.astype(np.int64)
    b0, b1, b2, b3 = (w >> 24) & 0xFF, (w >> 16) & 0xFF, (w >> 8) & 0xFF, w & 0xFF
    s = b1 >> 7
    e = ((b1 & 0x7F) << 1) | (b0 >> 7)
    m = ((b0 & 0x7F) << 16) | (b3 << 8) | b2
    v = np.ldexp(((1 << 23) + m).astype(np.float64), (e - 128 - 24).astype(np.int32))
    v = np.where(s == 1, -v, v)
    v = np.where(e == 0, 0.0, v)
    return v, ~((e == 0) & (s == 1))


def sshort(b):
    return _signed(b[0], 8)


def snorm(b):
    return _signed(int.from_bytes(b[:2], 'big'), 16)


def slong(b):
    return _signed(int.from_bytes(b[:4], 'big'), 32)


def ushort(b):
    return b[0]


def unorm(b):
    return int.from_bytes(b[:2], 'big')


def ulong(b):
    return int.from_bytes(b[:4], 'big')


RP66_FIXED = {2: ('FSINGL', fsingl, 4), 5: ('ISINGL', isingl, 4), 6: ('VSINGL', vsingl, 4), 7: ('FDOUBL', fdoubl, 8),
              12: ('SSHORT', sshort, 1), 13: ('SNORM', snorm, 2), 14: ('SLONG', slong, 4), 15: ('USHORT', ushort, 1),
              16: ('UNORM', unorm, 2), 17: ('ULONG', ulong, 4), 26: ('STATUS', ushort, 1)}


class Truncated(Exception):
    pass


def _need(b, i, n):
    if i + n > len(b):
        raise Truncated()


def uvari(b, i=0):
    """Returns (value, bytes consumed).  1 byte 0xxxxxxx, 2 bytes 10xxxxxx.., 4 bytes 11xxxxxx..."""
    _need(b, i, 1)
    v = b[i]
    if v & 0x80 == 0:
        return v, 1
    if v & 0xC0 == 0x80:
        _need(b, i, 2)
        return ((v & 0x3F) << 8) | b[i + 1], 2
    _need(b, i, 4)
    return ((v & 0x3F) << 24) | (b[i + 1] << 16) | (b[i + 2] << 8) | b[i + 3], 4


def ident(b, i=0):
    _need(b, i, 1)
    n = b[i]
    _need(b, i + 1, n)
    return bytes(b[i + 1:i + 1 + n]), 1 + n


def ascii_(b, i=0):
    n, k = uvari(b, i)
    _need(b, i + k, n)
    return bytes(b[i + k:i + k + n]), k + n


def dtime(b, i=0):
    _need(b, i, 8)
    y, tzm, d, h, mn, s = b[i], b[i + 1], b[i + 2], b[i + 3], b[i + 4], b[i + 5]
    ms = (b[i + 6] << 8) | b[i + 7]
    return {'year': 1900 + y, 'tz': tzm >> 4, 'month': tzm & 0xF, 'day': d, 'hour': h, 'minute': mn, 'second': s,
            'millisecond': ms}, 8


def obname(b, i=0):
    o, k1 = uvari(b, i)
    _need(b, i + k1, 1)
    c = b[i + k1]
    idt, k3 = ident(b, i + k1 + 1)
    return (o, c, idt), k1 + 1 + k3


def objref(b, i=0):
    t, k1 = ident(b, i)
    n, k2 = obname(b, i + k1)
    return (t, n), k1 + k2


RP66_VARIABLE = {18: ('UVARI', uvari), 19: ('IDENT', ident), 20: ('ASCII', ascii_), 21: ('DTIME', dtime),
                 22: ('ORIGIN', uvari), 23: ('OBNAME', obname), 24: ('OBJREF', objref), 27: ('UNITS', ident)}


# encoders (independent; used by generators)
def enc_uvari(v, width=None):
    if width is None:
        width = 1 if v < 0x80 else (2 if v < 0x4000 else 4)
    if width == 1:
        assert v < 0x80
        return bytes([v])
    if width == 2:
        assert v < 0x4000
        return bytes([0x80 | (v >> 8), v & 0xFF])
    assert v < 0x40000000
    return bytes([0xC0 | (v >> 24), (v >> 16) & 0xFF, (v >> 8) & 0xFF, v & 0xFF])


def enc_ident(s):
    assert len(s) <= 255
    return bytes([len(s)]) + bytes(s)


def enc_ascii(s, width=None):
    return enc_uvari(len(s), width) + bytes(s)


def enc_obname(o, c, i, width=None):
    return enc_uvari(o, width) + bytes([c]) + enc_ident(i)


def enc_objref(t, o, c, i, width=None):
    return enc_ident(t) + enc_obname(o, c, i, width)


def enc_dtime(d):
    return bytes([d['year'] - 1900, (d['tz'] << 4) | d['month'], d['day'], d['hour'], d['minute'], d['second'],
                  d['millisecond'] >> 8, d['millisecond'] & 0xFF])


def self_check():
    """Scalar and vectorised references agree on a spread of words (AssertionError otherwise)."""
    ws = np.array([0, 1, 0x444C8000, 0xBBB38000, 0x7FFFFFFF, 0x80000000, 0xFFC00000, 0x40000000, 0x00084C80, 0xFFFF4000,
                   0x0008B380, 0x19440000, 0x42990000, 0xC2990000, 0x00FFFFFF, 0x7F000001, 0xFF7FFFFF, 0x12345678,
                   0x80000001, 0x807FFFFF, 0x3F800000, 0xC0800000, 0x04004000, 0x8000FFFF, 0x03FF7FFF, 0xFC010001],
                  dtype=np.uint64)
    v68 = lis68_vec(ws)
    v70 = lis70_vec(ws)
    v50, f50 = lis50_vec(ws)
    vi = isingl_vec(ws)
    vv, dv = vsingl_vec(ws)
    for k, w in enumerate(int(x) for x in ws):
        assert Fraction(float(v68[k])) == lis68(w), ('68', hex(w))
        assert Fraction(float(v70[k])) == lis70(w), ('70', hex(w))
        st_, d = as_double(lis50(w))
        if st_ == 'overflow':
            assert not f50[k], ('50 overflow', hex(w))
        else:
            assert f50[k] and float(v50[k]) == d, ('50', hex(w), float(v50[k]), d)
        b = w.to_bytes(4, 'big')
        assert Fraction(float(vi[k])) == isingl(b), ('isingl', hex(w))
        r = vsingl(b)
        assert (r is None) == (not dv[k]), ('vsingl defined', hex(w))
        if r is not None:
            assert Fraction(float(vv[k])) == r, ('vsingl', hex(w))
        f = fsingl(b)
        g = struct.unpack('>f', b)[0]
        if isinstance(f, str):
            assert (f == 'nan' and math.isnan(g)) or float(f) == g
        else:
            assert Fraction(g) == f, ('fsingl', hex(w))
    assert lis68(0x444C8000) == 153 and lis68(0xBBB38000) == -153
    assert lis49(0x4C88) == 153 and lis49(0xB388) == -153
    assert lis50(0x00084C80) == 153 and lis50(0x0008B380) == -153
    assert isingl(bytes([0x42, 0x99, 0, 0])) == 153 and vsingl(bytes([0x19, 0x44, 0, 0])) == 153
    assert lis70(0x00990000) == 153 and lis70(0xFF670000) == -153
    assert uvari(enc_uvari(300))[0] == 300 and uvari(enc_uvari(5, 4)) == (5, 4)
