"""Decimal-exact reading of numbers printed in LAS text, and the typing rule for header values.

Written from the lexical grammar of decimal numerals (and, for ``classify_value``, from the grammar
that Python's ``int()`` / ``float()`` document); nothing here calls TotalDepth and nothing converts a
token with ``float(token)`` - values are exact ``fractions.Fraction`` objects.

    parse_number('  -12.340e+2 ') -> Printed(value=Fraction(-1234), decimals=3, exponent=2, text='-12.340e+2')
        .unit       == Fraction(10) ** (exponent - decimals)     value of one unit of the last printed digit
        .half_unit  == unit / 2                                  the "half a unit of the last printed decimal"
        .as_float() correctly rounded binary64 (what a correct reader must return)
    parse_number('abc') -> None            not a plain decimal numeral
"""
import re
import typing
from fractions import Fraction

#: A plain decimal numeral: optional sign, digits with an optional point (at least one digit), optional exponent.
#: Deliberately narrower than what Python's float() accepts: no 'inf', 'nan', no underscores, ASCII digits only.
RE_NUMBER = re.compile(r'^([+-]?)(?:([0-9]+)(?:\.([0-9]*))?|\.([0-9]+))(?:[eE]([+-]?[0-9]+))?$')

#: What Python's int(str) accepts after stripping (base 10, ASCII): sign, digits, single underscores between digits.
RE_PY_INT = re.compile(r'^[+-]?[0-9]+(?:_[0-9]+)*$')
_DIG = r'[0-9]+(?:_[0-9]+)*'
#: What Python's float(str) accepts after stripping (ASCII).
RE_PY_FLOAT = re.compile(
    r'^[+-]?(?:(?:%s\.?(?:%s)?|\.%s)(?:[eE][+-]?%s)?|inf|infinity|nan)$' % (_DIG, _DIG, _DIG, _DIG), re.IGNORECASE)

_INF = 1e308 * 10.0
_NAN = _INF - _INF

#: Characters that str.strip() / str.split() treat as white space within ASCII.
ASCII_WS = ' \t\n\r\x0b\x0c\x1c\x1d\x1e\x1f'


class Printed(typing.NamedTuple):
    value: Fraction
    decimals: int   # digits printed after the decimal point of the mantissa
    exponent: int   # power of ten of the exponent part (0 when absent)
    text: str       # the stripped token

    @property
    def unit(self) -> Fraction:
        """Value of one unit of the last printed digit."""
        return Fraction(10) ** (self.exponent - self.decimals)

    @property
    def half_unit(self) -> Fraction:
        return self.unit / 2

    def as_float(self) -> float:
        return fraction_to_float(self.value)

    @property
    def negative_sign(self) -> bool:
        return self.text.startswith('-')


def fraction_to_float(q: Fraction) -> float:
    """Correctly rounded binary64 of an exact rational (int / int true division is correctly rounded);
    +-inf beyond the range as IEEE-754 round-to-nearest prescribes."""
    try:
        return q.numerator / q.denominator
    except OverflowError:
        return float('inf') if q > 0 else float('-inf')


def parse_number(token: str) -> typing.Optional[Printed]:
    t = token.strip(ASCII_WS)
    m = RE_NUMBER.match(t)
    if m is None:
        return None
    sign, ip, fp, fp_only, ex = m.groups()
    if fp_only is not None:
        ip, fp = '', fp_only
    fp = fp or ''
    exponent = int(ex) if ex else 0
    mant = int((ip + fp) or '0')
    value = Fraction(mant) * Fraction(10) ** (exponent - len(fp))
    if sign == '-':
        value = -value
    return Printed(value, len(fp), exponent, t)


def is_number(token: str) -> bool:
    return RE_NUMBER.match(token.strip(ASCII_WS)) is not None


def to_float(token: str) -> typing.Optional[float]:
    p = parse_number(token)
    return None if p is None else p.as_float()


def python_floatable(token: str) -> bool:
    """True when Python's float() would accept the text (used to keep 'unparseable' tokens unambiguous)."""
    return RE_PY_FLOAT.match(token.strip(ASCII_WS)) is not None


def classify_value(text: str):
    """The typing rule of a LAS header value: integer, else float, else yes/no, else stripped text.
    Returns (kind, value) with kind in 'int', 'float', 'bool', 'text'.  'int' and 'float' cover everything that
    Python's int() / float() accept for ASCII text (underscore forms, 'inf', 'infinity', 'nan')."""
    t = text.strip(ASCII_WS)
    if RE_PY_INT.match(t):
        return 'int', int(parse_number(t.replace('_', '')).value)
    if RE_PY_FLOAT.match(t):
        p = parse_number(t.replace('_', ''))
        if p is not None:
            return 'float', p.as_float()
        body = t.lstrip('+-').lower()
        sign = -1.0 if t.startswith('-') else 1.0
        return 'float', sign * (_NAN if body == 'nan' else _INF)
    if t.lower() == 'yes':
        return 'bool', True
    if t.lower() == 'no':
        return 'bool', False
    return 'text', t


def retypeable(text: str) -> bool:
    """True when the typing rule would turn the text into something other than the same (stripped) text."""
    return classify_value(text)[0] != 'text'


def same_typed(a, b) -> bool:
    """Equality that distinguishes True from 1 and 1 from 1.0, and treats nan as equal to nan."""
    if type(a) is not type(b):
        return False
    if isinstance(a, float) and a != a:
        return b != b
    return a == b
