"""Exact reference model of the IBM System/360 single precision ("hexadecimal") floating point word.

Layout of the 32 bit big-endian word (IBM Principles of Operation; RP66V1 Appendix B code 5, ISINGL):

    bit 31      sign S
    bits 30-24  characteristic E (excess 64, radix 16)
    bits 23-0   fraction M (24 bits, binary point to the left of the most significant bit)

    value = (-1)^S * (M / 2^24) * 16^(E - 64)

Every one of the 2^32 words denotes a finite rational; there are no infinities or NaNs, a zero fraction is
zero whatever S and E are, and un-normalised words (leading hex digit of M zero) are legal and just less
precise.  The smallest non-zero magnitude is 2^-24 * 16^-64 = 2^-280 and every value has at most 24
significant bits, so **every IBM single is exactly representable as an IEEE double** - ``float(ibm_fraction(w))``
involves no rounding and exact equality is the right oracle for any decoder that returns a double.

Nothing in this module imports the code under test.

    ibm_fields(word)         -> (sign, characteristic, fraction)
    ibm_fraction(word)       -> fractions.Fraction           exact
    ibm_float(word)          -> float                        exact (checked)
    ibm_bytes(word)          -> 4 bytes big-endian ; ibm_word(bytes) the inverse
    ibm_to_float64(words)    -> numpy float64 array from a uint32 array (vectorised, exact: integer -> ldexp)
    is_normalised(word)      -> leading hex digit non-zero, or true zero (word 0)
    fraction_to_ibm_word(q, rounding='nearest'|'truncate') -> (word, exact) normalised encoding of a rational
    float_to_ibm_word(x, ...) -> word
    boundary_fractions()     -> list of 24 bit fractions at the boundaries decoders get wrong
    self_check()             -> raises AssertionError when the vectorised and exact forms disagree
"""
import fractions
import math

import numpy as np

Fraction = fractions.Fraction

WORD_MAX = 0xFFFFFFFF
FRACTION_BITS = 24
FRACTION_MOD = 1 << FRACTION_BITS  # 2^24
EXCESS = 64


def ibm_fields(word: int):
    if not 0 <= word <= WORD_MAX:
        raise ValueError('not a 32 bit word: %r' % (word,))
    return (word >> 31) & 1, (word >> 24) & 0x7F, word & 0xFFFFFF


def ibm_fraction(word: int) -> Fraction:
    """The rational number the word denotes, exactly."""
    s, e, m = ibm_fields(word)
    q = Fraction(m, FRACTION_MOD) * Fraction(16) ** (e - EXCESS)
    return -q if s else q


def ibm_float(word: int) -> float:
    """The same number as an IEEE double; exact by the argument in the module docstring (and verified)."""
    q = ibm_fraction(word)
    f = float(q)
    if Fraction(f) != q:  # cannot happen; kept as an executable statement of the claim
        raise AssertionError('IBM single %08x is not exactly representable as a double' % word)
    return f


def ibm_bytes(word: int) -> bytes:
    return int(word).to_bytes(4, 'big')


def ibm_word(b: bytes) -> int:
    if len(b) != 4:
        raise ValueError('need 4 bytes')
    return int.from_bytes(b, 'big')


def is_normalised(word: int) -> bool:
    s, e, m = ibm_fields(word)
    if m == 0:
        return word == 0
    return m >= 0x100000


def ibm_to_float64(words) -> np.ndarray:
    """Vectorised decoder for an array of uint32 words (native integers, not bytes).
    Integer field extraction followed by ldexp, which is exact for these magnitudes."""
    w = np.asarray(words)
    if w.dtype != np.uint32:
        w = w.astype(np.uint32)
    m = (w & np.uint32(0xFFFFFF)).astype(np.float64)                    # < 2^24: exact
    e = ((w >> np.uint32(24)) & np.uint32(0x7F)).astype(np.int32)
    mag = np.ldexp(m, 4 * (e - EXCESS) - FRACTION_BITS)                  # 2^-280 .. < 2^252: exact, no denormals
    return np.where((w >> np.uint32(31)) != 0, -mag, mag)


def words_to_bytes(words) -> bytes:
    """Big-endian byte string of an array of uint32 words."""
    return np.asarray(words, dtype=np.uint32).astype('>u4').tobytes()


def fraction_to_ibm_word(q, rounding='nearest'):
    """Normalised IBM single nearest to (or truncated towards zero from) the rational q.
    Returns (word, exact).  Magnitudes above the largest IBM single saturate, below the smallest normalised
    magnitude flush to un-normalised / zero (exact == False whenever q is not reproduced)."""
    q = Fraction(q)
    if q == 0:
        return 0, True
    s = 1 if q < 0 else 0
    a = -q if s else q
    # find e with 1/16 <= a / 16^(e-64) < 1
    e = EXCESS
    while a >= Fraction(16) ** (e - EXCESS):
        e += 1
    while a < Fraction(16) ** (e - EXCESS - 1):
        e -= 1
    if e > 127:
        return (s << 31) | (127 << 24) | 0xFFFFFF, False
    if e < 0:
        e = 0  # un-normalised representation of tiny numbers
    scaled = a * FRACTION_MOD / Fraction(16) ** (e - EXCESS)
    m = scaled.numerator // scaled.denominator
    rem = scaled - m
    if rounding == 'nearest' and (rem > Fraction(1, 2) or (rem == Fraction(1, 2) and m & 1)):
        m += 1
    if m >= FRACTION_MOD:  # rounded up into the next hex digit
        m >>= 4
        e += 1
        if e > 127:
            return (s << 31) | (127 << 24) | 0xFFFFFF, False
    word = (s << 31) | (e << 24) | m
    if m == 0:
        return 0, False
    return word, ibm_fraction(word) == q


def float_to_ibm_word(x: float, rounding='nearest') -> int:
    if not math.isfinite(x):
        raise ValueError('IBM single has no representation of %r' % x)
    return fraction_to_ibm_word(Fraction(x), rounding)[0]


def boundary_fractions():
    """24 bit fractions where decoders typically go wrong: 0, single bits, all-ones runs, the normalisation
    boundary 0x0FFFFF/0x100000, byte boundaries, and the extremes."""
    out = {0, 1, 2, 3, 0xF, 0x10, 0x11, 0xFF, 0x100, 0x101, 0xFFFF, 0x10000, 0x10001, 0x0FFFFF, 0x100000, 0x100001,
           0x7FFFFF, 0x800000, 0x800001, 0xFFFFFE, 0xFFFFFF, 0x99A000, 0x76A000, 0x68DB8B, 0xAAAAAA, 0x555555,
           0xFF00FF, 0x00FF00, 0xF0F0F0, 0x0F0F0F, 0x123456, 0xFEDCBA}
    for k in range(FRACTION_BITS):
        out.add(1 << k)
        out.add((1 << k) - 1)
        out.add(FRACTION_MOD - (1 << k))
        out.add((FRACTION_MOD - 1) ^ (1 << k))
    return sorted(out)


def boundary_words():
    """A few thousand words: every (sign, characteristic) with a handful of fractions, and every boundary fraction
    with a handful of characteristics."""
    fr = boundary_fractions()
    few = [0, 1, 0x0FFFFF, 0x100000, 0x800000, 0xFFFFFF]
    out = set()
    for top in range(256):
        for m in few:
            out.add((top << 24) | m)
    for top in (0x00, 0x01, 0x3F, 0x40, 0x41, 0x42, 0x46, 0x47, 0x7E, 0x7F, 0x80, 0xC0, 0xC1, 0xC2, 0xFF):
        for m in fr:
            out.add((top << 24) | m)
    return sorted(out)


_checked = False


def self_check():
    """Cross-check of the vectorised form against the exact rational form (and of the encoder against the decoder)."""
    global _checked
    if _checked:
        return
    ws = boundary_words()
    vec = ibm_to_float64(np.array(ws, dtype=np.uint32))
    for w, v in zip(ws, vec.tolist()):
        f = ibm_float(w)
        if f != v or (f == 0) != (w & 0xFFFFFF == 0):
            raise AssertionError('ibm_to_float64(%08x) = %r, exact %r' % (w, v, f))
        s, e, m = ibm_fields(w)
        if m and math.copysign(1.0, v) != (-1.0 if s else 1.0):
            raise AssertionError('sign of %08x' % w)
    # published examples: 0xC276A000 = -118.625 (Wikipedia / ReadBIT docstring), 0x42640000 = 100, 0x41100000 = 1
    known = {0xC276A000: -118.625, 0x42640000: 100.0, 0x41100000: 1.0, 0x40800000: 0.5, 0x00000000: 0.0,
             0x4110000A: 1.0 + 10 * 2.0 ** -20, 0x7FFFFFFF: (1 - 2.0 ** -24) * 16.0 ** 63, 0x00000001: 2.0 ** -280,
             0x42990000: 153.0}
    for w, v in known.items():
        if ibm_float(w) != v or float(ibm_to_float64(np.array([w], dtype=np.uint32))[0]) != v:
            raise AssertionError('known value %08x' % w)
    for w in ws:
        if is_normalised(w):
            back, exact = fraction_to_ibm_word(ibm_fraction(w))
            if back != w or not exact:
                raise AssertionError('encoder does not invert decoder at %08x -> %08x' % (w, back))
    if float_to_ibm_word(-118.625) != 0xC276A000 or float_to_ibm_word(0.25) != 0x40400000:
        raise AssertionError('encoder')
    _checked = True
