#!/venv/bin/python
"""libFuzzer target (atheris) for C20: binary_file_type(io.BytesIO(data)) must return a documented code or '', raise
nothing and leave the file at offset 0.  Deviations do not stop the campaign: the input is saved as
$VERIF_C20_CRASH_DIR/dev-<bucket>-<n> (at most 3 per bucket) and the search goes on."""
import hashlib
import io
import logging
import os
import sys

HERE = os.path.dirname(os.path.abspath(__file__))
VERIF = os.path.dirname(os.path.dirname(HERE))
REPO = os.environ.get('VERIF_REPO', '/repo')
sys.path.insert(0, os.path.join(REPO, 'src'))
sys.path.insert(1, VERIF)
sys.path.append(os.path.join(VERIF, '.deps'))
logging.disable(logging.CRITICAL)

import atheris  # noqa: E402

from vt import build_ext  # noqa: E402
build_ext.install()
with atheris.instrument_imports(include=['TotalDepth']):
    from TotalDepth.util import bin_file_type  # noqa: E402

from vt.engine import exc_sig  # noqa: E402

CRASH_DIR = os.environ.get('VERIF_C20_CRASH_DIR', '/tmp')
SEEN = {}


def save(bucket, data):
    n = SEEN.get(bucket, 0)
    if n >= 3:
        return
    SEEN[bucket] = n + 1
    tag = hashlib.sha1(bucket.encode()).hexdigest()[:10]
    with open(os.path.join(CRASH_DIR, 'dev-%s-%d' % (tag, n)), 'wb') as f:
        f.write(data)


def one_input(data):
    fobj = io.BytesIO(data)
    try:
        res = bin_file_type.binary_file_type(fobj)
    except Exception as err:  # noqa
        save(exc_sig(err), data)
        return
    if not isinstance(res, str) or (res and res not in bin_file_type.BINARY_FILE_TYPES_SUPPORTED):
        save('undocumented', data)
    elif fobj.tell() != 0:
        save('tell', data)


if __name__ == '__main__':
    atheris.Setup(sys.argv, one_input)
    atheris.Fuzz()
