"""./check Cxx [--tier quick|thorough] [--replay file]

Exit codes: 0 property held on everything explored (KNOWN-FINDING lines may be printed);
1 at least one violation that known_findings.json does not list (VIOLATION lines printed);
2 harness error (never a verdict about the code under test).
"""
import argparse
import glob
import importlib
import json
import os
import subprocess
import sys
import tempfile
import time
import traceback

VERIF = os.path.dirname(os.path.dirname(os.path.abspath(__file__)))
REPO = os.environ.get('VERIF_REPO', '/repo')


def _prepare_paths():
    src = os.path.join(REPO, 'src')
    if src in sys.path:
        sys.path.remove(src)
    sys.path.insert(0, src)
    deps = os.path.join(VERIF, '.deps')
    if os.path.isdir(deps) and deps not in sys.path:
        sys.path.append(deps)
    if VERIF not in sys.path:
        sys.path.insert(1, VERIF)


def load_known(pid):
    path = os.path.join(VERIF, 'known_findings.json')
    if not os.path.exists(path):
        return []
    with open(path) as f:
        data = json.load(f)
    ret = [x for x in data.get('findings', []) if x.get('property') == pid]
    extra = os.environ.get('VERIF_KNOWN_EXTRA')  # development only: proposed entries not yet adjudicated
    if extra and os.path.exists(extra):
        with open(extra) as f:
            ret += [x for x in json.load(f).get('findings', []) if x.get('property') == pid]
    return ret


def load_module(pid):
    from vt import engine
    mod = importlib.import_module('vt.props.' + pid.lower())
    if getattr(mod, 'NEEDS_LIS_EXT', False):
        from vt import build_ext
        build_ext.install()
        # the module may have been imported before the extensions were installed: make sure the
        # code under test resolves to the freshly built ones
    import TotalDepth
    td = os.path.abspath(TotalDepth.__file__)
    if not td.startswith(os.path.join(REPO, 'src')):
        raise engine.HarnessError('TotalDepth imported from %s, not from %s/src' % (td, REPO))
    return mod


def get_parts(mod, tier):
    parts = mod.parts(tier)
    names = [p.name for p in parts]
    if len(set(names)) != len(names):
        from vt import engine
        raise engine.HarnessError('duplicate part names')
    return parts


def run_shard(pid, tier, seed, shard, nshards, only=None):
    from vt import engine
    mod = load_module(pid)
    ctx = engine.Ctx(pid, tier, seed, load_known(pid), shard, nshards)
    for part in get_parts(mod, tier):
        if only and part.name not in only:
            continue
        t0 = time.time()
        # the budget of a part is the total over all shards
        b = part.budget(tier)
        if isinstance(b, int) and nshards > 1 and not isinstance(part, engine.EnumPart):
            share = (b + nshards - 1) // nshards
            if tier == 'quick':
                part.quick = share
            else:
                part.thorough = share
        engine.run_part(ctx, part)
        ctx.notes['wall_' + part.name] = round(time.time() - t0, 2)
    return ctx


def replay_file(mod, tier, path, known):
    """Returns (ctx, part) after re-running the stored case once, without Hypothesis."""
    from vt import engine
    with open(path) as f:
        rep = json.load(f)
    parts = {p.name: p for p in get_parts(mod, tier)}
    part = parts.get(rep['part'])
    if part is None:
        raise engine.HarnessError('replay %s names unknown part %r' % (path, rep['part']))
    ctx = engine.Ctx(rep['property'], tier, 0, known)
    ctx.eval_case(part, engine.from_json(rep['case']))
    return ctx, rep


def write_replay(pid, bucket, tier, seed, directory):
    from vt import engine
    os.makedirs(directory, exist_ok=True)
    tag = engine.digest([bucket['part'], bucket['oracle'], bucket['signature']])[:10]
    path = os.path.join(directory, '%s-%s-%s.json' % (pid, bucket['part'], tag))
    with open(path, 'w') as f:
        json.dump({'property': pid, 'part': bucket['part'], 'oracle': bucket['oracle'],
                   'signature': bucket['signature'], 'detail': bucket['detail'], 'count': bucket['count'],
                   'found': {'tier': tier, 'seed': seed}, 'case': bucket['case']}, f, indent=1)
    return path


def main(argv=None):
    ap = argparse.ArgumentParser()
    ap.add_argument('pid')
    ap.add_argument('--tier', default=os.environ.get('VERIF_TIER') or 'quick', choices=['quick', 'thorough'])
    ap.add_argument('--replay')
    ap.add_argument('--shard', type=int, default=None)
    ap.add_argument('--nshards', type=int, default=1)
    ap.add_argument('--out')
    ap.add_argument('--part', action='append')
    ap.add_argument('--no-evidence', action='store_true')
    args = ap.parse_args(argv)
    pid = args.pid.upper()
    try:
        seed = int(os.environ.get('VERIF_SEED') or 1)
    except ValueError:
        seed = 1
    if os.environ.get('PYTHONHASHSEED') != '0':
        os.environ['PYTHONHASHSEED'] = '0'
        os.execv(sys.executable, [sys.executable, '-m', 'vt.runner'] + (argv or sys.argv[1:]))
    # ambient state is an input: the process time zone follows the seed (POSIX TZ strings, no zone database needed); nothing
    # the properties state depends on it
    os.environ['TZ'] = ('UTC0', 'JST-9', 'NST3:30', 'XXX-12:45')[seed % 4]
    time.tzset()
    _prepare_paths()
    import logging
    logging.disable(logging.CRITICAL)   # the code under test logs warnings for every odd input
    try:
        return _main(args, pid, seed)
    except SystemExit:
        raise
    except BaseException as err:  # noqa
        sys.stdout.flush()
        print('HARNESS-ERROR property=%s %r' % (pid, err))
        traceback.print_exc()
        return 2


def _main(args, pid, seed):
    from vt import engine
    t0 = time.time()
    tier = args.tier
    if args.shard is not None:
        ctx = run_shard(pid, tier, seed, args.shard, args.nshards, args.part)
        with open(args.out, 'w') as f:
            json.dump(ctx.dump(), f)
        return 0
    mod = load_module(pid)
    known = load_known(pid)
    if args.replay:
        ctx, rep = replay_file(mod, tier, args.replay, known)
        for f in known:
            if ctx.known_hits.get(f['id']):
                print('KNOWN-FINDING: property=%s %s: %s' % (pid, f['id'], f['what']))
        if ctx.buckets:
            for b in ctx.buckets.values():
                print('  %s / %s: %s' % (b['oracle'], b['signature'], b['detail'][:600]))
            print('VIOLATION property=%s replay=%s' % (pid, args.replay))
            return 1
        print('replay: no deviation')
        return 0

    total = engine.Ctx(pid, tier, seed, known)
    violations = []  # (bucket dict, replay path)
    # 1. regression tier: committed replay files
    replayed = 0
    stale = []
    for path in sorted(glob.glob(os.path.join(VERIF, 'replays', pid + '-*.json'))):
        ctx, rep = replay_file(mod, tier, path, known)
        replayed += 1
        for k, v in ctx.known_hits.items():
            total.known_hits[k] = total.known_hits.get(k, 0) + v
        if ctx.buckets:
            for b in ctx.buckets.values():
                violations.append((b, os.path.relpath(path, VERIF)))
        elif not ctx.known_hits:
            stale.append(os.path.basename(path))
    # 2. search
    nshards = getattr(mod, 'SHARDS', {}).get(tier, 4 if tier == 'quick' else 16)
    if nshards <= 1:
        ctx = run_shard(pid, tier, seed, 0, 1, args.part)
        total.merge(ctx.dump())
    else:
        tmp = tempfile.mkdtemp(prefix='vt_%s_' % pid)
        procs = []
        for k in range(nshards):
            out = os.path.join(tmp, 'shard%d.json' % k)
            cmd = [sys.executable, '-m', 'vt.runner', pid, '--tier', tier, '--shard', str(k), '--nshards',
                   str(nshards), '--out', out]
            for p in args.part or []:
                cmd += ['--part', p]
            log = open(os.path.join(tmp, 'shard%d.log' % k), 'w')
            procs.append((k, out, log, subprocess.Popen(cmd, cwd=VERIF, stdout=log, stderr=subprocess.STDOUT)))
        failed = []
        for k, out, log, p in procs:
            rc = p.wait()
            log.close()
            if rc != 0 or not os.path.exists(out):
                failed.append((k, rc, open(log.name).read()[-3000:]))
                continue
            with open(out) as f:
                total.merge(json.load(f))
        import shutil
        shutil.rmtree(tmp, ignore_errors=True)
        if failed:
            for k, rc, txt in failed:
                print('shard %d exit %s\n%s' % (k, rc, txt))
            raise engine.HarnessError('%d shard(s) failed' % len(failed))
    # 3. shrink + replay files for unknown buckets
    parts = {p.name: p for p in get_parts(mod, tier)}
    found_dir = os.path.join(VERIF, 'replays', 'found')
    shrink_budget = 45.0 if tier == 'quick' else 180.0
    for i, (key, b) in enumerate(sorted(total.buckets.items(), key=lambda kv: kv[0])):
        part = parts[b['part']]
        if i < 6 and not os.environ.get('VERIF_NO_SHRINK'):
            try:
                b['case'] = engine.shrink_bucket(total, part, key, b, shrink_budget / min(6, len(total.buckets)))
            except engine.HarnessError:
                pass
        path = write_replay(pid, b, tier, seed, found_dir)
        violations.append((b, os.path.relpath(path, VERIF)))
    # 4. evidence
    required = getattr(mod, 'REQUIRED_CLASSES', {})
    missing = [] if args.part else [c for c in required if total.classes.get(c, 0) == 0]
    nontrivial = len(total.nt_digests) + total.bulk_nontrivial
    coverage = {
        'evaluations': total.evaluations,
        'distinct_nontrivial': nontrivial,
        'rule': mod.RULE,
        'samples': total.samples[:12],
        'classes': dict(sorted(total.classes.items())),
        'per_part_evaluations': total.part_evals,
        'replayed_regression_files': replayed,
        'excluded_known': total.known_hits,
        'shards': nshards,
        'unknown_buckets': [{'part': b['part'], 'oracle': b['oracle'], 'signature': b['signature'],
                             'count': b['count'], 'replay': p} for b, p in violations],
    }
    if stale:
        coverage['replays_without_deviation'] = stale
    exh = getattr(mod, 'exhaustive_note', None)
    if exh:
        coverage.update(exh(tier, total))
    for k, v in total.notes.items():
        coverage.setdefault('notes', {})[k] = v
    evidence = {
        'property_id': pid, 'tier': tier, 'seed': seed, 'level': getattr(mod, 'LEVEL', 'exploration'),
        'coverage': coverage, 'assumptions': list(getattr(mod, 'ASSUMPTIONS', [])),
        'wall_s': round(time.time() - t0, 2), 'violations': len(violations),
    }
    if not args.no_evidence and not args.part:
        os.makedirs(os.path.join(VERIF, 'evidence'), exist_ok=True)
        try:
            validate_evidence(evidence)
        except engine.HarnessError:
            if not violations:
                raise
        with open(os.path.join(VERIF, 'evidence', pid + '.json'), 'w') as f:
            json.dump(evidence, f, indent=1, sort_keys=False)
            f.write('\n')
    # 5. verdict
    print('%s tier=%s seed=%d evaluations=%d distinct_nontrivial=%d known_hits=%s wall=%.1fs' % (
        pid, tier, seed, total.evaluations, nontrivial, total.known_hits, time.time() - t0))
    for c, n in sorted(total.classes.items()):
        print('  class %-40s %d' % (c, n))
    for f in known:
        if f.get('status') == 'known' and total.known_hits.get(f['id']):
            print('KNOWN-FINDING: property=%s %s: %s' % (pid, f['id'], f['what']))
    if violations:
        for b, p in violations:
            print('  deviation part=%s oracle=%s signature=%s count=%s\n    %s' % (
                b['part'], b['oracle'], b['signature'], b.get('count'), b['detail'][:800].replace('\n', '\n    ')))
        for p in sorted(set(p for _b, p in violations)):
            print('VIOLATION property=%s replay=%s' % (pid, p))
        if missing:
            print('note: the run produced no case of class(es) %s (the code under test failed before they were reached)' % missing)
        return 1
    if missing:
        raise engine.HarnessError('generator produced no case of required class(es): %s' % missing)
    if nontrivial < 2:
        raise engine.HarnessError('fewer than two distinct non-trivial cases')
    return 0


def validate_evidence(evidence):
    from vt import engine
    try:
        import jsonschema
    except ImportError:
        jsonschema = None
    schema_path = '/root/.vp/EVIDENCE.schema.json'
    local = os.path.join(VERIF, 'vt', 'EVIDENCE.schema.json')
    if not os.path.exists(schema_path):
        schema_path = local
    if jsonschema is not None and os.path.exists(schema_path):
        with open(schema_path) as f:
            schema = json.load(f)
        try:
            jsonschema.validate(evidence, schema)
        except jsonschema.ValidationError as err:
            raise engine.HarnessError('evidence does not validate: %s' % err.message)
    else:
        cov = evidence['coverage']
        for k in ('evaluations', 'distinct_nontrivial', 'rule', 'samples'):
            if k not in cov:
                raise engine.HarnessError('evidence lacks ' + k)
        if cov['evaluations'] < 1 or cov['distinct_nontrivial'] < 2 or not cov['samples']:
            raise engine.HarnessError('evidence counts too small')


if __name__ == '__main__':
    sys.exit(main())
