"""Sensitivity testing (not a registered check): apply small mutants to a scratch copy of /repo/src and
require that the quick tier of the owning check exits 1.

    python -m vt.selftest C15            # all mutants of C15
    python -m vt.selftest C15 m1 m2      # selected ones
    python -m vt.selftest --patch /verif/seeded/x/patch.diff C05 C06   # a patch file against listed checks

The scratch copy lives under $TMPDIR and is removed afterwards; /repo is never touched.
"""
import json
import os
import shutil
import subprocess
import sys
import tempfile
import time

VERIF = os.path.dirname(os.path.dirname(os.path.abspath(__file__)))
REPO = '/repo'


def scratch_copy():
    d = tempfile.mkdtemp(prefix='vt_mut_')
    subprocess.check_call(['rsync', '-a', '--exclude', '__pycache__', '--exclude', 'build', REPO + '/src', d + '/'])
    os.makedirs(d + '/example_data', exist_ok=True)
    subprocess.check_call(['rsync', '-a', REPO + '/example_data/', d + '/example_data/'])
    return d


def run_check(pid, repo_dir, seed='1', extra=()):
    env = dict(os.environ, VERIF_REPO=repo_dir, VERIF_SEED=str(seed), VERIF_NO_SHRINK='1')
    prop = os.path.join(VERIF, 'findings_proposed', pid.lower() + '.json')
    if os.path.exists(prop) and 'VERIF_KNOWN_EXTRA' not in env:
        env['VERIF_KNOWN_EXTRA'] = prop
    t0 = time.time()
    p = subprocess.run([os.path.join(VERIF, 'check'), pid, '--no-evidence', *extra], cwd=VERIF, env=env,
                       stdout=subprocess.PIPE, stderr=subprocess.STDOUT, text=True)
    return p.returncode, p.stdout, time.time() - t0


def apply_mutant(d, m):
    path = os.path.join(d, 'src', 'TotalDepth', m['file'])
    with open(path) as f:
        s = f.read()
    if s.count(m['old']) < 1:
        raise LookupError('mutant %s: pattern not found in %s' % (m['id'], m['file']))
    s = s.replace(m['old'], m['new'], m.get('count', 1))
    with open(path, 'w') as f:
        f.write(s)


def main(argv):
    if argv and argv[0] == '--patch':
        patch, pids = argv[1], argv[2:]
        d = scratch_copy()
        try:
            subprocess.check_call(['patch', '-p1', '-s', '-d', d, '-i', os.path.abspath(patch)])
            for pid in pids:
                rc, out, dt = run_check(pid, d)
                print('%s patch=%s exit=%d %.0fs' % (pid, os.path.basename(os.path.dirname(patch)), rc, dt))
                print('\n'.join('    ' + l for l in out.splitlines() if l.startswith(('VIOLATION', '  deviation', 'HARNESS'))))
        finally:
            shutil.rmtree(d, ignore_errors=True)
        return 0
    pid = argv[0].upper()
    only = set(argv[1:])
    with open(os.path.join(VERIF, 'vt', 'mutants', pid.lower() + '.json')) as f:
        mutants = [m for m in json.load(f) if (not only or m['id'] in only)]
    results = []
    for m in mutants:
        d = scratch_copy()
        try:
            apply_mutant(d, m)
            rc, out, dt = run_check(pid, d)
        except LookupError as err:
            print(err)
            results.append((m['id'], 'BAD-PATTERN'))
            continue
        finally:
            shutil.rmtree(d, ignore_errors=True)
        sigs = [l.strip() for l in out.splitlines() if l.startswith('  deviation')]
        verdict = 'CAUGHT' if rc == 1 else ('HARNESS-ERROR' if rc == 2 else 'MISSED')
        print('%s %-28s %-8s %.0fs  %s' % (pid, m['id'], verdict, dt, sigs[0][:140] if sigs else ''))
        if rc == 2:
            print(out[-700:])
        results.append((m['id'], verdict))
    return 0 if all(v == 'CAUGHT' for _i, v in results) else 1


if __name__ == '__main__':
    sys.exit(main(sys.argv[1:]))
