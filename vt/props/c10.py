"""C10 - LAS written by TotalDepth reads back as the same log.

A ``FrameArray`` is built in memory (numpy dtypes and dimensions drawn with the values), written with
``WriteLAS.write_curve_and_array_section_to_las`` after a small reference ~V / ~W header, and read back with
``LASRead.LASRead``.

Oracles
  text-structure        independent of the reader: the lines of the ~Curve section, the names on the ~A heading line
                        and the tokens of every data row name / count exactly the expected channels: the first
                        channel plus the requested subset, in frame array order (all channels for an empty subset);
                        one data row per frame
  value-within-half-unit  every printed token, read as an exact decimal (vt.ref.lasfmt), is within half a unit of its
                        last printed digit of the exact reduction (first / mean / median / min / max over exact
                        rationals) of the source values, plus the stated floating point allowance of the reduction
  readback-channels     LASRead gives the expected channel names and units, in order, and the number of frames
  readback-value-exact  every value LASRead returns is the correctly rounded binary64 of the printed token
"""
import io
import re
import logging
from fractions import Fraction

from hypothesis import strategies as st

from vt.engine import HarnessError, HypPart
from vt.gen import las as genlas
from vt.ref import lasfmt

PID = 'C10'
LEVEL = 'exploration'
TECHNIQUE = 'property-based testing (Hypothesis): write -> independent text check -> read back, exact rational reference'
RULE = ('Frame arrays of 1..6 channels (index channel single-valued, other channels with dimensions (1,), (k,), (k, m) up to '
        '12 elements; dtypes float32, float64, int8..int64, uint8..uint64; LAS-legal distinct names of 1..12 characters, '
        'units empty or up to 8 characters), 1..25 frames, index strictly monotonic with spacing above the print resolution, '
        'values from small decimals to 2^996 (float64) / 2^100 (float32) / the full integer range, including the customary '
        'null -999.25; reduction in first/mean/median/min/max; channel subset any list of existing and unknown names (empty '
        '= all); field width 4..24; float format .0f...9f, .2e...6e, .3g...9g.  Non-trivial: >= 2 channels, a multi-valued '
        'channel, a subset that omits a channel, and a printed value wider than the field.  Distinct = distinct case.')
ASSUMPTIONS = [
    'finite values, no sub-normal floats; the index channel has one value per frame',
    'channel identities are str (bytes identities cannot be formatted by the heading writer), free of spaces, dots and colons; '
    'units free of spaces and colons; long names free of colons',
    'channels (DATE, D) and (TIME, HHMMSS), which the reader documents as date / time typed curves, are not generated',
    'float format restricted to <.precision><f|e|g> (the writer accepts any string starting with .digits)',
    'allowance on top of half a unit of the last printed digit: the reduction is computed by numpy in the arithmetic of the '
    'source dtype (float32 for float32, binary64 otherwise): mean n*eps*max|x|, median 2*eps*max|x| with eps 2^-23 / 2^-52; '
    'integers beyond 2^53 are printed through binary64 (allowance |x|*2^-53); first/min/max of floats: none',
    'the reader is given a reference ~V/~W header (VERS 2.0, WRAP NO, NULL -999.25) in front of the written sections',
    'values are compared under the mask of the read-back array; a masked cell must print as the null value -999.25 (a number near it is data)',
    'names / units that the header typing rule would change (F09, owned by C09) are a small measured class and are matched by '
    "F09's signature field-retyped:*; names that would collide with channel indexes (NO, YES, small integers) are not generated",
]
LEVEL_TEXT = 'generated frame arrays x formatting options, written and read back, against an exact rational reference'
SHARDS = {'quick': 4, 'thorough': 16}
REQUIRED_CLASSES = {
    'nt:>=2ch+multi-valued+subset-omits+over-wide': 1, 'multi-valued:2d': 1, 'subset:empty': 1, 'subset:omits-channel': 1,
    'subset:without-index': 1, 'subset:unknown-name': 1, 'value:wider-than-field': 1, 'int:beyond-2^53': 1,
    'dtype:float32': 1, 'dtype:float64': 1, 'dtype:signed': 1, 'dtype:unsigned': 1, 'reduction:first': 1, 'reduction:mean': 1,
    'reduction:median': 1, 'reduction:min': 1, 'reduction:max': 1, 'format:f': 1, 'format:e': 1, 'format:g': 1,
    'name:longer-than-field': 1, 'units:longer-than-4': 1, 'field:retypeable': 1, 'mean:non-integer-of-integers': 1,
}

DTYPES = ('float32', 'float64', 'int8', 'int16', 'int32', 'int64', 'uint8', 'uint16', 'uint32', 'uint64')
INT_RANGE = {'int8': (-2 ** 7, 2 ** 7 - 1), 'int16': (-2 ** 15, 2 ** 15 - 1), 'int32': (-2 ** 31, 2 ** 31 - 1),
             'int64': (-2 ** 63, 2 ** 63 - 1), 'uint8': (0, 2 ** 8 - 1), 'uint16': (0, 2 ** 16 - 1),
             'uint32': (0, 2 ** 32 - 1), 'uint64': (0, 2 ** 64 - 1)}
REDUCTIONS = ('first', 'mean', 'median', 'min', 'max')
DIMS = ((1,), (1,), (1,), (2,), (3,), (4,), (7,), (12,), (2, 2), (2, 3), (3, 4), (1, 5), (4, 1), (2, 2, 3))
RETYPEABLE_NAMES = ('INF', 'NAN', 'nan', 'Inf', '12345', '1E5', '900')
RETYPEABLE_UNITS = ('NO', 'YES', '1', '1.5', '1E3', 'INF', '0')
HEADER = '\n'.join([
    '~Version Information',
    genlas.render_header_line({'mnem': 'VERS', 'unit': '', 'value': '2.0', 'desc': 'CWLS LOG ASCII STANDARD - VERSION 2.0'}),
    genlas.render_header_line({'mnem': 'WRAP', 'unit': '', 'value': 'NO', 'desc': 'ONE LINE PER DEPTH STEP'}),
    '~Well Information',
    genlas.render_header_line({'mnem': 'NULL', 'unit': '', 'value': '-999.25', 'desc': 'NULL VALUE'}),
]) + '\n'

_NAME_FIRST = 'ABCDEFGHIJKLMNOPQRSTUVWXYZabcdefghijklmnopqrstuvwxyz'
_NAME_REST = _NAME_FIRST + '0123456789_'


# ---------------------------------------------------------------------------------------------
# Generator
# ---------------------------------------------------------------------------------------------
@st.composite
def float_values(draw, dtype, n):
    big = 2.0 ** 996 if dtype == 'float64' else 2.0 ** 100   # ~6.7e299 / ~1.3e30 (bounds exactly representable)
    width = 64 if dtype == 'float64' else 32
    k = draw(st.integers(0, 9))
    fl = lambda lo, hi: st.floats(lo, hi, allow_nan=False, allow_infinity=False, allow_subnormal=False, width=width)  # noqa
    if k <= 3:
        elem = fl(-1024.0, 1024.0)
    elif k <= 5:
        elem = st.one_of(fl(-2.0 ** 20, 2.0 ** 20), fl(-1.0, 1.0), st.sampled_from((0.0, -999.25, 1.0, -1.0, 0.5, 2.5, 0.125)),
                         # ... and numbers next to the null value that are not the null value
                         st.sampled_from((-999.255, -999.2499, -999.26, -999.24, -999.2505, -999.0, -999.3, 999.25)))
    elif k == 6:
        elem = fl(-2.0 ** 50, 2.0 ** 50)
    elif k == 7:
        elem = fl(-big, big)
    elif k == 8:  # decimals that sit on rounding boundaries of the format
        elem = st.builds(lambda m, e: m / 10.0 ** e, st.integers(-10 ** 6, 10 ** 6), st.integers(0, 9))
    else:
        elem = st.one_of(fl(-2.0 ** -10, 2.0 ** -10), fl(-1024.0, 1024.0), fl(-big, big))
    vals = draw(st.lists(elem, min_size=n, max_size=n))
    if width == 32:
        import numpy as np
        vals = [float(np.float32(v)) for v in vals]
        vals = [0.0 if (v != 0 and abs(v) < 1.2e-38) else v for v in vals]
    return vals


@st.composite
def int_values(draw, dtype, n):
    lo, hi = INT_RANGE[dtype]
    k = draw(st.integers(0, 5))
    if k <= 2:
        elem = st.integers(max(lo, -100), min(hi, 100))
    elif k == 3:
        elem = st.integers(max(lo, -10 ** 6), min(hi, 10 ** 6))
    elif k == 4:
        elem = st.integers(lo, hi)
    else:
        elem = st.one_of(st.integers(lo, hi), st.sampled_from((lo, hi, hi - 1, lo + 1 if lo else 0)),
                         st.integers(max(lo, hi - 4096), hi))
    return draw(st.lists(elem, min_size=n, max_size=n))


@st.composite
def names(draw, used):
    k = draw(st.integers(0, 9))
    if k <= 5:
        s = draw(st.sampled_from(_NAME_FIRST)) + draw(st.text(alphabet=_NAME_REST, max_size=4))
    elif k <= 7:
        s = draw(st.sampled_from(('DEPT', 'GR', 'TENS', 'ETIM', 'RHOB', 'NPHI', 'SFLU', 'DT', 'TIME', 'DATE', 'X', 'CALI')))
    else:
        s = draw(st.sampled_from(_NAME_FIRST)) + draw(st.text(alphabet=_NAME_REST, min_size=5, max_size=11))
    if lasfmt.retypeable(s):
        s += '_'
    base, i = s, 1
    while s in used:
        i += 1
        s = '%s%d' % (base, i)
    used.add(s)
    return s


@st.composite
def unit_texts(draw):
    k = draw(st.integers(0, 9))
    if k <= 1:
        return ''
    if k <= 6:
        return draw(st.sampled_from(genlas.UNITS_COMMON))
    s = draw(st.text(alphabet=_NAME_REST + '/%.', min_size=1, max_size=8))
    return s + 'U' if lasfmt.retypeable(s) else s


@st.composite
def cases(draw, max_channels=6, max_frames=25):
    nch = draw(st.integers(1, max_channels))
    nfr = draw(st.one_of(st.integers(1, max_frames), st.integers(1, 4)))
    fk = draw(st.integers(0, 9))
    if fk <= 6:
        fmt = '.%df' % draw(st.integers(0, 9))
    elif fk <= 7:
        fmt = '.%de' % draw(st.integers(2, 6))
    else:
        fmt = '.%dg' % draw(st.integers(3, 9))
    width = draw(st.one_of(st.integers(4, 24), st.sampled_from((4, 6, 8, 10, 16))))
    reduction = draw(st.sampled_from(REDUCTIONS))
    used = set()
    retype = draw(st.integers(0, 19)) == 0
    # index channel
    xdtype = draw(st.sampled_from(DTYPES + ('float64', 'float64', 'float32')))
    direction = draw(st.sampled_from((1, 1, -1)))
    if xdtype.startswith('float'):
        step = draw(st.integers(1, 20)) * direction
        start = draw(st.integers(-400, 400))
        if fmt.endswith('f'):
            j = draw(st.integers(0, min(int(fmt[1:-1]), 2)))
        else:
            j = draw(st.integers(-3, 3))
        xs = [(start + i * step) / 10.0 ** j if j >= 0 else float((start + i * step) * 10 ** -j) for i in range(nfr)]
        if xdtype == 'float32':
            import numpy as np
            xs = [float(np.float32(v)) for v in xs]
    else:
        lo, hi = INT_RANGE[xdtype]
        step = draw(st.integers(1, 4))
        if lo < 0:
            start = draw(st.integers(-20, 20))
            step *= direction
        elif direction > 0:
            start = draw(st.integers(0, 20))
        else:
            start, step = 120, -step
        xs = [start + i * step for i in range(nfr)]
    channels = [{'name': draw(names(used)), 'units': draw(unit_texts()), 'long': draw(genlas.safe_descriptions()),
                 'dtype': xdtype, 'dims': [1], 'values': [[v] for v in xs]}]
    if draw(st.integers(0, 5)) == 0:
        # a first channel with three values per frame (x, x + m, x + 2m on the grid of the X values): whatever the reduction
        # the column is x + constant, so it stays a usable index; first / min give x, mean / median x + m, max x + 2m
        m = draw(st.integers(1, 2))
        if xdtype.startswith('float'):
            grid = [[(start + i * step + o * m) / 10.0 ** j if j >= 0 else float((start + i * step + o * m) * 10 ** -j) for o in range(3)]
                    for i in range(nfr)]
            if xdtype == 'float32':
                import numpy as np
                grid = [[float(np.float32(v)) for v in fr] for fr in grid]
        else:
            grid = [[start + i * step + o * m for o in range(3)] for i in range(nfr)]
        channels[0]['dims'] = [3]
        channels[0]['values'] = grid
    for _ in range(nch - 1):
        dtype = draw(st.sampled_from(DTYPES))
        dims = list(draw(st.sampled_from(DIMS)))
        count = 1
        for d in dims:
            count *= d
        flat = draw(float_values(dtype, nfr * count) if dtype.startswith('float') else int_values(dtype, nfr * count))
        channels.append({'name': draw(names(used)), 'units': draw(unit_texts()), 'long': draw(genlas.safe_descriptions()),
                         'dtype': dtype, 'dims': dims, 'values': [flat[f * count:(f + 1) * count] for f in range(nfr)]})
    if retype:
        which = draw(st.integers(0, 2))
        ch = channels[draw(st.integers(0, nch - 1))]
        if which == 0:
            nm = draw(st.sampled_from(RETYPEABLE_NAMES))
            if nm not in used:
                ch['name'] = nm
        else:
            ch['units'] = draw(st.sampled_from(RETYPEABLE_UNITS))
    for ch in channels:  # the reader types curves (DATE, D) and (TIME, HHMMSS) as dates / times, not as numbers
        if (ch['name'], ch['units']) in (('DATE', 'D'), ('TIME', 'HHMMSS')):
            ch['units'] += 'X'
    # subset
    sk = draw(st.integers(0, 5))
    all_names = [c['name'] for c in channels]
    if sk == 0:
        subset = []
    else:
        subset = [nm for nm in all_names if draw(st.booleans())]
        if sk == 1:
            subset = [nm for nm in subset if nm != all_names[0]]
        if sk == 2:
            subset.append(draw(st.sampled_from(('ZZZZ', 'nosuch', all_names[0] + 'x', all_names[-1].lower() + '_'))))
        if sk == 3 and len(subset) > 1:
            subset = list(reversed(subset))
        if not subset:
            subset = [draw(st.sampled_from(all_names + ['nosuch']))]
    case = {'channels': channels, 'reduction': reduction, 'subset': subset, 'width': width, 'fmt': fmt}
    if draw(st.integers(0, 5)) == 0 and any(len(nm) < 4 for nm in all_names):
        # identities padded to four characters, as the frame arrays made from LIS and BIT files have them ('SP  '); the
        # subset names them exactly - or, for one of them, the way a user types it: without the padding
        case['pad_names'] = True
        subset = [nm.ljust(4) if nm in all_names else nm for nm in subset]
        bare = [nm for nm in subset if nm.strip() != nm]
        if bare and draw(st.booleans()):
            k = subset.index(draw(st.sampled_from(bare)))
            subset[k] = subset[k].strip()
        case['subset'] = subset
    return case


# ---------------------------------------------------------------------------------------------
# Reference
# ---------------------------------------------------------------------------------------------
def exact(v):
    return Fraction(v)  # exact for int and for binary floats


def reference_reduce(values, method, dtype):
    """values: the exact source values of one frame of one channel in C order.
    Returns (exact reduction, allowance for the floating point arithmetic of the writer's reduction/printing)."""
    xs = [exact(v) for v in values]
    n = len(xs)
    biggest = max(abs(x) for x in xs)
    is_int = not dtype.startswith('float')
    eps = Fraction(1, 2 ** 23) if dtype == 'float32' else Fraction(1, 2 ** 52)
    tiny = Fraction(1, 2 ** 149) if dtype == 'float32' else Fraction(1, 2 ** 1074)
    if method in ('first', 'min', 'max'):
        r = xs[0] if method == 'first' else (min(xs) if method == 'min' else max(xs))
        allowance = abs(r) / 2 ** 53 if (is_int and abs(r) > 2 ** 53) else Fraction(0)
        return r, allowance
    if method == 'mean':
        return sum(xs) / n, n * eps * biggest + n * tiny
    if method == 'median':
        s = sorted(xs)
        r = s[n // 2] if n % 2 else (s[n // 2 - 1] + s[n // 2]) / 2
        return r, 2 * eps * biggest + tiny
    raise HarnessError('unknown reduction %r' % method)


def ident(case, c):
    return c['name'].ljust(4) if case.get('pad_names') else c['name']


def expected_channels(case, bare=False):
    """bare=True: a subset name without the padding of the identity also names the channel (see check)."""
    chans = case['channels']
    if not case['subset']:
        return list(range(len(chans)))
    wanted = set(case['subset'])
    if bare:
        wanted |= {ident(case, c) for c in chans if ident(case, c).strip() in {w.strip() for w in wanted}}
    return [i for i, c in enumerate(chans) if i == 0 or ident(case, c) in wanted]


def split_written_text(text):
    """Independent decomposition of what the writer produced.
    Returns (curve [(name, unit)], heading names, rows [[token]]) or raises ValueError with the reason."""
    lines = text.split('\n')
    if lines and lines[-1] == '':
        lines.pop()
    if not lines or not lines[0].startswith('~C'):
        raise ValueError('first line is not a ~Curve section title: %r' % (lines[:1],))
    i = 1
    curves = []
    while i < len(lines) and not lines[i].startswith('~'):
        ln = lines[i]
        i += 1
        if ln.lstrip().startswith('#') or not ln.strip():
            continue
        dot = ln.find('.')
        if dot < 0:
            raise ValueError('curve line without a dot: %r' % ln)
        rest = ln[dot + 1:]
        end = len(rest)
        for k, ch in enumerate(rest):
            if ch in ' :':
                end = k
                break
        curves.append((ln[:dot].strip(), rest[:end]))
    if i >= len(lines) or not lines[i].startswith('~A'):
        raise ValueError('no ~A line after the curve section')
    heading = lines[i][2:].split()
    rows = [ln.split() for ln in lines[i + 1:]]
    return curves, heading, rows


# ---------------------------------------------------------------------------------------------
def build_frame_array(case):
    import numpy as np
    from TotalDepth.common import LogPass
    fa = LogPass.FrameArray('C10', 'generated')
    n = len(case['channels'][0]['values'])
    for c in case['channels']:
        fa.append(LogPass.FrameChannel(ident(case, c), c['long'], c['units'], tuple(c['dims']), np.dtype(c['dtype'])))
    fa.init_arrays(n)
    for c, ch in zip(case['channels'], fa.channels):
        arr = np.array(c['values'], dtype=np.dtype(c['dtype'])).reshape((n,) + tuple(c['dims']))
        # the source values are the model: they must survive the conversion to the dtype exactly
        back = (arr.astype(np.float64) if c['dtype'].startswith('float') else arr).reshape(n, -1).tolist()
        if back != [list(fr) for fr in c['values']]:
            raise HarnessError('source values of %s not representable in %s' % (c['name'], c['dtype']))
        ch.array[...] = arr
    return fa


def check(case, cc, fa=None, subset_obj=None):
    logging.disable(logging.CRITICAL)
    import numpy as np
    from TotalDepth.LAS.core import WriteLAS, LASRead
    from TotalDepth.common import Slice
    chans = case['channels']
    nfr = len(chans[0]['values'])
    reduction, width, fmt = case['reduction'], case['width'], case['fmt']
    if fa is None:
        fa = build_frame_array(case)
    out = io.StringIO()
    subset_arg = set(case['subset']) if subset_obj is None else subset_obj
    try:
        WriteLAS.write_curve_and_array_section_to_las(fa, nfr, reduction, Slice.Slice(), subset_arg, width, fmt, out)
    except Exception as err:  # noqa
        cc.unexpected(err, 'write-total')
        return
    if subset_arg != set(case['subset']):
        cc.dev('caller-arguments-unchanged', 'subset-mutated', 'the channel subset passed in was %r, is %r after the call' % (
            sorted(case['subset']), sorted(subset_arg)))
    text = out.getvalue()
    want = expected_channels(case)
    want_names = [chans[i]['name'] for i in want]
    seen = set()

    def dev(oracle, sig, detail):
        if (oracle, sig) not in seen:
            seen.add((oracle, sig))
            cc.dev(oracle, sig, detail)

    # ---- classes
    multi = [i for i in want if len(chans[i]['values'][0]) > 1]
    omitted = len(want) < len(chans)
    cc.cls('multi-valued', bool(multi))
    cc.cls('multi-valued:2d', any(len(chans[i]['dims']) >= 2 for i in multi))
    cc.cls('subset:empty', not case['subset'])
    cc.cls('subset:omits-channel', omitted)
    cc.cls('subset:without-index', bool(case['subset']) and ident(case, chans[0]) not in case['subset'])
    cc.cls('subset:unknown-name', any(s not in [ident(case, c) for c in chans] for s in case['subset']))
    cc.cls('names:padded-to-4', bool(case.get('pad_names')))
    cc.cls('subset:bare-name-of-a-padded-channel', bool(case.get('pad_names')) and any(
        s_.strip() == s_ and s_.ljust(4) != s_ and s_.ljust(4) in [ident(case, c) for c in chans] for s_ in case['subset']))
    cc.cls('subset:only-index-written', bool(case['subset']) and len(want) == 1 and len(chans) > 1)
    cc.cls('channels:1', len(chans) == 1)
    for i in want:
        dt = chans[i]['dtype']
        cc.cls('dtype:' + (dt if dt.startswith('float') else ('unsigned' if dt.startswith('u') else 'signed')))
    cc.cls('index:integer-dtype', not chans[0]['dtype'].startswith('float'))
    cc.cls('index:multi-valued', chans[0]['dims'] != [1])
    cc.cls('reduction:' + reduction, bool(multi))
    cc.cls('format:' + fmt[-1])
    cc.cls('width:<=6', width <= 6)
    cc.cls('name:longer-than-field', any(len(n) > width for n in want_names))
    cc.cls('name:longer-than-4', any(len(n) > 4 for n in want_names))
    cc.cls('units:longer-than-4', any(len(chans[i]['units']) > 4 for i in want))
    cc.cls('units:empty', any(chans[i]['units'] == '' for i in want))
    cc.cls('field:retypeable', any(lasfmt.retypeable(chans[i]['name']) or lasfmt.retypeable(chans[i]['units']) for i in want))
    cc.cls('int:beyond-2^53', any(not chans[i]['dtype'].startswith('float') and any(abs(v) > 2 ** 53 for fr in chans[i]['values']
                                                                                    for v in fr) for i in want))
    # ---- text structure (independent of the reader)
    try:
        curves, heading, rows = split_written_text(text)
    except ValueError as err:
        dev('text-structure', 'unrecognisable', '%s\n%s' % (err, text[:600]))
        return
    if case.get('pad_names') and [c[0] for c in curves] != want_names:
        # is 'SP' a request for the channel 'SP  '?  The statement does not say: either reading is accepted, but the curve
        # section, the heading and the rows must agree on it
        alt = expected_channels(case, bare=True)
        if alt != want and [c[0] for c in curves] == [chans[i]['name'] for i in alt]:
            cc.cls('subset:bare-name-taken-as-the-padded-channel')
            want, want_names = alt, [chans[i]['name'] for i in alt]
    if [c[0] for c in curves] != want_names:
        dev('text-structure', 'curve-section-channels', 'curve section lists %r, expected %r (subset %r)' % (
            [c[0] for c in curves], want_names, case['subset']))
    elif [c[1] for c in curves] != [chans[i]['units'] for i in want]:
        dev('text-structure', 'curve-section-units', 'curve section units %r, expected %r' % (
            [c[1] for c in curves], [chans[i]['units'] for i in want]))
    if heading != want_names:
        dev('text-structure', 'heading-channels', '~A heading lists %r, expected %r (subset %r)' % (
            heading, want_names, case['subset']))
    if len(rows) != nfr:
        dev('text-structure', 'row-count', '%d data rows for %d frames' % (len(rows), nfr))
    over_wide = False
    mean_non_integer = False
    rows_ok = True
    for f, row in enumerate(rows[:nfr]):
        if len(row) != len(want):
            dev('text-structure', 'row-token-count', 'row %d has %d tokens for %d channels: %r (width %d, format %s)' % (
                f, len(row), len(want), row, width, fmt))
            rows_ok = False
            continue
        for tok, i in zip(row, want):
            over_wide = over_wide or len(tok) > width
            p = lasfmt.parse_number(tok)
            if p is None:
                dev('value-within-half-unit', 'token-not-a-number', 'row %d channel %s: %r' % (f, chans[i]['name'], tok))
                rows_ok = False
                continue
            # the form of the token: floating channels in the requested decimal format, integer channels without decimals
            if chans[i]['dtype'].startswith('float'):
                if fmt.endswith('f'):
                    nd = int(fmt[1:-1])
                    form = r'^[-+]?\d+\.\d{%d}$' % nd if nd else r'^[-+]?\d+$'
                elif fmt.endswith('e'):
                    nd = int(fmt[1:-1])
                    form = (r'^[-+]?\d\.\d{%d}e[-+]\d{2,3}$' % nd) if nd else r'^[-+]?\de[-+]\d{2,3}$'
                else:
                    form = None     # g: the number of digits depends on the value
            else:
                form = r'^[-+]?\d+$'
            if form is not None and not re.match(form, tok) and tok.lower() not in ('nan', 'inf', '-inf'):
                dev('text-structure', 'token-not-in-the-requested-format', 'row %d channel %s (%s): %r is not what format %r prints' % (
                    f, chans[i]['name'], chans[i]['dtype'], tok, fmt if chans[i]['dtype'].startswith('float') else '.0f'))
            r, allowance = reference_reduce(chans[i]['values'][f], reduction, chans[i]['dtype'])
            if not chans[i]['dtype'].startswith('float') and r.denominator != 1:
                mean_non_integer = True
            if abs(p.value - r) > p.half_unit + allowance:
                kind = 'single' if len(chans[i]['values'][f]) == 1 else reduction
                dev('value-within-half-unit', 'value-off:' + kind,
                    'row %d channel %s (%s %r, %s of %r): printed %r, exact %s, off by %s > half unit %s + allowance %s' % (
                        f, chans[i]['name'], chans[i]['dtype'], chans[i]['dims'], reduction, chans[i]['values'][f][:12], tok,
                        float(r), float(abs(p.value - r)), float(p.half_unit), float(allowance)))
    cc.cls('value:wider-than-field', over_wide)
    cc.cls('mean:non-integer-of-integers', mean_non_integer)
    nt = len(want) >= 2 and bool(multi) and omitted and over_wide
    cc.nt(nt)
    cc.cls('nt:>=2ch+multi-valued+subset-omits+over-wide', nt)
    if nt:
        cc.sample({'channels': [(c['name'], c['dtype'], c['dims']) for c in chans], 'subset': case['subset'],
                   'reduction': reduction, 'width': width, 'fmt': fmt, 'frames': nfr, 'last_lines': text.split('\n')[-7:-1]})
    # ---- read back
    try:
        las_file = LASRead.LASRead(io.StringIO(HEADER + text), 'C10')
    except Exception as err:  # noqa
        cc.unexpected(err, 'readback-total')
        return
    fa2 = las_file.frame_array
    if fa2 is None:
        dev('readback-channels', 'no-frame-array', 'no frame array read back')
        return
    if len(fa2.channels) != len(want):
        dev('readback-channels', 'channel-count', '%d channels read back, expected %r' % (len(fa2.channels), want_names))
        return
    for k, (i, ch) in enumerate(zip(want, fa2.channels)):
        for name, got, exp in (('mnem', ch.ident, chans[i]['name']), ('unit', ch.units, chans[i]['units'])):
            if type(got) is str and got == exp:
                continue
            if lasfmt.retypeable(exp) and lasfmt.same_typed(got, lasfmt.classify_value(exp)[1]):
                dev('readback-channels', 'field-retyped:' + name, 'channel %d: %s %r read back as %r' % (k, name, exp, got))
            else:
                dev('readback-channels', 'channel-' + name, 'channel %d: %s %r read back as %r' % (k, name, exp, got))
        data = np.ma.getdata(ch.array)
        if tuple(data.shape) != (nfr, 1):
            dev('readback-channels', 'frame-count', 'channel %d: shape %r for %d frames' % (k, data.shape, nfr))
            continue
        if not rows_ok:
            continue
        mask = np.ma.getmaskarray(ch.array)
        null = lasfmt.parse_number('-999.25').value
        for f in range(nfr):
            p = lasfmt.parse_number(rows[f][k])
            got = float(data[f, 0])
            if p is not None and not (got == p.as_float()):
                dev('readback-value-exact', 'value-wrong', 'frame %d channel %d: token %r read as %r' % (f, k, rows[f][k], got))
            # a value that is marked absent (masked) must be the null value of the header: a number that merely lies near it is data
            if p is not None and bool(mask[f, 0]) and p.value != null:
                dev('readback-value-exact', 'value-masked-that-is-not-the-null-value', 'frame %d channel %d: token %r (not %s) comes back masked' % (
                    f, k, rows[f][k], '-999.25'))


@st.composite
def histories(draw):
    """One frame array written several times with different options (what a conversion with several outputs, or a
    caller that writes a selection and then everything, does)."""
    base = draw(cases(max_channels=5, max_frames=6))
    all_names = [c['name'] for c in base['channels']]
    writes = []
    for _ in range(draw(st.integers(2, 3))):
        # the index values of the base case are spaced for the print resolution of its format: keep the format or print more decimals
        fmt = base['fmt']
        if fmt.endswith('f'):
            fmt = '.%df' % draw(st.integers(int(fmt[1:-1]), 9))
        subset = [nm for nm in all_names if draw(st.booleans())] if draw(st.integers(0, 3)) else []
        if draw(st.integers(0, 5)) == 0:
            subset.append('nosuch')
        writes.append({'reduction': draw(st.sampled_from(REDUCTIONS)), 'width': draw(st.integers(6, 20)), 'fmt': fmt, 'subset': subset})
    return {'base': base, 'writes': writes, 'share_subset': draw(st.booleans())}


def check_history(case, cc):
    base, writes = case['base'], case['writes']
    fa = build_frame_array(base)
    import numpy as np
    before = [np.array(ch.array, copy=True) for ch in fa.channels]
    cc.nt(len(base['channels']) >= 2)
    cc.cls('history:writes>=3', len(writes) >= 3)
    cc.cls('history:subset-then-all', any(a['subset'] and not b['subset'] for a, b in zip(writes, writes[1:])))
    cc.cls('history:multi-valued-reduced-twice', any(len(c['values'][0]) > 1 for c in base['channels']) and len({w['reduction'] for w in writes}) > 1)
    shared = None
    for i, w in enumerate(writes):
        if case['share_subset'] and i and writes[i - 1]['subset'] == w['subset']:
            pass   # the caller passes the very same set object again
        else:
            shared = set(w['subset'])
        check(dict(base, **w), cc, fa=fa, subset_obj=shared if case['share_subset'] else None)
        for ch, b in zip(fa.channels, before):
            if ch.array.shape != b.shape or not np.array_equal(ch.array, b):
                cc.dev('caller-arguments-unchanged', 'frame-array-mutated', 'write %d of %r changed the array of channel %s' % (i, writes, ch.ident))
                return


def parts(tier):
    return [
        HypPart('write-history', histories(), check_history, 800, 16000),
        HypPart('write-read', cases(), check, 2400, 64000),
        HypPart('write-read-small', cases(max_channels=3, max_frames=3), check, 1200, 32000),
    ]


RULE += '  Added after the seeding rounds: part write-history (one frame array written 2..3 times with different options; arguments must come back unchanged); identities padded to four characters with subsets naming them exactly or bare (either reading accepted, the sections must agree).'
RULE += '  Round 16: one first channel in six holds three values per frame (x, x+m, x+2m).'
