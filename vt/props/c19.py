"""C19 - plotted curves stay inside their track and wrap consistently.

Parts (``parts(tier)`` is a flat list; the part that plots *generated* LIS log passes is added later by appending a
callable to ``EXTRA_PARTS`` - it can reuse ``check_svg``, ``format_channels`` and ``plot_lis_file``):

  scale-maths       PRESCfg.LineTransLin / LineTransLog10: wrapPos, L2P, offScale against exact references
  las-plot          generated LAS texts (curves the built-in LgFormat XML files know, shapes constant / ramp / spikes /
                    +-1e30 / 1e-30 / zero or negative on log scales / gaps of absent values / all absent) plotted the way
                    PlotLogs does for LAS: LASRead -> Plot.PlotReadXML(id, scale) -> hasDataToPlotLAS -> plotLogPassLAS,
                    the ``-X`` route XMLMatches.fileCurveMap, and the whole tool PlotLogs.PlotLogPasses
  adapter-plot      the same generated curves handed to Plot.PlotReadXML(id, scale).plotLogPassLAS through a frame holder
                    built from the model alone that offers the accessors Plot documents and calls (hasOutpMnem,
                    genOutpPoints, nullValue, xAxisUnits, curveUnitsAsStr ...): the plotting code itself (tracks, scales,
                    curves, wrap interpolation, absent values) on hostile data, independent of the dead LAS reader glue
  bundled-lis-plot  the three bundled LIS files plotted by PlotLogs.PlotLogPasses with the FILM/PRES tables of the file
                    and with every built-in LgFormat, every SVG through ``check_svg``
  svg-checker       self check of ``check_svg`` on hand made SVG texts (a failure is a harness error)

Oracles
  wrap-position-in-track     lP <= pos <= rP (tolerance 4 ulp of the larger edge)
  wrap-is-integer            the wrap count is an int
  wrap-equation              pos + wrap * (rP - lP) == exact unwrapped position, |difference| <= 1e-9 * (|exact| + |lP| + |rP|)
  L2P==reference             L2P(val) == exact unwrapped position within 1e-9 * (|exact| + |lP| + |rP| + |scale| * (|lL| + |val|))
  offscale==backup-mode      offScale(w) agrees with what the comment of the back-up constant promises
  log-rejects-nonpositive    LineTransLog10.wrapPos(v <= 0) raises ExceptionLineTransBaseMath (the documented error Plot relies on)
  svg-parses / svg-root / svg-viewbox / polyline-in-viewbox / polyline-between-margins / track-borders-inside-margins /
  no-point-for-absent        see ``check_svg``
  data-produces-plot         (adapter-plot) a format that plots one of the curves yields an SVG with > 0 curves
  las-input-produces-plot / lis-input-produces-plot   a file that has a curve a format plots yields an SVG with > 0 curves
  no-unexpected-exception
"""
import argparse
import bisect
import collections
import decimal
import glob
import logging
import math
import os
import re
import sys
import tempfile
import xml.etree.ElementTree as ET
from fractions import Fraction

from hypothesis import strategies as st

from vt import engine
from vt.engine import EnumPart, HypPart
from vt.gen import las as genlas
from vt.props import c18

PID = 'C19'
LEVEL = 'exploration'
NEEDS_LIS_EXT = True  # PRESCfg, Plot, PlotLogs import TotalDepth.LIS.core.*
TECHNIQUE = ('property-based testing (Hypothesis): exact rational / 60 digit decimal reference for the scale maths; generated '
             'LAS files and bundled LIS files plotted, SVG geometry checked by an independent reader')
RULE = ('scale-maths: physical edges lP in [-100, 100], width in [1e-3, 100] (inches on paper), logical edges l != r from '
        'customary scale values, +-1e6, and all finite doubles (log: > 0, |log10(r/l)| >= 1e-3), either order; values: fractions '
        'of the scale span up to +-1e6 wraps, exact edge and whole-wrap values, 0, +-1e30, 1e-30, and all finite doubles '
        '(log: positive; non-positive values form their own class); every back-up constant (NONE, ALL, ONCE, TWICE, LEFT, '
        'RIGHT); asserted where span, scale factor, offset, normalised position and unwrapped position are finite doubles.  '
        'las-plot: 1..5 curves out of 26 mnemonics the built-in formats plot, 3..40 frames, up or down, depth in M / FT / F, '
        'every curve with one of 8 shapes, plotted with 1..3 of the built-in formats at scale 0 (format default) / 20 / 40 / '
        '100 / 200 / 500 / 1000, with and without API header; adapter-plot: the same cases, formats drawn among those that plot '
        'one of the curves.  bundled-lis-plot: 3 files x (FILM/PRES of the file, each built-in '
        'format, one run with API header).  Non-trivial: scale case whose wrap count != 0; LAS case with >= 2 curves one of '
        'which has absent values (las-plot and adapter-plot); bundled case that produced >= 1 SVG.  Distinct = distinct case.  '
        'generated-lis-plot / generated-film-pres-plot (vt/props/c19_files.py): generated LIS files (1..6 channels of 8 value shapes, '
        'direct or implied X, up or down, FEET / M / .1IN) carrying their own FILM (1..3 films, 3- and 4-track codes, blank tracks, '
        'DSCA 1:20..1:1000) and PRES tables (1..6 rows: every track name incl. half tracks and T23, LLIN..HGAP and an unknown coding, '
        'modes SHIF / GRAD / NB / WRAP / X10 or no MODE column, DEST a film, BOTH, ALL, NEIT or several names, customary / reversed '
        '/ extreme edges, optional OUTP / FILT / COLO columns, AREA and PIP tables, one row with LEDG == REDG in 1 of 25 cases) '
        'plotted by PlotLogs.PlotLogPasses; the SVG of every film is read back: geometry oracles of check_svg, depth of every '
        'vertex, and for linear WRAP/SHIF curves the position of every sample vertex against the exact wrap reference.')
ASSUMPTIONS = [
    'scale-maths is asserted only where every intermediate quantity of the documented formulae - logical span r-l (log: r/l '
    'and v/l), scale factor width/span, offset, normalised position and unwrapped position - is itself a finite, normal '
    'double; scales such as l=-1e308, r=1e308 whose span overflows are counted (class scale:domain-skipped) and not judged',
    'logarithmic scales span at least 0.001 decade: below that log10(r/l) is dominated by the rounding of r/l and no float '
    'implementation can meet a relative tolerance',
    'tolerance 1e-9 relative to (|position| + |lP| + |rP|): the computation is a handful of correctly rounded operations '
    '(relative error about 1e-15), an off-by-one wrap is a whole track width, 1e-9 separates the two by six orders of magnitude',
    'pos may exceed rP by rounding of lP + 1.0 * (rP - lP): 4 ulp of the larger edge are tolerated',
    'wrapPos() does not depend on the back-up mode (it never clamps); the modes only steer offScale(): NONE / ALL / ONCE / TWICE '
    'are asserted as their comments say; LEFT and RIGHT are documented as "single backup to left/right only" but are built as '
    '(0, -1) / (1, 0) = unlimited to that side - only the uncontested part (nothing to the other side, wraps 0 and 1 to '
    'this side on scale) is asserted',
    'which curves a format should show is not asserted beyond: a file with a channel named like a visible LgCurve/ChannelName '
    'of the format must give a plot with > 0 curves',
    'SVG: polyline points are printed with one decimal, the margins with three: tolerance 0.051 user units',
    'absent values of the bundled LIS files are taken from LogPass.genOutpPoints (the reader is trusted here, it is C06\'s subject)',
    'the LAS plotting route is dead on this tree (finding F19a): the SVG checks of las-plot only run once it is repaired; until '
    'then adapter-plot gives the generated curve shapes real coverage: its frame holder is harness code that implements the '
    'duck-typed interface the Plot docstrings name, keyed by Mnem like the LgFormat outputs',
    'PRES.STAT (ALLO / DISA) is not judged: the statement of C19 says nothing about it and the repository tests pin DISA curves '
    'as plotted (c19_files.ASSERT_STAT = False); a film must give a plot only when an ALLO curve routed to it has a present value',
    'a PRES row with LEDG == REDG is input the code documents (it logs and skips the curve): the other curves must still plot',
    '"no point for absent values" is read geometrically: no polyline vertex at a depth strictly inside an interval in which '
    'the channel has only absent samples (the neighbouring present samples bound the interval); an output with no present '
    'sample has no polyline.  The planned count oracle (points <= present samples + interpolation points) is not implemented',
]
LEVEL_TEXT = ('generated scale cases against exact arithmetic; generated LAS files and the bundled LIS files plotted and the '
              'SVG output measured; counts and samples in the evidence file')
SHARDS = {'quick': 4, 'thorough': 16}
REQUIRED_CLASSES = {
    'scale:lin': 1, 'scale:log': 1, 'scale:reversed': 1, 'scale:wrap<0': 1, 'scale:wrap>0': 1, 'scale:wrap==0': 1,
    'scale:value-on-edge': 1, 'scale:|value|>=1e30': 1, 'scale:asserted': 1, 'scale:log-nonpositive': 1,
    'scale:backup-NONE': 1, 'scale:backup-ALL': 1, 'scale:backup-ONCE': 1, 'scale:backup-TWICE': 1,
    'scale:backup-LEFT': 1, 'scale:backup-RIGHT': 1, 'scale:offscale-asserted': 1,
    'las:format-matches-a-curve': 1,
    'adapter:svg-checked': 1, 'adapter:x-interval-in-other-units': 1, 'genlis:api-header-on-a-down-log': 1, 'adapter:has-absent-gap': 1, 'adapter:all-absent-curve': 1, 'adapter:huge-values': 1,
    'adapter:tiny-values': 1, 'adapter:spikes': 1, 'adapter:nonpositive-on-log-curve': 1, 'adapter:absent-output-checked': 1,
    'lisplot:svg-checked': 1, 'lisplot:xml-format': 1, 'lisplot:internal-film-pres': 1, 'lisplot:polyline-points>=1000': 1,
    'svgcheck:depth-mapping-confirmed(>=50%-of-vertices-at-sample-depths)': 1,
    'svgcheck:self-check-passed': 1,
    # generated-film-pres-plot (vt/props/c19_files.py)
    'filmpres:svg-checked': 1, 'filmpres:plot-depth-asserted': 1, 'filmpres:scale-positions-asserted': 1, 'filmpres:log-curve': 1,
    'filmpres:linear-curve': 1, 'filmpres:edges-reversed': 1, 'filmpres:DISA-curve': 1, 'filmpres:film-with-several-curves': 1,
    'filmpres:curve-on-several-films': 1, 'filmpres:four-track-film': 1, 'filmpres:half-track': 1, 'filmpres:track-T1': 1,
    'filmpres:track-T2': 1, 'filmpres:track-T3': 1, 'filmpres:track-T23': 1, 'filmpres:mode-SHIF': 1, 'filmpres:mode-GRAD': 1,
    'filmpres:mode-NB': 1, 'filmpres:mode-WRAP': 1, 'filmpres:mode-X10': 1, 'filmpres:scale-1:20': 1, 'filmpres:scale-1:1000': 1,
    'filmpres:absent-output-checked': 1, 'filmpres:nonpositive-on-log-curve': 1,
}

DBL_MAX = Fraction(sys.float_info.max)
DBL_MIN_NORMAL = Fraction(sys.float_info.min)
BACKUPS = ('NONE', 'ALL', 'ONCE', 'TWICE', 'LEFT', 'RIGHT')
#: what the comments of the constants promise: allowed wrap counts (None = unlimited) to the (left, right)
BACKUP_PROMISE = {'NONE': (0, 0), 'ALL': (None, None), 'ONCE': (1, 1), 'TWICE': (2, 2)}


_NULL_HANDLER = logging.NullHandler()


def _quiet_logging():
    """logging.error() & co. call basicConfig() when the root logger has no handler, which would start printing."""
    root = logging.getLogger()
    if _NULL_HANDLER not in root.handlers:
        root.addHandler(_NULL_HANDLER)


_quiet_logging()


def _silence():
    _quiet_logging()
    logging.disable(logging.CRITICAL)


def _unsilence():
    logging.disable(logging.NOTSET)


# ---------------------------------------------------------------------------------------------
# Part scale-maths
# ---------------------------------------------------------------------------------------------
_FIN = st.floats(allow_nan=False, allow_infinity=False)
_POS = st.floats(min_value=0.0, allow_nan=False, allow_infinity=False, exclude_min=True)
_LIN_EDGES = (0.0, 150.0, 0.45, -0.15, 1.95, 2.95, 6.0, 16.0, 500.0, -20.0, 80.0, 140.0, 40.0, 1.0, -1.0, 10.0, 100.0, 0.2,
              2000.0, 1e-3, 1e4, -999.25, 0.5, 3.0)
_LOG_EDGES = (0.2, 2000.0, 2.0, 20.0, 200.0, 1.0, 10.0, 100.0, 1000.0, 1e4, 0.1, 0.01, 1e-3, 0.5, 5.0, 1e5, 2e5, 0.02)
_SPECIAL_VALUES = (0.0, -0.0, 1e30, -1e30, 1e-30, -1e-30, 1.0, -1.0, -999.25, 5e-324, 1.7976931348623157e308, 2.2250738585072014e-308)


@st.composite
def scale_cases(draw):
    kind = draw(st.sampled_from(('lin', 'lin', 'log')))
    lP = draw(st.one_of(st.sampled_from((0.0, 0.25, 2.4, 3.2, 5.6)), st.floats(-100.0, 100.0)))
    width = draw(st.one_of(st.sampled_from((2.4, 0.8, 4.8, 1.2, 8.0, 0.5)), st.floats(1e-3, 100.0)))
    rP = lP + width
    backup = draw(st.sampled_from(BACKUPS))
    if kind == 'lin':
        k = draw(st.integers(0, 5))
        if k <= 2:
            lL, rL = draw(st.sampled_from(_LIN_EDGES)), draw(st.sampled_from(_LIN_EDGES))
        elif k <= 4:
            lL, rL = draw(st.floats(-1e6, 1e6)), draw(st.floats(-1e6, 1e6))
        else:
            lL, rL = draw(_FIN), draw(_FIN)
        if lL == rL:
            rL = lL + 1.0 if lL + 1.0 != lL else lL / 2.0
        v = draw(st.integers(0, 9))
        if v <= 3:  # a fraction of the span, a few wraps away
            val = lL + (rL - lL) * draw(st.floats(-8.0, 8.0))
        elif v == 4:  # many wraps away
            val = lL + (rL - lL) * draw(st.floats(-1e6, 1e6))
        elif v == 5:  # exactly on an edge or a whole number of wraps
            val = lL + (rL - lL) * draw(st.integers(-5, 5))
        elif v == 6:
            val = draw(st.sampled_from(_SPECIAL_VALUES))
        elif v == 7:
            val = draw(st.sampled_from((lL, rL, math.nextafter(lL, rL), math.nextafter(lL, -rL), math.nextafter(rL, lL),
                                        math.nextafter(rL, math.inf), math.nextafter(rL, -math.inf))))
        else:
            val = draw(_FIN)
        if not math.isfinite(val):
            val = lL
    else:
        k = draw(st.integers(0, 5))
        if k <= 3:
            lL, rL = draw(st.sampled_from(_LOG_EDGES)), draw(st.sampled_from(_LOG_EDGES))
        elif k == 4:
            lL = draw(st.floats(1e-6, 1e6))
            rL = lL * 10.0 ** (draw(st.floats(1e-3, 8.0)) * draw(st.sampled_from((1, -1))))
        else:
            lL, rL = draw(_POS), draw(_POS)
        if lL == rL or not (0.0 < rL < math.inf):
            rL = lL * 10.0 if lL < 1e300 else lL / 10.0
        v = draw(st.integers(0, 9))
        if v <= 3:
            e = draw(st.floats(-6.0, 6.0))
            try:
                val = lL * (rL / lL) ** e
            except (OverflowError, ZeroDivisionError):
                val = lL
        elif v == 4:
            val = lL * 10.0 ** draw(st.floats(-40.0, 40.0))
        elif v == 5:
            val = draw(st.sampled_from((lL, rL, math.nextafter(lL, 0.0), math.nextafter(lL, math.inf), math.nextafter(rL, 0.0),
                                        math.nextafter(rL, math.inf))))
        elif v == 6:
            val = draw(st.sampled_from((1e30, 1e-30, 1.0, 5e-324, 1.7976931348623157e308, 2.2250738585072014e-308)))
        elif v == 7:  # zero or negative on a log scale
            val = draw(st.sampled_from((0.0, -0.0, -1.0, -1e30, -1e-30, -999.25, -5e-324)))
        else:
            val = draw(_POS)
        if not math.isfinite(val) or (val == 0.0 and v != 7):
            val = lL
    return {'kind': kind, 'lP': lP, 'rP': rP, 'lL': lL, 'rL': rL, 'backup': backup, 'val': val}


def _finite(*qs):
    return all(abs(q) <= DBL_MAX for q in qs)


def _normal(q):
    return DBL_MIN_NORMAL <= abs(q) <= DBL_MAX


def _dlog10(x: float) -> decimal.Decimal:
    return decimal.Decimal(x).log10()


def reference_position(kind, lP, rP, lL, rL, val):
    """Exact (lin: rational; log: 60 significant digits) reference.  Returns None when the case lies outside the stated
    domain, else dict(p=normalised position, pos=unwrapped position, scale=..., terms=magnitude of the L2P operands),
    all as Fractions."""
    FlP, FrP = Fraction(lP), Fraction(rP)
    width = FrP - FlP
    if kind == 'lin':
        den = Fraction(rL) - Fraction(lL)
        num = Fraction(val) - Fraction(lL)
        if not _normal(den) or not _finite(num):
            return None
        p = num / den
        scale = width / den
        offset_terms = abs(scale * Fraction(lL)) + abs(scale * Fraction(val))
        if not _finite(p, scale, scale * Fraction(lL), scale * Fraction(val), FlP - scale * Fraction(lL)):
            return None
    else:
        if not (_normal(Fraction(rL) / Fraction(lL)) and _normal(Fraction(val) / Fraction(lL))):
            return None
        with decimal.localcontext() as ctx:
            ctx.prec = 60
            dden = _dlog10(rL) - _dlog10(lL)
            if abs(dden) < decimal.Decimal('0.001'):
                return None
            dp = (_dlog10(val) - _dlog10(lL)) / dden
            dscale = decimal.Decimal(1) / dden
            dterms = abs(dscale * _dlog10(lL)) + abs(dscale * _dlog10(val))
        p = Fraction(dp)
        scale = Fraction(dscale) * width
        offset_terms = Fraction(dterms) * width
    pos = FlP + p * width
    if not _finite(pos, p):
        return None
    return {'p': p, 'pos': pos, 'width': width, 'scale': scale, 'terms': offset_terms}


def check_scale(case, cc):
    from TotalDepth.util.plot import PRESCfg
    kind, lP, rP, lL, rL, val = case['kind'], case['lP'], case['rP'], case['lL'], case['rL'], case['val']
    name = case['backup']
    backup = getattr(PRESCfg, 'BACKUP_' + name)
    if not (lP < rP) or lL == rL or (kind == 'log' and (lL <= 0 or rL <= 0)):
        raise engine.HarnessError('scale generator left its domain: %r' % (case,))
    cc.cls('scale:' + kind)
    cc.cls('scale:backup-' + name)
    cc.cls('scale:reversed', lL > rL)
    cls = PRESCfg.LineTransLin if kind == 'lin' else PRESCfg.LineTransLog10
    what = '%s(lP=%r, rP=%r, l=%r, r=%r, BACKUP_%s) value %r' % (cls.__name__, lP, rP, lL, rL, name, val)
    if kind == 'log' and val <= 0.0:
        cc.cls('scale:log-nonpositive')
        if not _normal(Fraction(rL) / Fraction(lL)):
            cc.cls('scale:domain-skipped')
            return
        try:
            lt = cls(lP, rP, lL, rL, backup)
            got = lt.wrapPos(val)
        except PRESCfg.ExceptionLineTransBaseMath:
            return
        except Exception as err:  # noqa
            cc.dev('log-rejects-nonpositive', 'exc:%s' % type(err).__name__, '%s raised %r' % (what, err))
            return
        cc.dev('log-rejects-nonpositive', 'accepted-nonpositive', '%s returned %r' % (what, got))
        return
    ref = reference_position(kind, lP, rP, lL, rL, val)
    if ref is None:
        cc.cls('scale:domain-skipped')
        return
    cc.cls('scale:asserted')
    try:
        lt = cls(lP, rP, lL, rL, backup)
        w, pos = lt.wrapPos(val)
        l2p = lt.L2P(val)
    except Exception as err:  # noqa
        cc.unexpected(err)
        return
    exact_w = ref['p'].numerator // ref['p'].denominator  # floor
    cc.nt(w != 0 if isinstance(w, int) else True)
    cc.cls('scale:wrap<0', exact_w < 0)
    cc.cls('scale:wrap>0', exact_w > 0)
    cc.cls('scale:wrap==0', exact_w == 0)
    cc.cls('scale:|wrap|>=1000', abs(exact_w) >= 1000)
    cc.cls('scale:value-on-edge', val in (lL, rL))
    cc.cls('scale:|value|>=1e30', abs(val) >= 1e30)
    cc.cls('scale:|value|<=1e-30', abs(val) <= 1e-30)
    cc.cls('scale:logical-edges-full-double-range', abs(lL) > 1e7 or abs(rL) > 1e7 or (kind == 'log' and min(lL, rL) < 1e-7))
    cc.sample(dict(case, wrap=w if isinstance(w, int) else repr(w), pos=pos))
    # wrap count is an integer
    if not isinstance(w, int) or isinstance(w, bool):
        cc.dev('wrap-is-integer', 'wrap-not-int', '%s: wrap %r of type %s' % (what, w, type(w).__name__))
        return
    if not isinstance(pos, float) or not math.isfinite(pos):
        cc.dev('wrap-position-in-track', 'position-not-finite', '%s: pos %r' % (what, pos))
        return
    # position inside the track
    slack = 4 * math.ulp(max(abs(lP), abs(rP)))
    if not (lP - slack <= pos <= rP + slack):
        cc.dev('wrap-position-in-track', 'position-left-of-track' if pos < lP else 'position-right-of-track',
               '%s: wrap %d pos %r not in [%r, %r]' % (what, w, pos, lP, rP))
    # the wrap equation, in exact arithmetic
    tol = Fraction(1, 10 ** 9) * (abs(ref['pos']) + abs(Fraction(lP)) + abs(Fraction(rP)))
    lhs = Fraction(pos) + w * ref['width']
    if abs(lhs - ref['pos']) > tol:
        off = (lhs - ref['pos']) / ref['width']
        sig = 'wrap-equation:off-by-whole-tracks' if abs(off - round(off)) < Fraction(1, 10 ** 6) and round(off) != 0 \
            else 'wrap-equation:position-differs'
        cc.dev('wrap-equation', sig, '%s: wrap %d pos %r gives %r, exact unwrapped position %r (difference %.3g track widths)' % (
            what, w, pos, float(lhs), float(ref['pos']), float(off)))
    # L2P against the reference
    if not isinstance(l2p, float) or not math.isfinite(l2p):
        cc.dev('L2P==reference', 'L2P-not-finite', '%s: L2P %r, exact %r' % (what, l2p, float(ref['pos'])))
    else:
        tol2 = tol + Fraction(1, 10 ** 9) * ref['terms']
        if abs(Fraction(l2p) - ref['pos']) > tol2:
            cc.dev('L2P==reference', 'L2P-differs', '%s: L2P %r, exact %r' % (what, l2p, float(ref['pos'])))
    # offScale against the promise of the back-up constant
    for wq in sorted({w, -w, 0, 1, -1, 2, -2, 3, -3, 9, -9}):
        try:
            got = lt.offScale(wq)
            left, right = lt.isOffScaleLeft(wq), lt.isOffScaleRight(wq)
        except Exception as err:  # noqa
            cc.unexpected(err)
            return
        if name in BACKUP_PROMISE:
            nl, nr = BACKUP_PROMISE[name]
            want = -1 if (wq < 0 and nl is not None and -wq > nl) else (1 if (wq > 0 and nr is not None and wq > nr) else 0)
        elif name == 'LEFT':  # nothing to the right; 0 and one wrap to the left are on scale
            want = 1 if wq > 0 else (0 if wq >= -1 else None)
        else:  # RIGHT
            want = -1 if wq < 0 else (0 if wq <= 1 else None)
        if want is None:
            continue
        cc.cls('scale:offscale-asserted')
        cc.cls('scale:offscale-low', want == -1)
        cc.cls('scale:offscale-high', want == 1)
        if got != want or left != (want == -1) or right != (want == 1):
            cc.dev('offscale==backup-mode', 'offscale-differs:BACKUP_' + name,
                   'BACKUP_%s %r: offScale(%d)=%r isOffScaleLeft=%r isOffScaleRight=%r, promised %d' % (
                       name, backup, wq, got, left, right, want))
            break


# ---------------------------------------------------------------------------------------------
# Reusable: the built-in formats, read independently
# ---------------------------------------------------------------------------------------------
_LG_NS = '{x-schema:LgSchema2.xml}'
_FORMAT_CACHE = {}


def formats_dir():
    return os.path.join(engine.REPO_SRC, 'TotalDepth', 'util', 'plot', 'formats')


def format_channels():
    """{UniqueId: {'channels': set of ChannelName of visible LgCurve elements with LeftLimit != RightLimit inside an LgTrack, 'log': set of those on a
    logarithmic transform}} read from util/plot/formats/*.xml with ElementTree (independent of FILMCfgXML / PRESCfgXML)."""
    key = formats_dir()
    if key not in _FORMAT_CACHE:
        ret = {}
        for p in sorted(glob.glob(os.path.join(key, '*.xml'))):
            root = ET.parse(p).getroot()
            if root.tag != _LG_NS + 'LgFormat' or root.get('UniqueId') is None:
                continue
            chans, logs = set(), set()
            for track in root.iter(_LG_NS + 'LgTrack'):
                for curve in track.iter(_LG_NS + 'LgCurve'):
                    name = (curve.findtext(_LG_NS + 'ChannelName') or '').strip()
                    visible = (curve.findtext(_LG_NS + 'Visible') or '1').strip()
                    try:  # a curve without a logical span is not drawn (PRESCfgXML logs "limits equal")
                        span = float(curve.findtext(_LG_NS + 'LeftLimit') or 0.0) != float(curve.findtext(_LG_NS + 'RightLimit') or 0.0)
                    except ValueError:
                        span = False
                    if name and span and visible not in ('0', 'false', 'False'):
                        chans.add(name)
                        if (curve.findtext(_LG_NS + 'Transform') or '').strip() == 'LG_LOGARITHMIC':
                            logs.add(name)
            ret[root.get('UniqueId')] = {'channels': chans, 'log': logs, 'file': os.path.basename(p)}
        if len(ret) < 20:
            raise engine.HarnessError('only %d LgFormat files found in %s' % (len(ret), key))
        _FORMAT_CACHE[key] = ret
    return _FORMAT_CACHE[key]


def builtin_format_ids():
    """The ids PlotLogs offers with -x? (sorted)."""
    from TotalDepth.util.plot import FILMCfgXML
    return sorted(FILMCfgXML.FilmCfgXMLRead().uniqueIdS())


# ---------------------------------------------------------------------------------------------
# Reusable: SVG geometry
# ---------------------------------------------------------------------------------------------
SVG_NS = '{http://www.w3.org/2000/svg}'
_RE_OUTPUT = re.compile(r'Output (.*?) (START|END) ')
_RE_SECTION = re.compile(r'Plot (Tracks|X Grid|Legends|Curves) (START|END) ')
PT_TOL = 0.051


def _inches(text):
    """'2.750in' -> user units (96 per inch); None when the attribute is not in inches."""
    if text is None or not text.endswith('in'):
        return None
    try:
        return float(text[:-2]) * 96.0
    except ValueError:
        return None


def plot_margins():
    """(left, right, top, bottom) margins and the paper width in user units, from PlotConstants."""
    from TotalDepth.util.plot import PlotConstants
    m = PlotConstants.MarginQtrInch
    k = PlotConstants.VIEW_BOX_UNITS_PER_PLOT_UNITS

    def u(dim):
        return dim.convert(PlotConstants.DEFAULT_PLOT_UNITS).value * k
    return u(m.left), u(m.right), u(m.top), u(m.bottom), u(PlotConstants.STANDARD_PAPER_WIDTH)


def _untransformed(elem):
    """Document order walk that does not descend into groups with a ``transform`` (their coordinates are local: the
    API header is drawn in a rotated group)."""
    yield elem
    for child in elem:
        if child.tag == SVG_NS + 'g' and child.get('transform') is not None:
            continue
        yield from _untransformed(child)


def check_svg(svg_path_or_text, cc, absent_info=None, route='svg'):
    """Geometry checks of one log plot.  ``svg_path_or_text``: a path, or the document as str / bytes.

    * the document parses (expat, no DTD fetched) - oracle document-parses with the C18 signatures;
    * the root is ``svg`` (SVG namespace) with a ``viewBox`` "0 0 W H", W == paper width of PlotConstants;
    * the outermost track border lines (vertical ``line`` elements spanning the main pane) and the legend rectangles lie
      between the margins of PlotConstants (cross check of the margin constants against the drawing);
    * elements inside a ``g`` with a ``transform`` (the API header) are in local coordinates and are not measured;
    * every ``polyline`` point satisfies 0 <= x <= W, 0 <= y <= H and left margin <= x <= W - right margin (+- 0.051);
    * ``absent_info`` (optional) = {'plot_up': bool, 'x_first': float, 'x_last': float,
      'outputs': {name: {'x_present': [...], 'x_absent': [...]}}} in the X units of the plotted pass: the polylines between
      the comments "Output NAME START/END" must have no vertex strictly inside a depth interval in which the output has
      only absent samples (between the neighbouring present samples, tolerance 0.16) and an output without present
      samples has no polyline.

    Returns a dict of measurements (None when the document does not parse)."""
    if isinstance(svg_path_or_text, (bytes, bytearray)):
        raw = bytes(svg_path_or_text)
    elif isinstance(svg_path_or_text, str) and svg_path_or_text.lstrip().startswith('<'):
        raw = svg_path_or_text.encode('utf-8', 'surrogatepass')
    else:
        with open(svg_path_or_text, 'rb') as f:
            raw = f.read()
    root, bad = c18.parse_document(raw)
    if bad is not None:
        cc.dev(c18.ORACLE_PARSES, bad[0], 'route %s: %s' % (route, bad[1]))
        return None
    info = {'polylines': 0, 'points': 0, 'outputs': {}}
    if root.tag != SVG_NS + 'svg':
        cc.dev('svg-root', 'root-not-svg', 'route %s: root element %s' % (route, c18._a(root.tag)))
        return info
    vb = (root.get('viewBox') or '').replace(',', ' ').split()
    try:
        vb = [float(t) for t in vb]
    except ValueError:
        vb = []
    if len(vb) != 4 or vb[0] != 0.0 or vb[1] != 0.0 or not (vb[2] > 0 and vb[3] > 0 and math.isfinite(vb[2]) and math.isfinite(vb[3])):
        cc.dev('svg-viewbox', 'viewbox-missing-or-malformed', 'route %s: viewBox=%r' % (route, root.get('viewBox')))
        return info
    W, H = vb[2], vb[3]
    left, right, _top, _bottom, paper = plot_margins()
    if abs(W - paper) > 0.01:
        cc.dev('svg-viewbox', 'viewbox-width-not-paper-width', 'route %s: viewBox width %r, paper %r' % (route, W, paper))
    xmin, xmax = left, W - right
    # second pass with comments kept, to attribute polylines to outputs
    parser = ET.XMLParser(target=ET.TreeBuilder(insert_comments=True))
    parser.feed(raw)
    croot = parser.close()
    # main pane from the track lines
    spans = collections.Counter()
    vlines = []
    flat = list(_untransformed(croot))
    for e in (e for e in flat if e.tag == SVG_NS + 'line'):
        x1, x2, y1, y2 = (_inches(e.get(k)) for k in ('x1', 'x2', 'y1', 'y2'))
        if None in (x1, x2, y1, y2):
            continue
        if x1 == x2 and y1 != y2:
            spans[(min(y1, y2), max(y1, y2))] += 1
            vlines.append((x1, min(y1, y2), max(y1, y2)))
    pane = None
    if spans:
        (ptop, pbot), _n = max(spans.items(), key=lambda kv: (kv[1], kv[0][1] - kv[0][0]))
        pane = (ptop, pbot)
        xs = [x for x, a, b in vlines if (a, b) == pane]
        info['track_border_min'], info['track_border_max'] = min(xs), max(xs)
        if min(xs) < xmin - PT_TOL or max(xs) > xmax + PT_TOL:
            cc.dev('track-borders-inside-margins', 'track-border-outside-margin',
                   'route %s: track lines from x=%.2f to %.2f, margins %.2f .. %.2f' % (route, min(xs), max(xs), xmin, xmax))
    info['pane'] = pane
    for e in (e for e in flat if e.tag == SVG_NS + 'rect'):
        x, w = _inches(e.get('x')), _inches(e.get('width'))
        if x is not None and w is not None and (x < xmin - PT_TOL or x + w > xmax + PT_TOL):
            cc.dev('track-borders-inside-margins', 'rect-outside-margin',
                   'route %s: rect x=%.2f width=%.2f, margins %.2f .. %.2f' % (route, x, w, xmin, xmax))
    # polylines, in document order, attributed to the output named by the preceding comment
    current = None
    per_output = collections.OrderedDict()
    bad_pts = {'viewbox': None, 'margin': None, 'syntax': None}
    n_bad = {'viewbox': 0, 'margin': 0}
    for e in flat:
        if e.tag is ET.Comment:
            m = _RE_OUTPUT.search(e.text or '')
            if m:
                current = m.group(1).strip() if m.group(2) == 'START' else None
                if current is not None:
                    per_output.setdefault(current, [])
            continue
        if e.tag != SVG_NS + 'polyline':
            continue
        info['polylines'] += 1
        pts = []
        for tok in (e.get('points') or '').split():
            try:
                xs_, ys_ = tok.split(',')
                px, py = float(xs_), float(ys_)
                if not (math.isfinite(px) and math.isfinite(py)):
                    raise ValueError(tok)
            except ValueError:
                bad_pts['syntax'] = bad_pts['syntax'] or tok
                continue
            pts.append((px, py))
            if not (-PT_TOL <= px <= W + PT_TOL and -PT_TOL <= py <= H + PT_TOL):
                n_bad['viewbox'] += 1
                bad_pts['viewbox'] = bad_pts['viewbox'] or (px, py)
            elif not (xmin - PT_TOL <= px <= xmax + PT_TOL):
                n_bad['margin'] += 1
                bad_pts['margin'] = bad_pts['margin'] or (px, py)
        info['points'] += len(pts)
        if current is not None:
            per_output[current].append(pts)
    if bad_pts['syntax'] is not None:
        cc.dev('polyline-in-viewbox', 'polyline-point-not-a-finite-number-pair', 'route %s: point %r' % (route, bad_pts['syntax']))
    if bad_pts['viewbox'] is not None:
        cc.dev('polyline-in-viewbox', 'polyline-point-outside-viewbox', 'route %s: %d point(s), first %r, viewBox 0 0 %r %r' % (
            route, n_bad['viewbox'], bad_pts['viewbox'], W, H))
    if bad_pts['margin'] is not None:
        cc.dev('polyline-between-margins', 'polyline-point-outside-margins', 'route %s: %d point(s), first %r, margins %.2f .. %.2f' % (
            route, n_bad['margin'], bad_pts['margin'], xmin, xmax))
    info['outputs'] = {k: sum(len(p) for p in v) for k, v in per_output.items()}
    # absent values
    if absent_info is not None:
        info['absent_checked'] = _check_absent(cc, route, absent_info, per_output, pane)
    return info


def _check_absent(cc, route, absent_info, per_output, pane):
    if pane is None or absent_info['x_first'] == absent_info['x_last']:
        return 0
    ptop, pbot = pane
    x0, x1 = float(absent_info['x_first']), float(absent_info['x_last'])

    def y_of(x):
        prop = (x - x0) / (x1 - x0)
        return pbot - (pbot - ptop) * prop if absent_info['plot_up'] else ptop + (pbot - ptop) * prop
    tol = 0.16  # one decimal in the points, three decimals of inches in the track lines
    checked = 0
    at_sample = total = 0
    for name, d in absent_info['outputs'].items():
        if name not in per_output:
            continue
        lines = per_output[name]
        present = sorted(y_of(x) for x in d['x_present'])
        absent = sorted(y_of(x) for x in d['x_absent'])
        for pts in lines:  # how well does the depth mapping explain the drawing? (measurement, not an oracle)
            for _px, py in pts:
                j = bisect.bisect_left(present, py - tol)
                at_sample += j < len(present) and present[j] <= py + tol
                total += 1
        if not present:
            checked += 1
            if any(lines):
                cc.dev('no-point-for-absent', 'polyline-for-all-absent-output',
                       'route %s: output %s has no present sample but %d polyline(s)' % (route, name, len(lines)))
            continue
        if not absent:
            continue
        # gaps: maximal runs of absent samples between two present ones (or before the first / after the last present one)
        checked += 1
        lo_all, hi_all = min(present[0], absent[0]) - 10 * tol, max(present[-1], absent[-1]) + 10 * tol
        gaps = []
        bounds = [lo_all] + present + [hi_all]
        for a, b in zip(bounds, bounds[1:]):
            i = bisect.bisect_right(absent, a + tol)
            if i < len(absent) and absent[i] < b - tol and b - a > 4 * tol:
                gaps.append((a + tol, b - tol))
        if not gaps:
            cc.cls('svgcheck:absent-gaps-too-narrow-to-judge')
            continue
        starts = [g[0] for g in gaps]
        hits = 0
        first = None
        for pts in lines:
            for _px, py in pts:
                i = bisect.bisect_right(starts, py) - 1
                if i >= 0 and gaps[i][0] < py < gaps[i][1]:
                    hits += 1
                    first = first or (_px, py)
        if hits:
            cc.dev('no-point-for-absent', 'polyline-vertex-inside-gap-of-absent-values',
                   'route %s: output %s: %d vertex/vertices at depths where the channel has only absent values, first %r '
                   '(gaps in user units: %s)' % (route, name, hits, first, [(round(a, 1), round(b, 1)) for a, b in gaps[:4]]))
    cc.cls('svgcheck:depth-mapping-confirmed(>=50%-of-vertices-at-sample-depths)', total >= 10 and at_sample * 2 >= total)
    cc.cls('svgcheck:depth-mapping-unconfirmed', total >= 10 and at_sample * 2 < total)
    return checked


# ---------------------------------------------------------------------------------------------
# Part svg-checker: self check of check_svg (harness error when it does not see a planted defect)
# ---------------------------------------------------------------------------------------------
def _svg_text(points, vb='0 0 816.000 960.000', lines=((0.25, 1.0, 9.0), (8.25, 1.0, 9.0)), root='svg', extra=''):
    body = ''.join('\n  <line x1="%.3fin" x2="%.3fin" y1="%.3fin" y2="%.3fin"/>' % (x, x, a, b) for x, a, b in lines)
    vbattr = ' viewBox="%s"' % vb if vb is not None else ''
    return ('<?xml version=\'1.0\' encoding="utf-8"?>\n<!DOCTYPE svg PUBLIC "-//W3C//DTD SVG 1.1//EN" '
            '"http://www.w3.org/Graphics/SVG/1.1/DTD/svg11.dtd">\n<%s height="10in" version="1.1"%s width="8.5in" '
            'xmlns="http://www.w3.org/2000/svg">%s<!--&#010;.......... Output GR   START ...........&#010;-->%s'
            '<!--&#010;........... Output GR   END ............&#010;-->%s</%s>\n' % (
                root, vbattr, body, ''.join('\n  <polyline fill="none" points="%s"/>' % p for p in points), extra, root))


class _Probe:
    """Minimal stand-in for CaseCtx used by the self check."""
    def __init__(self):
        self.sigs = []

    def dev(self, oracle, signature, detail=''):
        self.sigs.append(signature)

    def cls(self, name, flag=True):
        pass


def svg_checker_self_check():
    # pane 1in..9in = y 96..864, up plot: x_first (100.0) at the bottom; samples every 10 X units = 76.8 user units
    ai = {'plot_up': True, 'x_first': 100.0, 'x_last': 0.0,
          'outputs': {'GR': {'x_present': [100.0, 90.0, 70.0], 'x_absent': [80.0]}}}
    good = '100.0,864.0 120.0,787.2'
    planted = [
        ('clean', _svg_text([good, '130.0,633.6']), ai, []),
        ('outside-viewbox', _svg_text(['100.0,864.0 900.0,787.2']), None, ['polyline-point-outside-viewbox']),
        ('negative-y', _svg_text(['100.0,-3.0']), None, ['polyline-point-outside-viewbox']),
        ('left-of-margin', _svg_text(['23.9,864.0']), None, ['polyline-point-outside-margins']),
        ('right-of-margin', _svg_text(['792.1,864.0']), None, ['polyline-point-outside-margins']),
        ('on-margins', _svg_text(['24.0,864.0 792.0,96.0']), None, []),
        ('nan', _svg_text(['nan,5.0']), None, ['polyline-point-not-a-finite-number-pair']),
        ('no-viewbox', _svg_text([good], vb=None), None, ['viewbox-missing-or-malformed']),
        ('root', _svg_text([good], root='g'), None, ['root-not-svg']),
        ('track-outside', _svg_text([good], lines=((0.20, 1.0, 9.0), (8.25, 1.0, 9.0))), None, ['track-border-outside-margin']),
        ('at-absent', _svg_text([good, '125.0,710.4']), ai, ['polyline-vertex-inside-gap-of-absent-values']),
        ('all-absent', _svg_text([good]), {'plot_up': True, 'x_first': 100.0, 'x_last': 0.0,
                                            'outputs': {'GR': {'x_present': [], 'x_absent': [100.0, 90.0]}}},
         ['polyline-for-all-absent-output']),
        ('unparseable', _svg_text([good], extra='&#000;'), None, [c18.SIG_BAD_CHAR_REF]),
        ('down-plot', _svg_text(['100.0,96.0 120.0,172.8']), dict(ai, plot_up=False), []),
    ]
    for name, text, info, want in planted:
        probe = _Probe()
        check_svg(text, probe, info, route='self-check')
        if sorted(set(probe.sigs)) != sorted(want):
            raise engine.HarnessError('check_svg self check %r: reported %r, expected %r' % (name, probe.sigs, want))
    return len(planted)


def check_svg_selfcheck(case, cc):
    n = svg_checker_self_check()
    cc.cls('svgcheck:self-check-passed')
    cc.nt(True, key=['svg-checker', case['k']])
    cc.sample({'svg_checker_planted_documents': n})


def run_svg_selfcheck(ctx, part, tier, shard, nshards):
    if shard == 0:
        for k in (0, 1):  # two evaluations so that the part alone satisfies "two distinct non-trivial cases"
            ctx.eval_case(part, {'k': k})


# ---------------------------------------------------------------------------------------------
# Part las-plot
# ---------------------------------------------------------------------------------------------
LAS_MNEMS = ('GR', 'SP', 'CALI', 'ILD', 'ILM', 'RHOB', 'NPHI', 'DT', 'TENS', 'SFL', 'MSFL', 'DRHO', 'PEF', 'BS', 'HCAL', 'ROP5',
             'RXO', 'LLD', 'LLS', 'DPHI', 'TNPH', 'C1', 'C2', 'AHT90', 'PSR', 'ATR')
LAS_UNITS = {'GR': 'GAPI', 'SP': 'MV', 'CALI': 'IN', 'ILD': 'OHMM', 'ILM': 'OHMM', 'RHOB': 'G/C3', 'NPHI': 'V/V', 'DT': 'US/F',
             'TENS': 'LBF', 'DRHO': 'G/C3', 'PEF': 'B/E', 'BS': 'IN', 'HCAL': 'IN', 'ROP5': 'F/HR', 'DPHI': 'V/V', 'TNPH': 'V/V',
             'C1': 'IN', 'C2': 'IN'}
SHAPES = ('constant', 'ramp', 'spikes', 'huge', 'tiny', 'nonpositive', 'gaps', 'all-absent')
NULL_TEXT = '-999.25'
SCALES = (0, 20, 40, 100, 200, 500, 1000)


def _tok(x: float) -> str:
    if x == 0:
        return '0.0'
    if 1e-4 <= abs(x) < 1e7:
        return ('%.4f' % x)
    return '%.6e' % x


@st.composite
def las_plot_cases(draw):
    nframes = draw(st.one_of(st.integers(3, 12), st.integers(3, 40)))
    unit = draw(st.sampled_from(('M', 'FT', 'F', 'M')))
    down = draw(st.booleans())
    start = draw(st.integers(100, 4000)) + draw(st.sampled_from((0.0, 0.5, 0.25)))
    step = draw(st.sampled_from((0.5, 0.1524, 1.0, 0.25, 0.1))) * (1 if down else -1)
    index = ['%.4f' % (start + i * step) for i in range(nframes)]
    mnems = draw(st.lists(st.sampled_from(LAS_MNEMS), min_size=1, max_size=5, unique=True))
    curves, columns = [], []
    for m in mnems:
        shape = draw(st.sampled_from(SHAPES))
        base = draw(st.sampled_from((0.0, 1.0, 50.0, 2.45, 0.3, 100.0, 8.5, -20.0, 0.2, 2000.0)))
        amp = draw(st.sampled_from((0.0, 1.0, 30.0, 200.0, 1e4, 0.01)))
        col = []
        for i in range(nframes):
            if shape == 'constant':
                v = base
            elif shape == 'ramp':
                v = base + amp * i / max(1, nframes - 1)
            elif shape == 'spikes':
                v = base + (amp * draw(st.sampled_from((1.0, -1.0, 100.0, -100.0, 1e6))) if draw(st.integers(0, 3)) == 0 else 0.0)
            elif shape == 'huge':
                v = draw(st.sampled_from((1e30, -1e30, base, 1e30, 3e29, -3e29)))
            elif shape == 'tiny':
                v = draw(st.sampled_from((1e-30, -1e-30, 1e-30, 5e-31, 0.0)))
            elif shape == 'nonpositive':
                v = draw(st.sampled_from((0.0, -1.0, -base - 1.0, base + 1.0, -1e-3)))
            elif shape == 'gaps':
                v = None if draw(st.integers(0, 2)) == 0 else base + amp * ((i * 7) % 5) / 5.0
            else:
                v = None
            col.append(NULL_TEXT if v is None else _tok(v))
        if shape == 'gaps' and NULL_TEXT not in col:
            col[draw(st.integers(0, nframes - 1))] = NULL_TEXT
        curves.append({'mnem': m, 'unit': LAS_UNITS.get(m, 'OHMM'), 'value': '', 'kind': 'empty', 'desc': shape})
        columns.append(col)
    model = {
        'vers': '2.0', 'vers_desc': 'CWLS LOG ASCII STANDARD - VERSION 2.0', 'wrap_desc': 'ONE LINE PER DEPTH STEP',
        'order': ['W', 'C'],
        'W': [{'mnem': 'STRT', 'unit': unit, 'value': index[0], 'kind': 'float', 'desc': 'START DEPTH'},
              {'mnem': 'STOP', 'unit': unit, 'value': index[-1], 'kind': 'float', 'desc': 'STOP DEPTH'},
              {'mnem': 'STEP', 'unit': unit, 'value': '%.4f' % step, 'kind': 'float', 'desc': 'STEP'},
              {'mnem': 'NULL', 'unit': '', 'value': NULL_TEXT, 'kind': 'float', 'desc': 'NULL VALUE'},
              {'mnem': 'WELL', 'unit': '', 'value': 'GENERATED 1', 'kind': 'text', 'desc': 'WELL'}],
        'C': [{'mnem': 'DEPT', 'unit': unit, 'value': '', 'kind': 'empty', 'desc': 'DEPTH'}] + curves,
        'data': [[index[i]] + [c[i] for c in columns] for i in range(nframes)],
    }
    return {'model': model, 'wrap': draw(st.integers(0, 3)) == 0,
            'formats': draw(st.lists(st.integers(0, 63), min_size=1, max_size=3, unique=True)),
            'prefer_matching': draw(st.integers(0, 3)) != 0,
            'scale': draw(st.sampled_from(SCALES)), 'api_header': draw(st.integers(0, 3)) == 0,
            'tool_route': draw(st.sampled_from(('none', 'none', '-x', '-X')))}


def las_absent_info(model):
    """absent_info of check_svg from the LAS model alone (independent of the reader)."""
    xs = [float(r[0]) for r in model['data']]
    outs = {}
    for c, line in enumerate(model['C'][1:], start=1):
        outs[line['mnem']] = {'x_present': [xs[i] for i, r in enumerate(model['data']) if r[c] != NULL_TEXT],
                              'x_absent': [xs[i] for i, r in enumerate(model['data']) if r[c] == NULL_TEXT]}
    return {'plot_up': float(model['W'][2]['value']) < 0, 'x_first': xs[0], 'x_last': xs[-1], 'outputs': outs}


class _Capture(logging.Handler):
    def __init__(self):
        super().__init__(logging.ERROR)
        self.msgs = []

    def emit(self, record):
        try:
            self.msgs.append(record.getMessage()[:600])
        except Exception:  # noqa
            self.msgs.append(str(record.msg)[:600])


def _plotlogs_opts(lg_formats, lg_min=0, api_header=False, scale=0):
    return argparse.Namespace(recurse=False, keepGoing=True, LgFormat=list(lg_formats), apiHeader=api_header,
                              LgFormat_min=lg_min, scale=scale, jobs=0, glob=None)


def check_las_plot(case, cc):
    from TotalDepth import PlotLogs
    from TotalDepth.LAS.core import LASRead
    from TotalDepth.util.plot import Plot, XMLMatches
    model = case['model']
    fmts = format_channels()
    ids = builtin_format_ids()
    mnems = [l['mnem'] for l in model['C'][1:]]
    shapes = {l['mnem']: l['desc'] for l in model['C'][1:]}
    matching = [u for u in ids if u in fmts and fmts[u]['channels'] & set(mnems)]
    chosen = []
    for k in case['formats']:
        pool = matching if (case['prefer_matching'] and matching) else ids
        u = pool[k % len(pool)]
        if u not in chosen:
            chosen.append(u)
    log_curves = set()
    for u in chosen:
        log_curves |= fmts.get(u, {'log': set()})['log'] & set(mnems)
    cc.cls('las:format-matches-a-curve', any(u in matching for u in chosen))
    cc.cls('las:format-without-matching-curve', any(u not in matching for u in chosen))
    cc.cls('las:has-absent-gap', 'gaps' in shapes.values())
    cc.cls('las:all-absent-curve', 'all-absent' in shapes.values())
    cc.cls('las:huge-values', 'huge' in shapes.values())
    cc.cls('las:tiny-values', 'tiny' in shapes.values())
    cc.cls('las:spikes', 'spikes' in shapes.values())
    cc.cls('las:nonpositive-on-log-curve', any(shapes[m] in ('nonpositive', 'tiny', 'huge') for m in log_curves))
    cc.cls('las:up-log', float(model['W'][2]['value']) < 0)
    cc.cls('las:down-log', float(model['W'][2]['value']) > 0)
    cc.cls('las:tool-route' + case['tool_route'], case['tool_route'] != 'none')
    cc.nt(len(mnems) >= 2 and any(s in ('gaps', 'all-absent') for s in shapes.values()))
    text = genlas.render_las(model, genlas.plain_layout(case['wrap']))
    cc.sample({'curves': shapes, 'frames': len(model['data']), 'formats': chosen, 'scale': case['scale']})
    ai = las_absent_info(model)
    with tempfile.TemporaryDirectory(prefix='vt_c19_') as d:
        path = os.path.join(d, 'case.las')
        with open(path, 'w', encoding='ascii') as f:
            f.write(text)
        _silence()
        try:
            try:
                las = LASRead.LASRead(path)
            except Exception as err:  # noqa
                cc.unexpected(err, 'las-reader-accepts-generated-file')
                return
            # route A: what PlotLogs._plotLASUsingLgFormats does for every -x format
            for u in chosen:
                out = os.path.join(d, 'case.las_0000_%s.svg' % u)
                try:
                    plot = Plot.PlotReadXML(u, case['scale'])
                    has = plot.hasDataToPlotLAS(las, u)
                    curves = npoints = None
                    if has:
                        curves, npoints = plot.plotLogPassLAS(las, las.x_axis_start, las.x_axis_stop, u, out, frameStep=1,
                                                              title='Plot: case LogPass: 0 FILM ID=%s' % u,
                                                              plotHeader=case['api_header'])
                except Exception as err:  # noqa
                    cc.unexpected(err)
                    c18.release_exception_frames(err)  # plotLogPassLAS leaves closing of the SVG file to the collector
                    failed = True
                else:
                    failed = False
                if failed:
                    if os.path.exists(out):
                        check_svg(out, cc, None, route='las-plot(after exception)')
                    continue
                cc.cls('las:hasDataToPlotLAS-true', has)
                if u in matching and not (has and curves and os.path.exists(out)):
                    cc.dev('las-input-produces-plot', 'las-route:no-plot-although-curves-match-format',
                           'format %s plots %s, the LAS file has %s; hasDataToPlotLAS=%r curves=%r file written=%r' % (
                               u, sorted(fmts[u]['channels'] & set(mnems)), mnems, has, curves, os.path.exists(out)))
                if os.path.exists(out):
                    cc.cls('las:svg-checked')
                    check_svg(out, cc, ai, route='las-plot')
            # route B: the -X option of PlotLogs asks XMLMatches which formats fit the file
            try:
                fmap = XMLMatches.fileCurveMap(las)
            except Exception as err:  # noqa
                cc.unexpected(err)
            else:
                for u in matching:
                    if not fmap.get(u):
                        cc.dev('las-input-produces-plot', 'las-route:XMLMatches-misses-matching-format',
                               'format %s plots %s of %s but fileCurveMap gives %r' % (u, sorted(fmts[u]['channels'] & set(mnems)),
                                                                                        mnems, fmap.get(u)))
                        break
            # route C: the tool itself
            if case['tool_route'] != 'none':
                outdir = os.path.join(d, 'tool')
                os.makedirs(outdir)
                opts = _plotlogs_opts(chosen if case['tool_route'] == '-x' else [], 1 if case['tool_route'] == '-X' else 0,
                                      case['api_header'], case['scale'])
                cap = _Capture()
                logging.getLogger().addHandler(cap)
                logging.disable(logging.WARNING)
                try:
                    plp = PlotLogs.PlotLogPasses(path, os.path.join(outdir, 'case.las'), opts)
                except Exception as err:  # noqa
                    cc.unexpected(err)
                else:
                    svgs = sorted(glob.glob(os.path.join(outdir, '*.svg')))
                    if any(u in matching for u in chosen) and case['tool_route'] == '-x' and not svgs:
                        cc.dev('las-input-produces-plot', 'las-route:no-plot-although-curves-match-format',
                               'PlotLogPasses -x %s wrote no SVG for a LAS file with %s (plotCntr=%d, logged: %s)' % (
                                   chosen, mnems, plp.plotLogInfo.plotCntr, cap.msgs[:2]))
                    for s in svgs:
                        cc.cls('las:svg-checked')
                        check_svg(s, cc, ai, route='las-plot(tool)')
                finally:
                    logging.getLogger().removeHandler(cap)
                    _silence()
        finally:
            _unsilence()



# ---------------------------------------------------------------------------------------------
# Part adapter-plot: the plotting code itself on generated data, through a frame holder that offers the interface Plot
# documents ("theLpData is a LogPass or a LASFile ... needs curveUnitsAsStr() implemented", "needs hasOutpMnem()")
# ---------------------------------------------------------------------------------------------
def make_frame_holder(model):
    """A LAS-file-like frame holder built from the model alone (LASRead is not involved), with the accessors that
    Plot.plotLogPassLAS / _plotCurves / _plotScale call (both spellings), keyed by Mnem the way the LgFormat outputs are."""
    from TotalDepth.LIS.core import EngVal, Mnem
    xs = [float(r[0]) for r in model['data']]
    unit = {'M': b'M   ', 'FT': b'FT  ', 'F': b'FEET'}[model['W'][0]['unit']]
    cols, units = collections.OrderedDict(), {}
    for c, line in enumerate(model['C'][1:], start=1):
        k = Mnem.Mnem(line['mnem'], len_mnem=-Mnem.LEN_MNEM)
        cols[k] = [float(r[c]) for r in model['data']]
        units[k] = line['unit']
    step = float(model['W'][2]['value'])

    class Holder:
        id = 'generated'
        nullValue = null_value = float(NULL_TEXT)
        xAxisUnits = x_axis_units = unit
        x_axis_start = EngVal.EngVal(xs[0], unit)
        x_axis_stop = EngVal.EngVal(xs[-1], unit)

        def number_of_frames(self):
            return len(xs)

        def number_of_data_points(self):
            return len(xs) * len(cols)

        def hasOutpMnem(self, m):
            return m in cols
        has_output_mnemonic = hasOutpMnem

        def curve_mnemonics(self, ordered=False):
            return [k.pStr(strip=True) for k in cols]

        def is_log_down(self):
            return step > 0

        def genOutpPoints(self, m):
            return iter(list(zip(xs, cols[m])))

        def curveUnitsAsStr(self, m):
            return units[m]
        curve_units_as_str = curveUnitsAsStr
    return Holder()


def check_adapter_plot(case, cc):
    from TotalDepth.util.plot import Plot
    _quiet_logging()
    model = case['model']
    fmts = format_channels()
    ids = builtin_format_ids()
    mnems = [l['mnem'] for l in model['C'][1:]]
    shapes = {l['mnem']: l['desc'] for l in model['C'][1:]}
    matching = [u for u in ids if u in fmts and fmts[u]['channels'] & set(mnems)]
    if not matching:
        cc.cls('adapter:no-format-for-these-curves')
        return
    chosen = []
    for k in case['formats']:
        u = matching[k % len(matching)]
        if u not in chosen:
            chosen.append(u)
    log_curves = set()
    for u in chosen:
        log_curves |= fmts[u]['log'] & set(mnems)
    cc.cls('adapter:has-absent-gap', 'gaps' in shapes.values())
    cc.cls('adapter:all-absent-curve', 'all-absent' in shapes.values())
    cc.cls('adapter:huge-values', 'huge' in shapes.values())
    cc.cls('adapter:tiny-values', 'tiny' in shapes.values())
    cc.cls('adapter:spikes', 'spikes' in shapes.values())
    cc.cls('adapter:nonpositive-on-log-curve', any(shapes[m] in ('nonpositive', 'tiny', 'huge') for m in log_curves))
    cc.cls('adapter:log-curve', bool(log_curves))
    cc.cls('adapter:up-log', float(model['W'][2]['value']) < 0)
    cc.cls('adapter:down-log', float(model['W'][2]['value']) > 0)
    cc.nt(len(mnems) >= 2 and any(s in ('gaps', 'all-absent') for s in shapes.values()))
    cc.sample({'curves': shapes, 'frames': len(model['data']), 'formats': chosen, 'scale': case['scale']})
    ai = las_absent_info(model)
    holder = make_frame_holder(model)
    with tempfile.TemporaryDirectory(prefix='vt_c19_') as d:
        _silence()
        try:
            for u in chosen:
                out = os.path.join(d, 'case_%s.svg' % u)
                try:
                    plot = Plot.PlotReadXML(u, case['scale'])
                    x_from, x_to = holder.x_axis_start, holder.x_axis_stop
                    if len(model['data']) % 2 == 0:
                        # the interval to plot is given as engineering values: here in other units than the X axis of the
                        # data (metres for a log in feet and the reverse), which denotes the same interval
                        other = b'FEET' if holder.x_axis_units == b'M   ' else b'M   '
                        x_from, x_to = x_from.newEngValInUnits(other), x_to.newEngValInUnits(other)
                        cc.cls('adapter:x-interval-in-other-units')
                    curves, npoints = plot.plotLogPassLAS(holder, x_from, x_to, u, out, frameStep=1,
                                                          title='Plot: generated FILM ID=%s' % u, plotHeader=False)
                except Exception as err:  # noqa
                    cc.unexpected(err)
                    c18.release_exception_frames(err)  # plotLogPassLAS leaves closing of the SVG file to the collector
                    failed = True
                else:
                    failed = False
                if failed:
                    if os.path.exists(out):
                        check_svg(out, cc, None, route='adapter-plot(after exception)')
                    continue
                if not curves or not os.path.exists(out):
                    cc.dev('data-produces-plot', 'no-plot-although-curves-match-format',
                           'format %s plots %s of %s: curves=%r file written=%r' % (
                               u, sorted(fmts[u]['channels'] & set(mnems)), mnems, curves, os.path.exists(out)))
                    continue
                res = check_svg(out, cc, ai, route='adapter-plot %s scale %s' % (u, case['scale']))
                cc.cls('adapter:svg-checked')
                if res:
                    cc.cls('adapter:absent-output-checked', bool(res.get('absent_checked')))
                    cc.cls('adapter:polylines>=10', res['polylines'] >= 10)
        finally:
            _unsilence()

# ---------------------------------------------------------------------------------------------
# Part bundled-lis-plot
# ---------------------------------------------------------------------------------------------
_LIS_INFO_CACHE = {}


def lis_file_info(path):
    """Per log pass of a LIS file: channel names and absent_info (X values from LogPass.genOutpPoints)."""
    if path in _LIS_INFO_CACHE:
        return _LIS_INFO_CACHE[path]
    from TotalDepth.LIS.core import File, FileIndexer
    fi = File.FileRead(path, theFileId=path, keepGoing=True)
    idx = FileIndexer.FileIndex(fi)
    ret = []
    for ie in idx.genLogPasses():
        lp = ie.logPass
        entry = {'frames': lp.totalFrames, 'channels': set(), 'absent_info': None}
        for m in lp.outpMnemS():
            entry['channels'].add(m.pStr(strip=True))
        if lp.totalFrames > 0:
            lp.setFrameSet(fi)
            outs = {}
            null = lp.nullValue
            for m in lp.outpMnemS():
                try:
                    pts = list(lp.genOutpPoints(m))
                except Exception:  # noqa - multi-value channels (dipmeter) have no single curve
                    continue
                outs[m.pStr(strip=True)] = {'x_present': [float(x) for x, v in pts if v != null],
                                            'x_absent': [float(x) for x, v in pts if v == null]}
            entry['absent_info'] = {'plot_up': bool(lp.dfsr.ebs.logUp), 'x_first': float(lp.xAxisFirstVal),
                                    'x_last': float(lp.xAxisLastVal), 'outputs': outs}
        ret.append(entry)
    _LIS_INFO_CACHE[path] = ret
    return ret


def plot_lis_file(path_in, out_dir, lg_formats=(), api_header=False, scale=0, lg_min=0):
    """PlotLogs.PlotLogPasses on one LIS file the way the command line tool does.  Returns (PlotLogInfo or None, list of SVG
    paths, logged errors, exception or None)."""
    from TotalDepth import PlotLogs
    _quiet_logging()
    cap = _Capture()
    logging.getLogger().addHandler(cap)
    logging.disable(logging.WARNING)
    info, err = None, None
    try:
        plp = PlotLogs.PlotLogPasses(path_in, os.path.join(out_dir, os.path.basename(path_in)),
                                     _plotlogs_opts(lg_formats, lg_min, api_header, scale))
        info = plp.plotLogInfo
    except Exception as e:  # noqa
        err = e
    finally:
        logging.getLogger().removeHandler(cap)
        logging.disable(logging.NOTSET)
    return info, sorted(glob.glob(os.path.join(out_dir, '*.svg'))), cap.msgs, err


_RE_LP_INDEX = re.compile(r'_(\d{4})_[^/]*\.svg$')


def check_bundled_lis_plot(case, cc):
    path_in = os.path.join(engine.REPO, 'example_data', 'LIS', 'data', case['file'])
    if not os.path.isfile(path_in):
        raise engine.HarnessError('bundled file missing: %s' % path_in)
    fmt = case['format']
    internal = fmt is None
    cc.cls('lisplot:internal-film-pres', internal)
    cc.cls('lisplot:xml-format', not internal)
    cc.cls('lisplot:api-header', bool(case.get('api')))
    passes = lis_file_info(path_in)
    with tempfile.TemporaryDirectory(prefix='vt_c19_') as d:
        info, svgs, logged, err = plot_lis_file(path_in, d, [] if internal else [fmt], bool(case.get('api')))
        if err is not None:
            cc.unexpected(err)
        elif info.lisFileCntr != 1:
            cc.dev('lis-input-produces-plot', 'plotlogs-reports-lis-failure',
                   '%s format %s: PlotLogPasses gave up on the file; logged: %s' % (case['file'], fmt, ' | '.join(logged[-3:])))
        npoints = 0
        for s in svgs:
            m = _RE_LP_INDEX.search(s)
            ai = None
            if m and int(m.group(1)) < len(passes):
                ai = passes[int(m.group(1))]['absent_info']
            res = check_svg(s, cc, ai, route='bundled-lis-plot %s %s' % (case['file'], os.path.basename(s)))
            cc.cls('lisplot:svg-checked')
            if res:
                npoints += res['points']
                cc.cls('lisplot:absent-output-checked', bool(res.get('absent_checked')))
                if res['polylines'] == 0:
                    cc.cls('lisplot:svg-without-polyline')
        cc.cls('lisplot:polyline-points>=1000', npoints >= 1000)
    if not internal and err is None:
        fmts = format_channels()
        want = any(p['frames'] > 0 and fmt in fmts and (fmts[fmt]['channels'] & p['channels']) for p in passes)
        if want and not svgs:
            cc.dev('lis-input-produces-plot', 'lis-route:no-plot-although-curves-match-format',
                   '%s has channels %s of format %s but no SVG was written; logged: %s' % (
                       case['file'], sorted(set().union(*[fmts[fmt]['channels'] & p['channels'] for p in passes])), fmt,
                       ' | '.join(logged[-2:])))
        cc.cls('lisplot:format-matches-file', want)
        cc.cls('lisplot:format-does-not-match-file', not want)
        if svgs and not want:
            cc.cls('lisplot:plot-through-alternative-name')
    cc.nt(bool(svgs), key=['bundled-lis-plot', case['file'], fmt, bool(case.get('api'))])
    cc.sample({'file': case['file'], 'format': fmt, 'svgs': len(svgs), 'polyline_points': npoints})


def bundled_lis_cases():
    files = sorted(os.path.basename(p) for p in glob.glob(os.path.join(engine.REPO, 'example_data', 'LIS', 'data', '*.LIS')))
    if len(files) < 3:
        raise engine.HarnessError('bundled LIS files not found')
    ret = []
    for f in files:
        ret.append({'file': f, 'format': None})
        ret.append({'file': f, 'format': None, 'api': True})
    ids = builtin_format_ids()
    for f in files:
        for i, u in enumerate(ids):
            ret.append({'file': f, 'format': u})
    ret.append({'file': files[0], 'format': 'Triple_Combo', 'api': True})
    return ret


def run_bundled_lis(ctx, part, tier, shard, nshards):
    for i, case in enumerate(bundled_lis_cases()):
        if i % nshards == shard:
            ctx.eval_case(part, case)


# ---------------------------------------------------------------------------------------------
#: parts that other modules plug in (generated LIS log passes): callables tier -> list of parts
EXTRA_PARTS = []


def parts(tier):
    ret = [
        HypPart('scale-maths', scale_cases(), check_scale, 12000, 320000),
        HypPart('las-plot', las_plot_cases(), check_las_plot, 40, 1000),
        HypPart('adapter-plot', las_plot_cases(), check_adapter_plot, 80, 2400),
        EnumPart('bundled-lis-plot', run_bundled_lis, check_bundled_lis_plot),
        EnumPart('svg-checker', run_svg_selfcheck, check_svg_selfcheck),
    ]
    for fn in EXTRA_PARTS:
        ret.extend(fn(tier))
    from vt.props import c19_files   # part that needs generated LIS files
    ret.extend(c19_files.parts(tier))
    return ret


RULE += '  Added after the seeding rounds: adapter-plot gives the plot interval in metres for data in feet and the reverse (every second case); generated FILM tables use every DSCA code of the scale map including D240.'
RULE += '  Round 16: half of the generated LIS files declare -9999 or -32768 as the absent value (entry block 12) and hold it in their gaps.'
