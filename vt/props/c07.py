"""C07 - representation codes decode per the standards; encoders invert decoders.

Oracle: exact reference decoders written from the standards (vt.ref.repcodes, Fraction arithmetic), a three-way
differential between the Python, Cython and C++ implementations of LIS code 68 (rebuilt from the sources in the
tree), and the encode/decode laws of the property statement.
"""
import math
import struct
from fractions import Fraction

import numpy as np
from hypothesis import strategies as st

from vt import engine
from vt.engine import EnumPart, HypPart
from vt.ref import repcodes as R

PID = 'C07'
LEVEL = 'exploration'
NEEDS_LIS_EXT = True
TECHNIQUE = ('bounded exhaustive enumeration of code words + Hypothesis generated words/byte strings/doubles against exact '
             'Fraction reference decoders; three-way differential of the code 68 implementations')
LEVEL_TEXT = ('all 2^8 / 2^16 words of the short codes in every run; stratified (every sign x exponent x boundary and patterned '
              'mantissas) + random words of the 32 bit codes in the quick tier and ALL 2^32 words of LIS 50/68/70 (each '
              'implementation) plus a 2^28 stratified sweep of ISINGL/VSINGL in the thorough tier; grammar generated and '
              'truncated byte strings for the variable length codes; finite doubles for the encoders')
RULE = ('words: enumerated (8/16 bit codes completely; 32 bit codes stratified in quick, completely in thorough) and drawn by '
        'Hypothesis; byte strings for variable length codes built from the grammar with every UVARI width, then truncated at '
        'every length; doubles from Hypothesis floats + boundary set.  Non-trivial: word with non-zero mantissa and a '
        'non-extreme exponent; string whose length prefix needs 2 or 4 UVARI bytes or a truncated string; double with '
        '2^-129 <= |v| < 2^127.  Distinct = distinct (code, word/bytes/double).')
ASSUMPTIONS = ['unsupported RP66V1 codes (FSHORT, FSING1/2, FDOUB1/2, CSINGL, CDOUBL, ATTREF) and the dipmeter codes 130/234 are out of scope',
               'where the standard value is not a finite double (LIS 50 with huge exponents) only "no wrong finite value" is required',
               'sign of zero is not compared (the standards define values)',
               'VSINGL with exponent 0 and sign 1 (VAX reserved operand) is not constrained',
               'truncated variable-length input must raise IndexError (documented by LogicalData) or a TotalDepth RP66V1 exception']
SHARDS = {'quick': 4, 'thorough': 16}
REQUIRED_CLASSES = {'uvari-width-2': 1, 'uvari-width-4': 1, 'truncated': 1, 'to68-in-range': 1, 'to68-out-of-range': 1}


class Impl:
    _inst = None

    def __init__(self):
        from vt import build_ext
        mods = build_ext.install()
        from TotalDepth.LIS.core import RepCode, pRepCode
        self.RepCode = RepCode
        self.p = pRepCode
        self.c = mods['cRepCode']
        self.cp = mods['cpRepCode']
        from TotalDepth.RP66V1.core import RepCode as RP
        from TotalDepth.RP66V1.core.File import LogicalData
        import TotalDepth.RP66V1
        self.RP = RP
        self.LD = LogicalData
        self.RPExc = TotalDepth.RP66V1.ExceptionTotalDepthRP66V1
        R.self_check()

    @classmethod
    def get(cls):
        if cls._inst is None:
            cls._inst = Impl()
        return cls._inst

    def lis_impls(self, code):
        """[(name, fn(word-as-unpacked-by-the-module's-struct))]"""
        name = 'from%d' % code
        ret = [('p', getattr(self.p, name)), ('c', getattr(self.c, name))]
        if code == 68:
            ret.append(('cp', self.cp.from68))
        return ret


def lis_struct(code):
    """The struct the package itself uses to turn the bytes of a code into the word handed to fromNN()."""
    return getattr(Impl.get().p, 'STRUCT_RC_%d' % code)


def same_value(got, exact):
    """got: float/int from the implementation, exact: Fraction/int."""
    if isinstance(got, bool) or not isinstance(got, (int, float)):
        return False
    if isinstance(got, float) and not math.isfinite(got):
        return False
    return Fraction(got) == exact


# -------------------------------------------------------------------------------------------------
# LIS single word check (also the replay function of the sweeps)
# -------------------------------------------------------------------------------------------------
def lis50_class(w):
    e = R._signed((w >> 16) & 0xFFFF, 16)
    if e >= 1024 or e < -1024:
        return 'exponent-outside-11-bit-range'
    if e < 0:
        return 'negative-exponent'
    return 'value'


def check_lis_word(case, cc):
    I = Impl.get()
    code, w = case['code'], case['word']
    ref_fn, size = R.LIS[code]
    exact = ref_fn(w)
    raw = w.to_bytes(size, 'big')
    status, dbl = R.as_double(exact)
    nt = True
    if code == 68:
        nt = (w & 0x7FFFFF) not in (0,) and ((w >> 23) & 0xFF) not in (0, 255)
    elif code == 50:
        nt = (w & 0xFFFF) != 0 and -1000 < R._signed(w >> 16, 16) < 1000
    elif code == 49:
        nt = (w & 0xFFF0) != 0 and (w & 0xF) not in (0, 15)
    cc.nt(nt)
    word = lis_struct(code).unpack(raw)[0]
    results = {}
    for name, fn in I.lis_impls(code) + [('readBytes', None)]:
        try:
            got = I.RepCode.readBytes(code, raw) if fn is None else fn(word)
        except OverflowError as err:
            if status == 'overflow':
                continue  # value is beyond doubles: reporting an overflow is not a wrong value
            cc.dev('lis-decode==standard', 'lis%d:OverflowError' % code, '%s(0x%0*x) raised %r; standard value %s' % (
                name, 2 * size, w, err, float(exact)))
            continue
        results[name] = got
        if status == 'overflow':
            if isinstance(got, float) and math.isfinite(got):
                cls = lis50_class(w) if code == 50 else 'value'
                cc.dev('lis-decode==standard', 'lis%d:%s' % (code, cls), '%s(0x%0*x)=%r; standard value 2^%d*%d overflows a double' % (
                    name, 2 * size, w, got, R._signed(w >> 16, 16) - 15, R._signed(w & 0xFFFF, 16)))
            continue
        ok = (got == dbl) if isinstance(got, float) else same_value(got, exact)
        if not ok:
            cls = lis50_class(w) if code == 50 else 'value'
            cc.dev('lis-decode==standard', 'lis%d:%s' % (code, cls), '%s(0x%0*x)=%r; standard value %r' % (name, 2 * size, w, got, dbl))
        if R.LIS[code][0] in (R.lis56, R.lis66, R.lis73, R.lis77, R.lis79) and not isinstance(got, int):
            cc.dev('lis-decode==standard', 'lis%d:type' % code, '%s gave %r, an integer code' % (name, type(got)))
    if code == 68 and len(results) >= 3:
        packed = {k: struct.pack('>d', float(v)) for k, v in results.items()}
        if len(set(packed.values())) != 1:
            cc.dev('code68-three-way', 'from68-implementations-differ', '0x%08x: %r' % (w, results))
    # byte length
    if I.RepCode.lisSize(code) != size:
        cc.dev('lis-size', 'lisSize', 'lisSize(%d)=%r standard %d' % (code, I.RepCode.lisSize(code), size))


def lis_vec_compare(ctx, part, code, words, impls):
    """words: numpy uint64 array of distinct words.  Runs every implementation over all of them, compares with the
    vectorised reference and sends the first few failures of each kind through check_lis_word."""
    I = Impl.get()
    n = len(words)
    wl = words.tolist()
    fmt = lis_struct(code).format
    if fmt in ('>i',):
        arg = [x - (1 << 32) if x & 0x80000000 else x for x in wl]
    else:
        arg = wl
    if code == 68:
        ref, fin = R.lis68_vec(words), None
    elif code == 70:
        ref, fin = R.lis70_vec(words), None
    elif code == 50:
        ref, fin = R.lis50_vec(words)
    else:
        raise engine.HarnessError('no vector reference for %d' % code)
    bad_total = np.zeros(n, dtype=bool)
    outs = []
    for name, fn in impls:
        if code == 50 and name == 'p':
            def safe(x, fn=fn):
                try:
                    return fn(x)
                except OverflowError:
                    return math.nan
            out = np.fromiter(map(safe, arg), dtype=np.float64, count=n)
        else:
            try:
                out = np.fromiter(map(fn, arg), dtype=np.float64, count=n)
            except OverflowError:
                # e.g. a negative word refused by a C unsigned parameter: find them one by one
                def safe2(x, fn=fn):
                    try:
                        return fn(x)
                    except OverflowError:
                        return math.nan
                out = np.fromiter(map(safe2, arg), dtype=np.float64, count=n)
        outs.append(out)
        if fin is None:
            bad = ~(out == ref)
        else:
            bad = np.where(fin, ~(out == ref), np.isfinite(out))
        bad_total |= bad
    if code == 68:
        for o in outs[1:]:
            bad_total |= (o.view(np.uint64) != outs[0].view(np.uint64))
    nbad = int(bad_total.sum())
    if code == 68:
        nontriv = int((((words & 0x7FFFFF) != 0) & (((words >> 23) & 0xFF) != 0) & (((words >> 23) & 0xFF) != 255)).sum())
    elif code == 50:
        e = ((words >> 16) & 0xFFFF).astype(np.int64)
        e = np.where(e & 0x8000, e - 0x10000, e)
        nontriv = int((((words & 0xFFFF) != 0) & (e > -1000) & (e < 1000)).sum())
    else:
        nontriv = int(((words & 0xFFFF) != 0).sum())
    ctx.bulk(part, n - nbad, max(0, nontriv - nbad))
    if nbad:
        # classify, then replay a few of each class through the exact scalar check
        seen = {}
        idx = np.nonzero(bad_total)[0]
        for i in idx[:200000].tolist():
            w = wl[i]
            k = lis50_class(w) if code == 50 else ('neg' if w & 0x80000000 else 'pos')
            seen.setdefault(k, [])
            if len(seen[k]) < 2:
                seen[k].append(w)
        ctx.notes['lis%d_words_deviating' % code] = ctx.notes.get('lis%d_words_deviating' % code, 0) + nbad
        for k, ws in seen.items():
            for w in ws:
                cc = ctx.eval_case(part, {'code': code, 'word': w})
                if not cc.devs:
                    raise engine.HarnessError('vector reference flags lis%d word 0x%x but the exact check does not' % (code, w))
        # the remaining deviating words are counted as evaluated
        ctx.bulk(part, nbad - sum(len(v) for v in seen.values()), 0)


MANT23 = sorted(set([0, 1, 2, 3, (1 << 22) - 1, 1 << 22, (1 << 22) + 1, (1 << 23) - 2, (1 << 23) - 1, 0x555555, 0x2AAAAA,
                     0x7F0000, 0x00FF00, 0x0000FF, 0x123456, 0x654321] + [1 << k for k in range(23)]))
MANT16 = sorted(set([0, 1, 2, 0x3FFF, 0x4000, 0x4001, 0x7FFE, 0x7FFF, 0x8000, 0x8001, 0xBFFF, 0xC000, 0xFFFE, 0xFFFF, 0x5555,
                     0xAAAA, 0x1234, 0x4C80, 0xB380]))


def run_lis_short(ctx, part, tier, shard, nshards):
    """All words of the 8 and 16 bit codes."""
    for code in (56, 66, 77, 49, 79):
        if (code % nshards) != shard % nshards and nshards > 1:
            pass
        size = R.LIS[code][1]
        for w in range(shard, 1 << (8 * size), nshards):
            ctx.eval_case(part, {'code': code, 'word': w})


def run_lis32(ctx, part, tier, shard, nshards):
    I = Impl.get()
    if tier == 'thorough':
        # ALL 2^32 words of codes 68 (three implementations), 50 and 70 (two each)
        per = (1 << 32) // nshards
        lo, hi = shard * per, (shard + 1) * per
        step = 1 << 21
        for code in (68, 50, 70):
            impls = I.lis_impls(code)
            for a in range(lo, hi, step):
                words = np.arange(a, min(hi, a + step), dtype=np.uint64)
                lis_vec_compare(ctx, part, code, words, impls)
        ctx.notes['lis32_full_sweep_words_per_code'] = (1 << 32) // nshards
        return
    # quick: stratified
    if shard == 0 % nshards:
        ws = [(s << 31) | (e << 23) | m for s in (0, 1) for e in range(256) for m in MANT23]
        lis_vec_compare(ctx, part, 68, np.array(ws, dtype=np.uint64), I.lis_impls(68))
    if shard == 1 % nshards:
        ws = [(e << 16) | m for e in range(0, 1 << 16) for m in MANT16 if (e < 1100 or e > 64400 or e % 97 == 0 or m in (1, 0x4000, 0xC000))]
        lis_vec_compare(ctx, part, 50, np.array(ws, dtype=np.uint64), I.lis_impls(50))
    if shard == 2 % nshards:
        ws = [(h << 16) | l for h in range(0, 1 << 16, 1) for l in (0, 1, 0x4000, 0x8000, 0xC000, 0xFFFF)] + \
             [(h << 16) | l for h in (0, 1, 0x0099, 0x7FFF, 0x8000, 0xFF66, 0xFFFF) for l in range(1 << 16)]
        lis_vec_compare(ctx, part, 70, np.array(sorted(set(ws)), dtype=np.uint64), I.lis_impls(70))
    if shard == 3 % nshards:
        for h in [0, 1, 0x7FFF, 0x8000, 0xFFFF, 0x1234, 0x8001]:
            for l in [0, 1, 0x7FFF, 0x8000, 0xFFFF, 0xABCD]:
                ctx.eval_case(part, {'code': 73, 'word': (h << 16) | l})


@st.composite
def lis_word_batches(draw):
    code = draw(st.sampled_from([50, 68, 68, 70, 73]))
    return {'code': code, 'words': draw(st.lists(st.integers(0, (1 << 32) - 1), min_size=16, max_size=16, unique=True))}


def check_lis_batch(case, cc):
    for w in case['words']:
        check_lis_word({'code': case['code'], 'word': w}, cc)
    cc.nt(True)
    cc.sample({'code': case['code'], 'words': ['0x%08x' % w for w in case['words'][:4]]})


def check_lis_length(case, cc):
    """readBytes consumes exactly the standard's number of bytes: shorter or longer input is refused."""
    I = Impl.get()
    code, raw = case['code'], case['bytes']
    size = R.LIS[code][1]
    cc.nt(len(raw) != size)
    try:
        got = I.RepCode.readBytes(code, raw)
    except I.RepCode.ExceptionRepCodeRead:
        if len(raw) == size:
            cc.dev('lis-size', 'lis%d:refused-exact-length' % code, 'readBytes(%d, %s) raised' % (code, raw.hex()))
        return
    except OverflowError:
        return  # reported by the word checks
    if len(raw) != size:
        cc.dev('lis-size', 'lis:wrong-length-accepted', 'readBytes(%d, %d bytes) returned %r; the code has %d bytes' % (code, len(raw), got, size))


@st.composite
def lis_length_cases(draw):
    code = draw(st.sampled_from(sorted(R.LIS)))
    size = R.LIS[code][1]
    n = draw(st.sampled_from([0, size - 1, size, size + 1, size + 4]))
    return {'code': code, 'bytes': draw(st.binary(min_size=max(0, n), max_size=max(0, n)))}


# -------------------------------------------------------------------------------------------------
# Code 68 encoders
# -------------------------------------------------------------------------------------------------
P2 = [math.ldexp(1.0, e) for e in (-160, -152, -151, -150, -130, -129, -128, -127, -1, 0, 1, 23, 24, 126, 127, 128, 200)]
BOUNDARY_DOUBLES = sorted(set([0.0, -0.0, 153.0, -153.0, 0.1, -0.1, 1e-300, 1e300, -1e300, 5e-324,
                               math.ldexp(1 - 2.0 ** -23, 127), math.ldexp(1 - 2.0 ** -24, 127), math.ldexp(1 - 2.0 ** -52, 127),
                               -math.ldexp(1 - 2.0 ** -52, 127), -math.ldexp(1 + 2.0 ** -52, 126)]
                              + P2 + [-x for x in P2] + [x * (1 + 2.0 ** -23) for x in P2] + [-x * (1 - 2.0 ** -24) for x in P2]))


@st.composite
def double_batches(draw):
    vals = draw(st.lists(st.one_of(
        st.floats(allow_nan=False, allow_infinity=False),
        st.floats(min_value=-3.5e38, max_value=3.5e38, allow_nan=False),
        st.floats(min_value=-1e-37, max_value=1e-37, allow_nan=False),
        st.sampled_from(BOUNDARY_DOUBLES),
        st.integers(-10 ** 6, 10 ** 6).map(float)), min_size=8, max_size=8))
    words = draw(st.lists(st.integers(0, (1 << 32) - 1), min_size=4, max_size=4))
    return {'doubles': vals, 'words': words}


def check_to68(case, cc):
    I = Impl.get()
    to = [('p', I.p.to68), ('c', I.c.to68), ('cp', I.cp.to68)]
    frm = [('p', I.p.from68), ('c', I.c.from68), ('cp', I.cp.from68)]
    for v in case['doubles']:
        ws = {}
        for name, fn in to:
            w = fn(v)
            ws[name] = w
            if not isinstance(w, int) or not (0 <= w < (1 << 32)):
                cc.dev('to68-returns-word', 'to68:not-a-32-bit-word', '%s.to68(%r)=%r' % (name, v, w))
        if len(set(ws.values())) != 1:
            cc.dev('code68-three-way', 'to68-implementations-differ', 'to68(%r): %s' % (v, {k: hex(x) for k, x in ws.items()}))
        if I.RepCode.writeBytes68(v) != struct.pack('>I', I.RepCode.to68(v)):
            cc.dev('writeBytes68', 'writeBytes68!=pack(to68)', 'v=%r' % v)
        a = abs(v)
        in_range = math.ldexp(1, -129) <= a < math.ldexp(1, 127) or v == -math.ldexp(1, 127)
        cc.cls('to68-in-range', in_range)
        cc.cls('to68-out-of-range', not in_range)
        cc.cls('to68-subnormal-range', 0 < a < math.ldexp(1, -129))
        if in_range:
            cc.nt(True)
            for name, fn in to:
                w = ws[name]
                if not isinstance(w, int) or not (0 <= w < (1 << 32)):
                    continue
                back = R.lis68(w)
                if abs(back - Fraction(v)) >= abs(Fraction(v)) / (1 << 22):
                    if v == -math.ldexp(1, 127):
                        sig = 'to68:minimum-clamps-to-tiny'
                    else:
                        sig = 'to68:precision'
                    cc.dev('to68-precision<2^-22', sig, '%s.to68(%r)=0x%08x which is %r' % (name, v, w, float(back)))
    for w in case['words']:
        for name, fn in frm:
            v1 = fn(w)
            for tname, tfn in to:
                w2 = tfn(v1)
                if not (isinstance(w2, int) and 0 <= w2 < (1 << 32)):
                    continue
                if R.lis68(w2) != R.lis68(w):
                    # the declared minimum -2^127 (0x80000000 and equivalent words) is the known clamp
                    sig = 'to68:minimum-clamps-to-tiny' if R.lis68(w) == -Fraction(2) ** 127 else 'to68:not-equivalent-word'
                    cc.dev('encode(decode(w))-equivalent', sig, 'w=0x%08x decodes to %r, %s.to68 gives 0x%08x = %r' % (
                        w, v1, tname, w2, float(R.lis68(w2))))
    cc.sample({'doubles': case['doubles'][:3], 'words': ['0x%08x' % w for w in case['words'][:2]]})


# -------------------------------------------------------------------------------------------------
# RP66V1 fixed length codes
# -------------------------------------------------------------------------------------------------
def check_rp_fixed(case, cc):
    I = Impl.get()
    code, raw = case['code'], case['bytes']
    name, ref_fn, size = R.RP66_FIXED[code]
    exact = ref_fn(raw)
    ld = I.LD(raw + case.get('tail', b''))
    try:
        got = I.RP.code_read(code, ld)
    except Exception as err:  # noqa
        cc.unexpected(err)
        return
    if ld.index != size:
        cc.dev('rp66-consumed', '%s:consumed' % name, '%s consumed %d bytes, standard %d' % (name, ld.index, size))
    if I.RP.rep_code_fixed_length(code) != size:
        cc.dev('rp66-consumed', '%s:fixed-length-helper' % name, 'rep_code_fixed_length(%d)=%r' % (code, I.RP.rep_code_fixed_length(code)))
    if exact is None:
        cc.cls('vsingl-reserved-operand-skipped')
        return
    if isinstance(exact, str):
        ok = isinstance(got, float) and ((exact == 'nan' and math.isnan(got)) or (exact != 'nan' and got == float(exact)))
        if not ok:
            cc.dev('rp66-decode==standard', '%s:special' % name, '%s(%s)=%r expected %s' % (name, raw.hex(), got, exact))
        return
    if code in (2, 5, 6, 7):
        cc.nt(exact != 0)
        if not isinstance(got, float):
            cc.dev('rp66-decode==standard', '%s:type' % name, '%r' % type(got))
            return
        if not math.isfinite(got) or Fraction(got) != exact:
            sig = '%s:value' % name
            if code == 6:
                s = raw[1] >> 7
                e = ((raw[1] & 0x7F) << 1) | (raw[0] >> 7)
                m = ((raw[0] & 0x7F) << 16) | (raw[3] << 8) | raw[2]
                wrong = (Fraction(1, 2) + Fraction(m, 1 << 23)) * Fraction(2) ** (e - 128) * (-1 if s else 1)
                if math.isfinite(got) and Fraction(got) == wrong:
                    sig = 'VSINGL:mantissa-scaled-by-2^-23'
            cc.dev('rp66-decode==standard', sig, '%s(%s)=%r standard value %r' % (name, raw.hex(), got, float(exact)))
    else:
        cc.nt(True)
        if isinstance(got, bool) or not isinstance(got, int) or got != exact:
            cc.dev('rp66-decode==standard', '%s:value' % name, '%s(%s)=%r standard value %r' % (name, raw.hex(), got, exact))


def run_rp_short(ctx, part, tier, shard, nshards):
    for code in (12, 15, 26, 13, 16):
        size = R.RP66_FIXED[code][2]
        for w in range(shard, 1 << (8 * size), nshards):
            ctx.eval_case(part, {'code': code, 'bytes': w.to_bytes(size, 'big')})


def rp_vec_compare(ctx, part, code, words):
    I = Impl.get()
    fn = {5: I.RP.ISINGL, 6: I.RP.VSINGL}[code]
    LD = I.LD
    n = len(words)
    raws = [int(w).to_bytes(4, 'big') for w in words.tolist()]
    out = np.fromiter((fn(LD(b)) for b in raws), dtype=np.float64, count=n)
    if code == 5:
        ref, defined = R.isingl_vec(words), np.ones(n, dtype=bool)
    else:
        ref, defined = R.vsingl_vec(words)
    bad = defined & ~(out == ref)
    nbad = int(bad.sum())
    ctx.bulk(part, n - nbad, int((ref != 0).sum()) - nbad if nbad < n else 0)
    if nbad:
        ctx.notes['rp66_%d_words_deviating' % code] = ctx.notes.get('rp66_%d_words_deviating' % code, 0) + nbad
        idx = np.nonzero(bad)[0][:3].tolist()
        for i in idx:
            cc = ctx.eval_case(part, {'code': code, 'bytes': raws[i]})
            if not cc.devs:
                raise engine.HarnessError('vector reference flags rp66 code %d word %s but the exact check does not' % (code, raws[i].hex()))
        ctx.bulk(part, nbad - len(idx), 0)


def run_rp32(ctx, part, tier, shard, nshards):
    if tier == 'thorough':
        # 2^28 stratified words per code: every (sign, exponent) = all 2^9 top bit patterns x 2^19 mantissa patterns
        # (top 10 and low 9 mantissa bits enumerated, the 4 bits between them taken from a counter)
        tops = range(shard, 1 << 9, nshards)
        lows = np.arange(1 << 19, dtype=np.uint64)
        mant = ((lows >> 9) << 13) | (((lows * 7) & 0xF) << 9) | (lows & 0x1FF)
        for code in (5, 6):
            for t in tops:
                if code == 5:
                    words = (np.uint64(t >> 1) << np.uint64(24)) | (np.uint64(t & 1) << np.uint64(23)) | mant
                    words |= np.uint64(((t >> 8) & 1)) << np.uint64(31)
                    words = ((np.uint64(t) << np.uint64(23)) | mant) & np.uint64(0xFFFFFFFF)
                else:
                    # VSINGL: byte1 = s eeeeeee, byte0 = e mmmmmmm, byte3, byte2: build from (s, e, m)
                    s, e = t >> 8, t & 0xFF
                    b1 = (s << 7) | (e >> 1)
                    b0 = ((e & 1) << 7) | ((mant >> 16) & 0x7F)
                    words = (b0 << np.uint64(24)) | (np.uint64(b1) << np.uint64(16)) | ((mant & 0xFF) << np.uint64(8)) | ((mant >> 8) & 0xFF)
                rp_vec_compare(ctx, part, code, words.astype(np.uint64))
        ctx.notes['rp66_stratified_words_per_code'] = (1 << 28)
        return
    for code in (2, 5, 6, 14, 17):
        if code % nshards != shard % nshards:
            continue
        for top in range(1 << 9):
            for m in (0, 1, 0x400000, 0x7FFFFF, 0x2AAAAA, 0x123456):
                w = (top << 23) | m
                ctx.eval_case(part, {'code': code, 'bytes': w.to_bytes(4, 'big')})
    if shard == 0:
        for top in range(1 << 12):
            for m in (0, 1, (1 << 52) - 1, 0x5555555555555):
                w = (top << 52) | m
                ctx.eval_case(part, {'code': 7, 'bytes': w.to_bytes(8, 'big')})


@st.composite
def rp_fixed_cases(draw):
    code = draw(st.sampled_from([2, 5, 6, 7, 14, 17, 6, 5]))
    size = R.RP66_FIXED[code][2]
    return {'code': code, 'bytes': draw(st.binary(min_size=size, max_size=size)), 'tail': draw(st.binary(max_size=3))}


# -------------------------------------------------------------------------------------------------
# RP66V1 variable length codes
# -------------------------------------------------------------------------------------------------
UV = st.one_of(st.integers(0, 0x7F), st.integers(0x80, 0x3FFF), st.integers(0x4000, 0x3FFFFFFF),
               st.sampled_from([0, 0x7F, 0x80, 0x3FFF, 0x4000, 0x3FFFFFFF]))
SHORT_BYTES = st.binary(max_size=12)


@st.composite
def uvari_enc(draw, value=None):
    v = draw(UV) if value is None else value
    minw = 1 if v < 0x80 else (2 if v < 0x4000 else 4)
    width = draw(st.sampled_from([w for w in (1, 2, 4) if w >= minw]))
    return R.enc_uvari(v, width), width


@st.composite
def variable_cases(draw):
    code = draw(st.sampled_from([18, 19, 20, 21, 22, 23, 24, 27]))
    widths = []
    if code in (18, 22):
        enc, w = draw(uvari_enc())
        widths.append(w)
    elif code in (19, 27):
        s = draw(st.one_of(SHORT_BYTES, st.binary(min_size=200, max_size=255)))
        enc = R.enc_ident(s)
    elif code == 20:
        s = draw(st.one_of(SHORT_BYTES, st.binary(min_size=120, max_size=140), st.binary(min_size=16380, max_size=16390)))
        pre, w = draw(uvari_enc(len(s)))
        widths.append(w)
        enc = pre + s
    elif code == 21:
        enc = draw(st.binary(min_size=8, max_size=8))
    else:
        o, w = draw(uvari_enc())
        widths.append(w)
        enc = o + bytes([draw(st.integers(0, 255))]) + R.enc_ident(draw(SHORT_BYTES))
        if code == 24:
            enc = R.enc_ident(draw(SHORT_BYTES)) + enc
    mode = draw(st.integers(0, 3))
    if mode == 0 and len(enc) > 0:
        cut = draw(st.integers(0, len(enc) - 1))
        data, truncated = enc[:cut], True
    else:
        data, truncated = enc + draw(st.binary(max_size=4)), False
    return {'code': code, 'bytes': data, 'truncated': truncated, 'widths': widths}


@st.composite
def arbitrary_variable_cases(draw):
    return {'code': draw(st.sampled_from([18, 19, 20, 21, 22, 23, 24, 27])), 'bytes': draw(st.binary(max_size=24)),
            'truncated': None, 'widths': []}


def _norm(code, got):
    if code == 21:
        return {k: getattr(got, k) for k in ('year', 'tz', 'month', 'day', 'hour', 'minute', 'second', 'millisecond')}
    if code == 23:
        return (got.O, got.C, bytes(got.I))
    if code == 24:
        return (bytes(got.T), (got.N.O, got.N.C, bytes(got.N.I)))
    if code in (19, 20, 27):
        return bytes(got)
    return got


def check_rp_variable(case, cc):
    I = Impl.get()
    code, data = case['code'], case['bytes']
    name, ref_fn = R.RP66_VARIABLE[code]
    try:
        exp, consumed = ref_fn(data, 0)
        truncated = False
    except R.Truncated:
        exp, consumed, truncated = None, None, True
    if case['truncated'] is not None and truncated != case['truncated']:
        raise engine.HarnessError('generator and reference disagree about truncation of %s %s' % (name, data.hex()))
    for w in case['widths']:
        cc.cls('uvari-width-%d' % w)
    cc.cls('truncated', truncated)
    cc.nt(truncated or any(w > 1 for w in case['widths']) or len(data) > 12)
    ld = I.LD(data)
    try:
        got = I.RP.code_read(code, ld)
        err = None
    except (IndexError, I.RPExc) as e:
        got, err = None, e
    except Exception as e:  # noqa
        cc.unexpected(e)
        return
    if truncated:
        if err is None:
            cc.dev('rp66-truncated-raises', '%s:truncated-input-returned' % name, '%s(%s) returned %r' % (name, data.hex(), got))
        return
    if err is not None:
        cc.dev('rp66-decode==standard', '%s:raised-on-complete-input' % name, '%s(%s) raised %r' % (name, data.hex(), err))
        return
    got_n = _norm(code, got)
    if got_n != exp:
        cc.dev('rp66-decode==standard', '%s:value' % name, '%s(%s)=%r standard %r' % (name, engine.short(data.hex(), 80), engine.short(got_n, 80), engine.short(exp, 80)))
    if ld.index != consumed:
        cc.dev('rp66-consumed', '%s:consumed' % name, '%s(%s) consumed %d, standard %d' % (name, engine.short(data.hex(), 80), ld.index, consumed))
    helper = {18: 'UVARI_len', 19: 'IDENT_len', 22: 'ORIGIN_len', 23: 'OBNAME_len'}.get(code)
    if helper:
        hl = getattr(I.RP, helper)(data, 0)
        if hl != consumed:
            cc.dev('rp66-len-helper', '%s:helper' % name, '%s(%s,0)=%r, decoding consumes %d' % (helper, engine.short(data.hex(), 80), hl, consumed))
        # and at a non-zero index
        pad = b'\xaa\xbb\xcc'
        hl2 = getattr(I.RP, helper)(pad + data, 3)
        if hl2 != consumed:
            cc.dev('rp66-len-helper', '%s:helper-index' % name, '%s(pad+%s,3)=%r, decoding consumes %d' % (helper, engine.short(data.hex(), 80), hl2, consumed))


# -------------------------------------------------------------------------------------------------
# writeBytes for the integer codes (66, 79, 73): the encoders invert the decoders on the whole range of the code
# -------------------------------------------------------------------------------------------------
INT_CODE_RANGE = {66: (0, 255, 'B'), 79: (-2 ** 15, 2 ** 15 - 1, 'h'), 73: (-2 ** 31, 2 ** 31 - 1, 'i')}


def int_write_cases():
    def one(code):
        lo, hi, _f = INT_CODE_RANGE[code]
        return st.builds(lambda vs: {'code': code, 'values': vs}, st.lists(st.one_of(
            st.sampled_from([lo, lo + 1, lo + 2, hi, hi - 1, -1 if lo < 0 else 1, 0, 1, 127, 128, 255 if hi >= 255 else hi]).filter(lambda v: lo <= v <= hi),
            st.integers(lo, hi)), min_size=1, max_size=40))
    return st.one_of(one(66), one(79), one(73), one(73))


def check_int_write(case, cc):
    I = Impl.get()
    code = case['code']
    lo, hi, f = INT_CODE_RANGE[code]
    cc.nt(True)
    cc.cls('int-write-code-%d' % code)
    cc.cls('int-write-extreme-value', lo in case['values'] or hi in case['values'])
    for v in case['values']:
        want = struct.pack('>' + f, v)
        try:
            got = I.RepCode.writeBytes(v, code)
            back = I.RepCode.readBytes(code, got)
        except Exception as err:  # noqa
            cc.unexpected(err)
            return
        if got != want or back != v:
            cc.dev('lis-encode-inverts-decode', 'integer-code-%d' % code, 'writeBytes(%d, %d) = %s (two\'s complement %s), read back %r' % (
                v, code, bytes(got).hex(), want.hex(), back))
            return


def parts(tier):
    return [
        HypPart('lis-integer-write', int_write_cases(), check_int_write, 600, 12000),
        EnumPart('lis-short-exhaustive', run_lis_short, check_lis_word),
        EnumPart('lis-32bit-sweep', run_lis32, check_lis_word),
        HypPart('lis-32bit-random', lis_word_batches(), check_lis_batch, 1500, 40000),
        HypPart('lis-length', lis_length_cases(), check_lis_length, 300, 3000),
        HypPart('code68-encode', double_batches(), check_to68, 1500, 60000),
        EnumPart('rp66-short-exhaustive', run_rp_short, check_rp_fixed),
        EnumPart('rp66-32bit-sweep', run_rp32, check_rp_fixed),
        HypPart('rp66-fixed-random', rp_fixed_cases(), check_rp_fixed, 3000, 100000),
        HypPart('rp66-variable', variable_cases(), check_rp_variable, 4000, 120000),
        HypPart('rp66-variable-arbitrary-bytes', arbitrary_variable_cases(), check_rp_variable, 2000, 60000),
    ]


def exhaustive_note(tier, total):
    subs = ['LIS 56, 66, 77 (2^8 words) and 49, 79 (2^16 words), every implementation',
            'RP66V1 SSHORT, USHORT, STATUS (2^8) and SNORM, UNORM (2^16)']
    if tier == 'thorough':
        subs.append('LIS 68 (Python, Cython, C++), 50 and 70 (Python, Cython): all 2^32 words')
    return {'exhaustive': False, 'exhaustive_subdomains': subs}
