"""C16 - run-length indexes reproduce the positions they encode.

Oracles: plain Python lists (vt/ref/rle.py).  An RLE built from a sequence must give the sequence back by
position (``value(i)``, every valid i of both signs), by iteration (``values()``), through its run triples
(datum, stride, repeat expanded by the reference), and report count, first, last; for ascending sequences
``largest_le(q)`` is ``max(v <= q)`` of the list and ``ValueError`` when there is none.  The LIS frame index built
from (position, frames, X) triples must map every frame number to (position of the record containing it, offset in
that record), report the total, and refuse frame numbers outside 0..total-1 with IndexError.
"""
import itertools
import math

from hypothesis import strategies as st

from vt import engine
from vt.engine import EnumPart, HypPart
from vt.ref import rle as ref

PID = 'C16'
LEVEL = 'exploration'
TECHNIQUE = 'property-based testing (Hypothesis) + bounded exhaustive enumeration against a list reference model'
LEVEL_TEXT = ('generated sequences and record triples checked against plain lists; complete for all integer sequences '
              'over a small alphabet up to a small length and all (gap, frames) record lists up to a small length')
RULE = ('int sequences: every sequence over {0..A-1} of length 0..L (A=4,L=7 quick; A=5,L=8 thorough) enumerated '
        'completely + Hypothesis lists of 0..60 ints built from runs (any stride incl. 0 and negative, repeat 0..8, '
        'small or up to 2^70), arbitrary ints, ascending lists with and without ties, optional value function; '
        'float sequences likewise (|v| <= 1e300) with members nudged off their progression by 1e-16..1e-6 relative; '
        'every index -n..n-1, out of range indices, largest_le for every member, neighbours, midpoints and beyond both ends; '
        'record triples: strictly increasing positions (regular and irregular gaps), frames >= 1 (constant and changing), '
        'float or int X; every frame number 0..total-1 and out of range ones; all (gap, frames) in {1,2,3}^2 lists up to '
        'length 4 (quick) / 6 (thorough).  Non-trivial: sequence of >= 3 values that the greedy reference encoder splits '
        'into >= 2 runs; triple list that the reference groups into >= 2 items.  Distinct = distinct case.')
ASSUMPTIONS = [
    'float members are bounded by 1e300 so that differences of members are finite; float results are compared with '
    '4*eps*max|v| (position, first, last, largest_le) and (n/2+4)*eps*max|v| (iteration), see vt/ref/rle.py',
    'largest_le is only demanded of non-decreasing sequences; for floats a query within the positional tolerance of a '
    'member may resolve to either side of it',
    'an index outside -n..n-1 / a frame number outside 0..total-1 is expected to raise IndexError as the code documents',
    'RLE.ranges() is not part of the statement and is not checked; RP66V1/IndexXML expansion is checked under C18 '
    'with the same reference (vt.ref.rle.expand)',
    'the X values of the frame index are an RLE built from a sequence of numbers and are checked as such '
    '(values()/value(i)/xAxisFirst/xAxisLast); frameSpacing and xAxisLastFrame are not part of the statement',
]
SHARDS = {'quick': 4, 'thorough': 16}
REQUIRED_CLASSES = {'int-multi-run': 1, 'int-equal-neighbours': 1, 'int-negative-stride': 1, 'int-ascending-query': 1,
                    'float-multi-run': 1, 'float-near-miss': 1, 'float-ascending-query': 1,
                    'type01-multi-item': 1, 'type01-frames-change-regular-positions': 1}
NEEDS_LIS_EXT = True

FNS = {'none': None, 'times3': lambda v: v * 3, 'plus7': lambda v: v + 7}


def _sut_exc(devs, oracle, err, what):
    """An exception from the code under test is a deviation; one from our own code is a harness error."""
    if not engine.sut_frames(err):
        raise engine.HarnessError('exception outside the code under test in %s: %r' % (what, err)) from err
    devs.append((oracle, engine.exc_sig(err), '%s raised %r' % (what, err)))


def _is_num(a):
    return isinstance(a, (int, float)) and not isinstance(a, bool)


# --------------------------------------------------------------------------------------------
# Number sequences
# --------------------------------------------------------------------------------------------
def derived_queries(want, is_float):
    qs = []
    if not want:
        return [0.0 if is_float else 0]
    lo, hi = want[0], want[-1]
    if is_float:
        span = max(abs(lo), abs(hi), 1.0)
        qs += [lo - span, lo - 0.5 * span * 1e-3, hi + span, hi + 1e-3 * span]
        for a, b in zip(want, want[1:]):
            qs.append(a)
            if a < b:
                qs.append(a + (b - a) / 2)
        qs.append(hi)
    else:
        qs += [lo - 1, lo - 2, lo - 1000, hi + 1, hi + 100]
        for a, b in zip(want, want[1:]):
            qs += [a, a + 1]
            if b - a >= 2:
                qs += [(a + b) // 2, b - 1]
        qs.append(hi)
        # queries need not be integers: a depth between two stored frame numbers (below zero too)
        if all(abs(v) < 2 ** 50 for v in (lo, hi)):
            qs += [lo - 0.5, lo + 0.5, hi - 0.5, hi + 0.25]
            for a, b in zip(want[:40], want[1:41]):
                qs += [a + 0.5, a - 0.25]
                if b - a >= 2:
                    qs.append(b - 0.5)
    seen, ret = set(), []
    for q in qs:
        if q not in seen:
            seen.add(q)
            ret.append(q)
    return ret


def seq_devs(kind, seq, fn_name='none', queries=None, extra_queries=()):
    """Returns list of (oracle, signature, detail) for one sequence."""
    from TotalDepth.common import Rle
    devs = []
    is_float = kind == 'float'
    fn = FNS[fn_name]
    want = [fn(v) for v in seq] if fn else list(seq)
    n = len(want)
    ti = ref.tol_index(want) if is_float else 0
    tt = ref.tol_iteration(want) if is_float else 0

    def same(a, b, tol):
        if not _is_num(a):
            return False
        return a == b or (is_float and abs(a - b) <= tol)

    try:
        r = Rle.create_rle(list(seq), fn)
    except Exception as err:  # noqa
        _sut_exc(devs, 'rle-build', err, 'create_rle(%r)' % (seq,))
        return devs
    # count
    try:
        got = r.num_values()
        if got != n:
            devs.append(('rle-num_values', 'num_values', 'num_values()=%r expected %d' % (got, n)))
    except Exception as err:  # noqa
        _sut_exc(devs, 'rle-num_values', err, 'num_values()')
    # by position, both signs
    bad = set()
    for i in itertools.chain(range(n), range(-1, -n - 1, -1)):
        sig = 'value-nonneg-index' if i >= 0 else 'value-negative-index'
        if sig in bad:
            continue
        try:
            got = r.value(i)
        except Exception as err:  # noqa
            bad.add(sig)
            _sut_exc(devs, 'rle-value(i)==list[i]', err, 'value(%d) of %d values' % (i, n))
            continue
        if not same(got, want[i], ti):
            bad.add(sig)
            devs.append(('rle-value(i)==list[i]', sig, 'value(%d)=%r expected %r (n=%d)' % (i, got, want[i], n)))
    # outside the valid indices
    for i in (n, n + 1, n + 1000, -n - 1, -n - 2, -n - 1000):
        try:
            got = r.value(i)
        except IndexError:
            continue
        except Exception as err:  # noqa
            _sut_exc(devs, 'rle-value-out-of-range', err, 'value(%d) of %d values' % (i, n))
            break
        devs.append(('rle-value-out-of-range', 'no-IndexError', 'value(%d) of %d values returned %r' % (i, n, got)))
        break
    # by iteration
    try:
        got = list(r.values())
    except Exception as err:  # noqa
        _sut_exc(devs, 'rle-values()==list', err, 'values()')
    else:
        if len(got) != n:
            devs.append(('rle-values()==list', 'values-length', 'len(values())=%d expected %d' % (len(got), n)))
        else:
            for i, (a, b) in enumerate(zip(got, want)):
                if not same(a, b, tt):
                    devs.append(('rle-values()==list', 'values-element', 'values()[%d]=%r expected %r' % (i, a, b)))
                    break
    # the run triples themselves, expanded by the reference
    try:
        items = [(r[k].datum, r[k].stride, r[k].repeat) for k in range(len(r))]
    except Exception as err:  # noqa
        _sut_exc(devs, 'rle-items-expand==list', err, 'items')
    else:
        ok = all(isinstance(it[2], int) and it[2] >= 0 and _is_num(it[0]) and _is_num(it[1]) for it in items)
        got = ref.expand_items(items) if ok else None
        if got is None or len(got) != n or not all(same(a, b, ti) for a, b in zip(got, want)):
            devs.append(('rle-items-expand==list', 'items', 'runs %r expand to %r expected %r' % (
                items[:8], None if got is None else got[:12], want[:12])))
    # first / last
    for name, exp in (('first', want[0] if n else None), ('last', want[-1] if n else None)):
        try:
            got = getattr(r, name)()
        except Exception as err:  # noqa
            _sut_exc(devs, 'rle-' + name, err, name + '()')
            continue
        if (exp is None and got is not None) or (exp is not None and not same(got, exp, ti)):
            devs.append(('rle-' + name, name, '%s()=%r expected %r' % (name, got, exp)))
    # largest stored value not exceeding a query (ascending sequences only)
    if ref.is_ascending(want):
        qs = list(queries) if queries is not None else derived_queries(want, is_float)
        qs += [q for q in extra_queries if q not in qs]
        bad = set()
        for q in qs:
            d = _largest_le_dev(r, want, q, is_float, ti)
            if d is not None and d[1] not in bad:
                bad.add(d[1])
                devs.append(d)
    return devs


def _largest_le_dev(r, want, q, is_float, ti):
    oracle = 'rle-largest_le==max(v<=q)'
    try:
        got = r.largest_le(q)
        raised = False
    except ValueError:
        got, raised = None, True
    except Exception as err:  # noqa
        devs = []
        _sut_exc(devs, oracle, err, 'largest_le(%r) on %r' % (q, want[:12]))
        return devs[0]
    if not is_float:
        exp = ref.largest_le(want, q)
        if exp is None:
            if not raised:
                return oracle, 'no-ValueError-below-first', 'largest_le(%r) on %r returned %r' % (q, want[:12], got)
        elif raised:
            return oracle, 'ValueError-although-member<=q', 'largest_le(%r) on %r raised ValueError, expected %r' % (
                q, want[:12], exp)
        elif not (_is_num(got) and got == exp):
            return oracle, 'wrong-value', 'largest_le(%r) on %r returned %r expected %r' % (q, want[:12], got, exp)
        return None
    # floats: a query within the tolerance of a member may resolve to either side of it
    if raised:
        if want and q >= want[0] + ti:
            return oracle, 'ValueError-although-member<=q', 'largest_le(%r) on %r raised ValueError' % (q, want[:12])
        return None
    if not want or q < want[0] - ti:
        return oracle, 'no-ValueError-below-first', 'largest_le(%r) on %r returned %r' % (q, want[:12], got)
    if _is_num(got):
        n = len(want)
        for k, v in enumerate(want):
            if abs(got - v) <= ti and v <= q + ti and (k == n - 1 or want[k + 1] > q - ti):
                return None
    return oracle, 'wrong-value', 'largest_le(%r) on %r returned %r expected %r (tolerance %g)' % (
        q, want[:12], got, ref.largest_le(want, q), ti)


def seq_classes(kind, seq, fn_name='none'):
    fn = FNS[fn_name]
    want = [fn(v) for v in seq] if fn else list(seq)
    n = len(want)
    runs = ref.count_runs(want)
    asc = ref.is_ascending(want)
    return {
        'multi-run': n >= 3 and runs >= 2,
        'equal-neighbours': ref.has_equal_neighbours(want),
        'negative-stride': any(a > b for a, b in zip(want, want[1:])),
        'ascending-query': asc and n >= 1,
        'ascending-strict-multi-run': n >= 3 and runs >= 2 and ref.is_strictly_ascending(want),
        'ascending-with-ties': asc and ref.has_equal_neighbours(want),
        'empty': n == 0,
        'single-value': n == 1,
        'long-run>=5': any(it[2] >= 4 for it in ref.encode(want)),
    }


def check_seq(case, cc):
    kind, seq, fn_name = case['kind'], case['seq'], case.get('fn', 'none')
    for o, s, d in seq_devs(kind, seq, fn_name, case.get('queries'), case.get('extra_queries', ())):
        cc.dev(o, s, '%s seq %s fn=%s: %s' % (kind, engine.short(seq, 200), fn_name, d))
    cl = seq_classes(kind, seq, fn_name)
    cc.nt(cl['multi-run'])
    for k, v in cl.items():
        cc.cls('%s-%s' % (kind, k), v)
    cc.cls('int-big', kind == 'int' and any(abs(v) > 2 ** 53 for v in seq))
    cc.cls('int-value-function', kind == 'int' and fn_name != 'none')
    cc.cls('float-near-miss', bool(case.get('nudged')))
    cc.cls('float-wide-range', kind == 'float' and len(seq) > 1 and ref.magnitude(seq) > 1e100)


def run_int_enum(ctx, part, tier, shard, nshards):
    A, L = (4, 7) if tier == 'quick' else (5, 8)
    queries = list(range(-1, A + 1))
    evals = nontriv = 0
    counts = {}
    idx = 0
    for n in range(L + 1):
        for tup in itertools.product(range(A), repeat=n):
            idx += 1
            if idx % nshards != shard:
                continue
            seq = list(tup)
            if seq_devs('int', seq, 'none', queries):
                ctx.eval_case(part, {'kind': 'int', 'seq': seq, 'fn': 'none', 'queries': queries})
            else:
                evals += 1
                cl = seq_classes('int', seq)
                nontriv += cl['multi-run']
                for k, v in cl.items():
                    if v:
                        counts[k] = counts.get(k, 0) + 1
    ctx.bulk(part, evals, nontriv)
    for k, v in counts.items():
        ctx.classes['int-' + k] = ctx.classes.get('int-' + k, 0) + v
    if shard == 0:
        ctx.add_sample(part.name, {'kind': 'int', 'seq': [0, 2, 1, 0, 3, 3], 'runs': ref.encode([0, 2, 1, 0, 3, 3])})
        ctx.note('int_exhaustive_alphabet_length', [A, L])


# --------------------------------------------------------------------------------------------
# Strategies for sequences
# --------------------------------------------------------------------------------------------
FN_NAMES = st.sampled_from(['none', 'none', 'none', 'times3', 'plus7'])


@st.composite
def int_seqs(draw):
    mode = draw(st.integers(0, 6))
    mag = 2 ** 70 if draw(st.integers(0, 6)) == 0 else 30
    anyint = st.integers(-mag, mag)
    seq = []
    if mode <= 2:  # runs of any stride, sometimes starting where the previous one ended
        for _ in range(draw(st.integers(0, 6))):
            if seq and draw(st.booleans()):
                start = seq[-1] + draw(st.integers(-3, 3))
            else:
                start = draw(anyint)
            stride = draw(st.one_of(st.integers(-4, 4), anyint))
            seq.extend(ref.expand(start, stride, draw(st.integers(0, 8))))
    elif mode == 3:  # arbitrary, small alphabet or wide
        seq = draw(st.lists(st.one_of(st.integers(0, 3), anyint), max_size=24))
    else:  # ascending: runs with stride >= 0 (mode 4: ties allowed) or >= 1 joined by jumps, singletons included
        low = 0 if mode == 4 else 1
        v = draw(anyint)
        for _ in range(draw(st.integers(1, 7))):
            stride = draw(st.one_of(st.integers(low, 5), st.integers(low, mag)))
            seq.extend(ref.expand(v, stride, draw(st.integers(0, 8))))
            v = seq[-1] + draw(st.one_of(st.integers(low, 9), st.integers(low, mag)))
    seq = seq[:60]
    extra = draw(st.lists(st.integers(-mag - 5, mag + 5), max_size=3))
    return {'kind': 'int', 'seq': seq, 'fn': draw(FN_NAMES), 'extra_queries': extra}


FINITE = st.floats(min_value=-1e300, max_value=1e300, allow_nan=False, allow_infinity=False)
MODEST = st.floats(min_value=-1e6, max_value=1e6, allow_nan=False, allow_infinity=False)
STRIDES = st.one_of(st.sampled_from([0.0, 0.5, -0.5, 0.1, -0.1, 0.25, 1.0, -1.0, 1 / 3, 0.1524, -0.1524, 1e-3]), MODEST)
NUDGES = st.sampled_from([1e-16, 2.5e-16, 1e-15, 1e-14, 1e-13, 1e-12, 1e-11, 1e-9, 1e-6])


@st.composite
def float_seqs(draw):
    mode = draw(st.integers(0, 5))
    seq, nudged = [], 0
    if mode <= 2:  # runs of any stride
        for _ in range(draw(st.integers(0, 5))):
            if seq and draw(st.booleans()):
                start = seq[-1] + draw(STRIDES)
            else:
                start = draw(st.one_of(MODEST, MODEST, FINITE))
            stride = draw(STRIDES)
            if abs(start) > 1e290:
                stride = 0.0 if draw(st.booleans()) else start * 1e-3
            repeat = draw(st.integers(0, 8))
            if draw(st.booleans()):
                run = ref.expand(start, stride, repeat)
            else:  # accumulated, as a tool stepping along would produce
                run = [start]
                for _k in range(repeat):
                    run.append(run[-1] + stride)
            if repeat >= 2 and draw(st.integers(0, 2)) == 0:  # nudge one member off the progression
                k = draw(st.integers(2, repeat))
                d = draw(NUDGES) * draw(st.sampled_from([1, -1]))
                moved = run[k] * (1 + d) if run[k] != 0 else d
                if moved != run[k]:
                    run[k] = moved
                    nudged += 1
            seq.extend(run)
    elif mode == 3:  # arbitrary finite floats
        seq = draw(st.lists(st.one_of(MODEST, FINITE, st.sampled_from([0.0, -0.0, 5e-324, 1e-310, 2.5])), max_size=16))
    else:  # ascending (mode 4 allows ties)
        low = 0.0 if mode == 4 else 1e-3
        gaps = st.one_of(st.sampled_from([0.5, 0.1, 0.25, 1.0, 1 / 3, 0.1524, 2.0]),
                         st.floats(min_value=low, max_value=1e4, allow_nan=False))
        v = draw(MODEST)
        for _ in range(draw(st.integers(1, 6))):
            gap = draw(gaps) if not (mode == 4 and draw(st.integers(0, 3)) == 0) else 0.0
            repeat = draw(st.integers(0, 8))
            run = [v]
            for k in range(1, repeat + 1):
                nxt = v + k * gap if draw(st.booleans()) else run[-1] + gap
                run.append(max(nxt, run[-1]))
            if repeat >= 2 and gap > 0 and draw(st.integers(0, 2)) == 0:
                k = draw(st.integers(2, repeat))
                d = draw(NUDGES)
                moved = run[k] + abs(run[k]) * d
                hi = run[k + 1] if k + 1 < len(run) else math.inf
                if run[k] < moved <= hi:
                    run[k] = moved
                    nudged += 1
            seq.extend(run)
            v = seq[-1] + (draw(gaps) if mode == 5 else draw(st.one_of(st.just(0.0), gaps)))
            if mode == 5 and v <= seq[-1]:
                v = math.nextafter(seq[-1], math.inf)
    seq = seq[:60]
    return {'kind': 'float', 'seq': seq, 'fn': 'none', 'nudged': nudged}


# --------------------------------------------------------------------------------------------
# LIS frame index: RLEType01
# --------------------------------------------------------------------------------------------
def type01_devs(triples, fn_name='none', frames_to_ask=None):
    from TotalDepth.LIS.core import Rle as LisRle
    devs = []
    fn = FNS[fn_name]
    model = [((fn(p) if fn else p), f, x) for p, f, x in triples]
    xs = [t[2] for t in model]
    x_float = any(isinstance(x, float) for x in xs)
    tx = ref.tol_index(xs) if x_float else 0
    total = ref.total_frames(model)
    try:
        r = LisRle.RLEType01(b'FEET', fn) if fn else LisRle.RLEType01(b'FEET')
        for p, f, x in triples:
            r.add(p, f, x)
    except Exception as err:  # noqa
        _sut_exc(devs, 'type01-build', err, 'RLEType01.add')
        return devs
    try:
        got = r.totalFrames()
        if got != total:
            devs.append(('type01-totalFrames==sum', 'totalFrames', 'totalFrames()=%r expected %d' % (got, total)))
    except Exception as err:  # noqa
        _sut_exc(devs, 'type01-totalFrames==sum', err, 'totalFrames()')
    # every frame number
    if frames_to_ask is None:
        frames_to_ask = range(total)
    bad = set()
    for f in frames_to_ask:
        exp = ref.frame_locate(model, f)
        if exp is None:
            continue
        try:
            got = r.tellLrForFrame(f)
        except Exception as err:  # noqa
            if 'exc' not in bad:
                bad.add('exc')
                if isinstance(err, IndexError):
                    devs.append(('type01-tellLrForFrame==(record,offset)', 'IndexError-for-valid-frame',
                                 'tellLrForFrame(%d) of %d frames raised %r' % (f, total, err)))
                else:
                    _sut_exc(devs, 'type01-tellLrForFrame==(record,offset)', err, 'tellLrForFrame(%d)' % f)
            continue
        if not (isinstance(got, tuple) and len(got) == 2 and got[0] == exp[0] and got[1] == exp[1]):
            sig = 'wrong-record' if not (isinstance(got, tuple) and got and got[0] == exp[0]) else 'wrong-offset'
            if sig not in bad:
                bad.add(sig)
                devs.append(('type01-tellLrForFrame==(record,offset)', sig,
                             'tellLrForFrame(%d)=%r expected %r (%d frames)' % (f, got, exp, total)))
    for f in (total, total + 1, total + 1000, -1, -2):
        try:
            got = r.tellLrForFrame(f)
        except IndexError:
            continue
        except Exception as err:  # noqa
            _sut_exc(devs, 'type01-frame-out-of-range', err, 'tellLrForFrame(%d) of %d frames' % (f, total))
            break
        devs.append(('type01-frame-out-of-range', 'no-IndexError',
                     'tellLrForFrame(%d) of %d frames returned %r' % (f, total, got)))
        break

    def same_rec(got, exp):
        return (isinstance(got, tuple) and len(got) == 3 and got[0] == exp[0] and got[1] == exp[1]
                and _is_num(got[2]) and (got[2] == exp[2] or (x_float and abs(got[2] - exp[2]) <= tx)))
    n = len(model)
    try:
        got = r.num_values()
        if got != n:
            devs.append(('type01-num_values', 'num_values', 'num_values()=%r expected %d' % (got, n)))
    except Exception as err:  # noqa
        _sut_exc(devs, 'type01-num_values', err, 'num_values()')
    try:
        got = list(r.values())
    except Exception as err:  # noqa
        _sut_exc(devs, 'type01-values()==records', err, 'values()')
    else:
        if len(got) != n or not all(same_rec(a, b) for a, b in zip(got, model)):
            devs.append(('type01-values()==records', 'values', 'values()=%r expected %r' % (got[:8], model[:8])))
    for i in itertools.chain(range(n), range(-1, -n - 1, -1)):
        try:
            got = r.value(i)
        except Exception as err:  # noqa
            _sut_exc(devs, 'type01-value(i)==records[i]', err, 'value(%d) of %d records' % (i, n))
            break
        if not same_rec(got, model[i]):
            devs.append(('type01-value(i)==records[i]', 'value-nonneg-index' if i >= 0 else 'value-negative-index',
                         'value(%d)=%r expected %r' % (i, got, model[i])))
            break
    for name, exp in (('xAxisFirst', xs[0] if n else None), ('xAxisLast', xs[-1] if n else None)):
        try:
            got = getattr(r, name)()
        except Exception as err:  # noqa
            _sut_exc(devs, 'type01-' + name, err, name + '()')
            continue
        if exp is None:
            ok = got is None
        else:
            ok = _is_num(got) and (got == exp or (x_float and abs(got - exp) <= tx))
        if not ok:
            devs.append(('type01-' + name, name, '%s()=%r expected %r' % (name, got, exp)))
    return devs


def type01_classes(triples):
    items = ref.encode_type01(triples)
    n = len(triples)
    regular_change = any(a[1] == b[1] and b[1] != c[1] and b[0] - a[0] == c[0] - b[0]
                         for a, b, c in zip(triples, triples[1:], triples[2:]))
    return {
        'multi-item': len(items) >= 2,
        'item-of>=3-records': any(it[2] >= 2 for it in items),
        'frames-change-regular-positions': regular_change,
        'irregular-positions-same-frames': any(
            a[1] == b[1] == c[1] and b[0] - a[0] != c[0] - b[0] for a, b, c in zip(triples, triples[1:], triples[2:])),
        'empty': n == 0,
        'frames>1': any(t[1] > 1 for t in triples),
    }


def check_type01(case, cc):
    triples = [tuple(t) for t in case['triples']]
    for o, s, d in type01_devs(triples, case.get('fn', 'none')):
        cc.dev(o, s, 'records %s: %s' % (engine.short(triples, 240), d))
    cl = type01_classes(triples)
    cc.nt(cl['multi-item'])
    for k, v in cl.items():
        cc.cls('type01-' + k, v)
    cc.cls('type01-int-x', bool(triples) and all(isinstance(t[2], int) for t in triples))
    cc.sample({'triples': triples[:10], 'records': len(triples), 'total_frames': ref.total_frames(triples)})


def run_type01_enum(ctx, part, tier, shard, nshards):
    L = 4 if tier == 'quick' else 6
    alphabet = [(g, f) for g in (1, 2, 3) for f in (1, 2, 3)]
    evals = nontriv = 0
    counts = {}
    idx = 0
    for n in range(L + 1):
        for tup in itertools.product(alphabet, repeat=n):
            idx += 1
            if idx % nshards != shard:
                continue
            pos, x, triples = 0, 100.0, []
            for g, f in tup:
                pos += g
                triples.append((pos, f, x))
                x += 0.5 * f
            if type01_devs(triples):
                ctx.eval_case(part, {'triples': [list(t) for t in triples], 'fn': 'none'})
            else:
                evals += 1
                cl = type01_classes(triples)
                nontriv += cl['multi-item']
                for k, v in cl.items():
                    if v:
                        counts[k] = counts.get(k, 0) + 1
    ctx.bulk(part, evals, nontriv)
    for k, v in counts.items():
        ctx.classes['type01-' + k] = ctx.classes.get('type01-' + k, 0) + v
    if shard == 0:
        ctx.note('type01_exhaustive_length', L)


@st.composite
def type01_cases(draw):
    pos = draw(st.one_of(st.integers(0, 200), st.integers(0, 2 ** 33)))
    int_x = draw(st.integers(0, 4)) == 0
    x = draw(st.integers(-5000, 5000)) if int_x else draw(st.floats(min_value=-1e5, max_value=1e5, allow_nan=False))
    gaps = st.one_of(st.integers(1, 6), st.integers(1, 70000))
    frs = st.one_of(st.integers(1, 4), st.integers(1, 40))
    gap, frames = draw(gaps), draw(frs)
    triples = []
    for s in range(draw(st.integers(0, 6))):
        if s:
            what = draw(st.integers(0, 3))  # 0: new frames, same gap; 1: new gap, same frames; 2: both; 3: a jump
            if what in (0, 2):
                frames = draw(frs)
            if what in (1, 2):
                gap = draw(gaps)
            if what == 3:
                pos += draw(gaps)
        dx = draw(st.sampled_from([1, -1, 0, 2])) if int_x else draw(st.sampled_from([0.5, -0.5, 0.0, 0.1, -0.1524, 1 / 3]))
        for _ in range(draw(st.integers(1, 7))):
            triples.append([pos, frames, x])
            pos += gap
            x = x + frames * dx
    return {'triples': triples[:30], 'fn': draw(FN_NAMES)}


# ---------------------------------------------------------------------------------------------
# Histories: queries interleaved with add() - the index must be right after every step, not only when it is
# queried once at the end (a value cached by a query must not survive a later add)
# ---------------------------------------------------------------------------------------------
def check_type01_incremental(case, cc):
    from TotalDepth.LIS.core import Rle as LisRle
    triples = [tuple(t) for t in case['triples']]
    r = LisRle.RLEType01(b'FEET')
    model = []
    cc.nt(len(triples) >= 3)
    cc.cls('incremental:type01')
    cc.sample({'triples': triples[:6]})
    for k, (p, f, x) in enumerate(triples):
        r.add(p, f, x)
        model.append((p, f, x))
        total = ref.total_frames(model)
        got = r.totalFrames()
        if got != total:
            cc.dev('type01-totalFrames==sum', 'totalFrames-after-interleaved-add', 'after add #%d (queried after every add): totalFrames()=%r expected %d' % (k + 1, got, total))
            return
        if r.num_values() != len(model):
            cc.dev('type01-count', 'num_values-after-interleaved-add', 'after add #%d: num_values()=%r expected %d' % (k + 1, r.num_values(), len(model)))
            return
        for fnum in sorted(set([0, total - 1, total - f, max(0, total - f - 1)])):
            exp = ref.frame_locate(model, fnum)
            if exp is None:
                continue
            if tuple(r.tellLrForFrame(fnum)) != tuple(exp):
                cc.dev('type01-tellLrForFrame==model', 'locate-after-interleaved-add', 'after add #%d: tellLrForFrame(%d)=%r expected %r' % (k + 1, fnum, r.tellLrForFrame(fnum), exp))
                return
        try:
            r.tellLrForFrame(total)
            cc.dev('type01-tellLrForFrame==model', 'no-IndexError-past-end', 'after add #%d: tellLrForFrame(%d) did not raise' % (k + 1, total))
            return
        except IndexError:
            pass


def check_seq_incremental(case, cc):
    from TotalDepth.common import Rle
    seq = case['seq']
    if any(isinstance(v, float) for v in seq):
        return
    r = Rle.RLE()
    cc.nt(len(seq) >= 3)
    cc.cls('incremental:int-seq')
    for k, v in enumerate(seq):
        r.add(v)
        want = seq[:k + 1]
        got = (r.num_values(), r.first(), r.last(), r.value(k), r.value(-1))
        exp = (len(want), want[0], want[-1], want[k], want[-1])
        if got != exp:
            cc.dev('rle-after-every-add', 'state-after-interleaved-add', 'after add #%d of %r: (count, first, last, value(k), value(-1))=%r expected %r' % (k + 1, seq[:12], got, exp))
            return
    if list(r.values()) != list(seq):
        cc.dev('rle-values()==list', 'values-after-interleaved-add', 'values() differs after interleaved queries')


def parts(tier):
    return [
        HypPart('type01-incremental', type01_cases(), check_type01_incremental, 800, 16000),
        HypPart('int-seq-incremental', int_seqs(), check_seq_incremental, 800, 16000),
        EnumPart('int-exhaustive', run_int_enum, check_seq),
        EnumPart('type01-exhaustive', run_type01_enum, check_type01),
        HypPart('int-seq', int_seqs(), check_seq, 4000, 70000),
        HypPart('float-seq', float_seqs(), check_seq, 4000, 70000),
        HypPart('type01', type01_cases(), check_type01, 2400, 40000),
    ]


def exhaustive_note(tier, total):
    A, L = (4, 7) if tier == 'quick' else (5, 8)
    Lt = 4 if tier == 'quick' else 6
    return {'exhaustive': False,
            'exhaustive_subdomains': [
                'RLE: every integer sequence over 0..%d of length 0..%d, every index, every query -1..%d' % (A - 1, L, A),
                'RLEType01: every record list with gaps and frame counts in {1,2,3} of length 0..%d, every frame' % Lt]}
RULE += '  Round 16: integer sequences are also queried with fractional numbers (below zero too).'
