"""C05 - LIS physical records: what is written is what is read, at any position.

Oracles: an independent LIS-79 physical record / TIF encoder (vt.gen.lis) compared byte for byte with FileWrite;
a cursor model of sized reads / skips / seeks driven as a rule based state machine; strip_tif(TIF file) == plain file.
"""
import io

from hypothesis import strategies as st
from hypothesis.stateful import initialize, rule

from vt import engine
from vt.engine import HypPart, MachinePart, HistoryMachine
from vt.gen import lis as G

PID = 'C05'
LEVEL = 'exploration'
NEEDS_LIS_EXT = True
TECHNIQUE = 'property-based testing: Hypothesis rule based state machine against a cursor model + independent LIS-79 encoder (byte differential)'
LEVEL_TEXT = ('generated logical record lists x physical record lengths x trailer options x TIF modes, written by '
              'FileWrite and by an independent encoder, read through generated read/skip/seek histories and compared '
              'with a cursor model after every step')
RULE = ('files: 1..8 logical records of 2..4 physical-record payloads, PR length from the smallest legal value to 65535 '
        '(small values over-weighted), any subset of record-number/file-number/checksum trailers, TIF none/normal/'
        'reversed, greedy or irregular PR splits, produced by FileWrite or by the reference encoder; histories of up to '
        '30 read(n)/skip(n)/read-rest/skip-rest/skip-to-next/seek(k)/tell operations.  Non-trivial history: a seek to '
        'an earlier record followed (later) by a sized read or skip that crosses a physical record boundary, on a file '
        'with a record spanning >= 2 PRs; non-trivial write case: a record spanning >= 2 PRs.  Distinct = distinct '
        '(file model, history).')
ASSUMPTIONS = ['checksum bytes are masked in the byte comparison (the reader ignores them; the LIS-79 algorithm is not available offline)',
               'reversed TIF files whose first next-word is 0x100 or 0x10000 are excluded (two byte orders indistinguishable) and counted',
               'reads use keepGoing=False, pad_modulo=0; sized reads / skips have size >= 1',
               'strip_tif is exercised on normal (little-endian) TIF files only: DeTif documents no other form']
SHARDS = {'quick': 4, 'thorough': 16}
REQUIRED_CLASSES = {'tif-normal': 1, 'tif-reversed': 1, 'trailer-recnum': 1, 'trailer-filenum': 1, 'trailer-checksum': 1,
                    'pr-len<32': 1, 'read-ends-on-pr-boundary': 1, 'producer-filewrite': 1,
                    'pr-longer-than-32KiB': 1, 'reversed-first-next-multiple-of-256': 1, 'physical-records>65536': 1, 'checksum-compared-with-fresh-writer': 1, 'reversed-tif-file-longer-than-the-misread-first-next-word': 1}


class KeepOpen(io.BytesIO):
    def close(self):  # FileWrite.close() closes the stream it was given
        pass


def file_write_bytes(lrs, cfg):
    """Returns (bytes, positions) as produced by TotalDepth's FileWrite."""
    from TotalDepth.LIS.core import File, PhysRec
    bio = KeepOpen()
    prt = PhysRec.PhysRecTail(hasRecNum=cfg['rec_num'], fileNum=cfg['file_num'], hasCheckSum=cfg['checksum'])
    fw = File.FileWrite(bio, 'generated', False, cfg['tif'] == 'normal', cfg['pr_len'], prt)
    pos = [fw.write(lr) for lr in lrs]
    fw.close()
    return bio.getvalue(), pos


def classes(cc, cfg, model):
    cc.cls('tif-' + cfg['tif'])
    cc.cls('trailer-recnum', cfg['rec_num'])
    cc.cls('trailer-filenum', cfg['file_num'] is not None)
    cc.cls('trailer-checksum', cfg['checksum'])
    cc.cls('pr-len<32', cfg['pr_len'] < 32)
    cc.cls('record-spans>=2-PRs', any(len(p) >= 2 for p in model['prs']))
    cc.cls('record-spans>=4-PRs', any(len(p) >= 4 for p in model['prs']))
    cc.cls('reversed-first-next-multiple-of-256', cfg['tif'] == 'reversed' and (G.TIF_LEN + model['prs'][0][0][4]) % 256 == 0
           and not ambiguous_reversed(cfg, model))
    cc.cls('pr-longer-than-32KiB', any(pr[4] > 32768 for p in model['prs'] for pr in p))


def ambiguous_reversed(cfg, model):
    if cfg['tif'] != 'reversed':
        return False
    first_next = G.TIF_LEN + model['prs'][0][0][4]
    return first_next in (0x100, 0x10000)


def reference_checksum(pr_bytes):
    """The checksum of a physical record (header up to the checksum field) the way the package documents its type: 16 bit big
    endian words, each added with end-around carry, the sum rotated left by one bit after every word; an odd last byte is not
    summed.  Written from that description, in modular arithmetic (not a transcription of the loop)."""
    acc = 0
    for i in range(0, len(pr_bytes) - 1, 2):
        acc += (pr_bytes[i] << 8) | pr_bytes[i + 1]
        acc = (acc & 0xFFFF) + (acc >> 16)           # end-around carry (acc < 2^17, one fold is enough)
        acc = ((acc << 1) & 0xFFFF) | (acc >> 15)    # rotate left by one within 16 bits
    return acc


def mask_checksums(data, model):
    b = bytearray(data)
    for p in model['checksum_pos']:
        b[p:p + 2] = b'\x00\x00'
    return bytes(b)


# -------------------------------------------------------------------------------------------------
# Part 1: write differential + whole record read back
# -------------------------------------------------------------------------------------------------
@st.composite
def write_cases(draw):
    cfg = draw(G.phys_cfgs())
    big = draw(st.integers(0, 9)) == 0
    lrs = draw(G.lr_bytes_lists(cfg, max_total=220000 if big else 30000, max_len=140000 if big else 3000))
    return {'cfg': cfg, 'lrs': lrs}


def check_write(case, cc):
    from TotalDepth.LIS.core import File
    cfg, lrs = case['cfg'], case['lrs']
    ref, model = G.encode_physical(lrs, cfg)
    try:
        G.self_check_physical(ref, lrs, cfg, model)
    except AssertionError as err:
        raise engine.HarnessError('reference encoder self check: %r' % (err,))
    classes(cc, cfg, model)
    cc.nt(any(len(p) >= 2 for p in model['prs']))
    cc.sample({'cfg': cfg, 'lr_lengths': [len(x) for x in lrs], 'prs_per_lr': [len(p) for p in model['prs']]})
    if cfg['tif'] != 'reversed':
        got, pos = file_write_bytes(lrs, cfg)
        cc.cls('producer-filewrite')
        if len(got) != len(ref):
            cc.dev('write-layout==LIS79', 'length', 'FileWrite wrote %d bytes, reference %d' % (len(got), len(ref)))
        elif mask_checksums(got, model) != ref:
            i = next(i for i in range(len(ref)) if mask_checksums(got, model)[i] != ref[i])
            where = 'tif' if any(p <= i < p + 12 for p in model['tif_pos']) else 'pr'
            cc.dev('write-layout==LIS79', 'bytes-differ-in-' + where, 'first difference at %d: got %s reference %s' % (
                i, got[max(0, i - 4):i + 8].hex(), ref[max(0, i - 4):i + 8].hex()))
        if pos != model['lr_start']:
            cc.dev('write-positions', 'positions', 'write() returned %r, model %r' % (pos[:8], model['lr_start'][:8]))
        if cfg['checksum'] and len(got) == len(ref) and mask_checksums(got, model) == ref:
            k = 0
            for prs in model['prs']:
                for (_pos, hpos, _pp, _n, pr_len) in prs:
                    cp = model['checksum_pos'][k]
                    k += 1
                    want = reference_checksum(got[hpos:cp])
                    have = (got[cp] << 8) | got[cp + 1]
                    if have != want:
                        cc.dev('write-layout==LIS79', 'checksum-value', 'physical record at %d (%d bytes): checksum %04x, end-around-carry reference %04x' % (
                            hpos, pr_len, have, want))
                        break
                else:
                    continue
                break
            cc.cls('checksum-values-compared')
        # the checksum of a physical record is a function of that record: the records of the last logical record must carry the
        # checksums they get from a writer that has written nothing before (the value itself is not modelled: no reader checks it)
        if cfg['checksum'] and not cfg['rec_num'] and len(lrs) >= 2 and len(got) == len(ref):
            solo, _p = file_write_bytes(lrs[-1:], cfg)
            _r, solo_model = G.encode_physical(lrs[-1:], cfg)
            n_last = len(model['prs'][-1])
            a = [bytes(got[p:p + 2]) for p in model['checksum_pos'][-n_last:]]
            b = [bytes(solo[p:p + 2]) for p in solo_model['checksum_pos']]
            cc.cls('checksum-compared-with-fresh-writer')
            if len(solo) == len(_r) and a != b:
                cc.dev('write-layout==LIS79', 'checksum-depends-on-earlier-records',
                       'checksums of the last logical record %r; written alone by a fresh writer %r' % ([x.hex() for x in a[:6]], [x.hex() for x in b[:6]]))
    if ambiguous_reversed(cfg, model):
        cc.cls('excluded-ambiguous-reversed')
        return
    # whole record reads of the reference file
    fr = File.FileRead(engine.handle(ref), 'generated', False)
    out = []
    starts = []
    for _ in range(len(lrs) + 2):
        try:
            b = fr.readLrBytes(-1)
        except File.ExceptionFileRead:
            break
        if b is None:
            break
        out.append(b)
        starts.append(fr.tellLr())
    if out != lrs:
        cc.dev('whole-record-read', 'records', 'read %d records %r..., wrote %d' % (len(out), [len(x) for x in out][:8], len(lrs)))
    elif starts != model['lr_start']:
        cc.dev('read-positions', 'tellLr', 'tellLr() gave %r, model %r' % (starts[:8], model['lr_start'][:8]))


# -------------------------------------------------------------------------------------------------
# Part 2: read histories
# -------------------------------------------------------------------------------------------------
@st.composite
def file_inits(draw):
    cfg = draw(G.phys_cfgs())
    big = draw(st.integers(0, 11)) == 0
    lrs = draw(G.lr_bytes_lists(cfg, min_records=2, max_records=7, max_total=200000 if big else 20000,
                                max_len=140000 if big else 3000))
    mp = cfg['pr_len'] - G.PRH_LEN - G.trailer_len(cfg)
    producer = 'ref'
    splits = None
    if cfg['tif'] != 'reversed' and draw(st.integers(0, 2)) == 0:
        producer = 'filewrite'
    elif draw(st.integers(0, 2)) == 0:
        splits = []
        for lr in lrs:
            left, sz = len(lr), []
            while left > 0 and len(sz) < 40:
                n = min(left, draw(st.integers(1, mp)))
                sz.append(n)
                left -= n
            while left > 0:
                n = min(left, mp)
                sz.append(n)
                left -= n
            splits.append(sz)
    return {'cfg': cfg, 'lrs': lrs, 'splits': splits, 'producer': producer}


class ReadState:
    def __init__(self, init, cc):
        from TotalDepth.LIS.core import File
        self.File = File
        cfg, lrs = init['cfg'], init['lrs']
        ref, model = G.encode_physical(lrs, cfg, init.get('splits'))
        self.model = model
        self.lrs = lrs
        self.skipcase = ambiguous_reversed(cfg, model)
        classes(cc, cfg, model)
        cc.cls('irregular-splits', init.get('splits') is not None)
        data = ref
        if init['producer'] == 'filewrite':
            data, _pos = file_write_bytes(lrs, cfg)
            cc.cls('producer-filewrite')
        if self.skipcase:
            cc.cls('excluded-ambiguous-reversed')
            return
        self.fr = File.FileRead(engine.handle(data), 'generated', False)
        self.k = 0
        self.o = 0
        self.phase = 'head'
        self.max_k = 0
        self.back_seek = False
        self.multi = any(len(p) >= 2 for p in model['prs'])
        # payload offsets at which a physical record ends, per logical record
        self.bounds = []
        for prs in model['prs']:
            acc, s = 0, set()
            for p in prs:
                acc += p[3]
                s.add(acc)
            self.bounds.append(s)
        cc.sample({'cfg': cfg, 'lr_lengths': [len(x) for x in lrs], 'prs_per_lr': [len(p) for p in model['prs']],
                   'producer': init['producer'], 'irregular': init.get('splits') is not None})

    def close(self):
        pass


def start(init, cc):
    return ReadState(init, cc)


def _crosses(s, o0, o1):
    return any(o0 < b < o1 for b in s.bounds[s.k])


def step(s, op, cc):
    if s.skipcase:
        return
    File = s.File
    n_rec = len(s.lrs)
    kind = op['op']
    if kind == 'seek':
        j = op['k'] % n_rec
        got = s.fr.seekLr(s.model['lr_start'][j])
        if got != s.model['lr_start'][j]:
            cc.dev('seek-returns-position', 'seek-return', 'seekLr(%d) returned %r' % (s.model['lr_start'][j], got))
        if j < s.max_k or (j <= s.k and s.phase != 'head'):
            s.back_seek = True
        s.k, s.o, s.phase = j, 0, 'head'
        cc.cls('op-seek')
        return
    if kind == 'tell':
        if s.phase == 'in':
            got = s.fr.tellLr()
            if got != s.model['lr_start'][s.k]:
                cc.dev('read-positions', 'tellLr', 'tellLr()=%r inside record %d which starts at %d' % (got, s.k, s.model['lr_start'][s.k]))
            cc.cls('op-tell')
        return
    if s.phase == 'eof':
        return  # only a seek makes sense after the end of file has been reported
    is_read = kind in ('read', 'read_rest')
    size = op.get('n', -1) if kind in ('read', 'skip') else -1
    if kind in ('read', 'skip', 'read_rest', 'skip_rest'):
        try:
            got = s.fr.readLrBytes(size) if is_read else s.fr.skipLrBytes(size)
            exc = None
        except File.ExceptionFileRead as err:
            got, exc = None, err
        if s.phase == 'head' and s.k >= n_rec:
            # end of file: None / 0 (or the documented read error), never data
            s.phase = 'eof'
            if exc is None and got not in (None, 0, b''):
                cc.dev('cursor-model', 'data-after-eof', '%s(%d) at end of file returned %r' % (kind, size, engine.short(got, 60)))
            cc.cls('op-at-eof')
            return
        if exc is not None:
            cc.dev('cursor-model', 'read-error-on-valid-file', '%s(%d) in record %d offset %d raised %r' % (kind, size, s.k, s.o, exc))
            s.phase = 'eof'
            return
        if s.phase == 'head':
            s.phase, s.o = 'in', 0
        rec = s.lrs[s.k]
        rem = len(rec) - s.o
        if rem == 0:
            if got not in ((None,) if is_read else (0,)):
                cc.dev('cursor-model', 'end-of-record-marker', '%s(%d) at end of record %d returned %r' % (kind, size, s.k, engine.short(got, 60)))
            s.k += 1
            s.phase = 'head'
            s.max_k = max(s.max_k, s.k)
            cc.cls('op-end-of-record')
            return
        take = rem if size < 0 else min(size, rem)
        exp = rec[s.o:s.o + take]
        if is_read:
            if got != exp:
                sig = 'read-length' if (got is None or len(got) != len(exp)) else 'read-content'
                cc.dev('cursor-model', sig, '%s(%d) record %d offset %d: got %s expected %s' % (
                    kind, size, s.k, s.o, engine.short(got.hex() if got is not None else None, 80), engine.short(exp.hex(), 80)))
        else:
            if got != take:
                cc.dev('cursor-model', 'skip-count', '%s(%d) record %d offset %d returned %r expected %d' % (kind, size, s.k, s.o, got, take))
        crossed = _crosses(s, s.o, s.o + take)
        cc.cls('sized-op-crosses-pr-boundary', size > 0 and crossed)
        cc.cls('read-ends-on-pr-boundary', size > 0 and (s.o + take) in s.bounds[s.k] and s.o + take < len(rec))
        if size > 0 and crossed and s.back_seek and s.multi:
            cc.nt(True)
        s.o += take
        if size < 0:
            s.k += 1
            s.phase = 'head'
            s.max_k = max(s.max_k, s.k)
        cc.cls('op-' + kind)
        return
    if kind == 'next':
        try:
            got = s.fr.skipToNextLr()
            exc = None
        except File.ExceptionFileRead as err:
            got, exc = None, err
        if s.phase == 'head' and s.k >= n_rec:
            s.phase = 'eof'
            return
        rem = len(s.lrs[s.k]) if s.phase == 'head' else len(s.lrs[s.k]) - s.o
        last = s.k + 1 >= n_rec
        if exc is not None:
            if not last:
                cc.dev('cursor-model', 'read-error-on-valid-file', 'skipToNextLr() in record %d raised %r' % (s.k, exc))
            s.phase = 'eof'
            return
        if got != rem:
            cc.dev('cursor-model', 'skip-count', 'skipToNextLr() in record %d offset %d returned %r expected %d' % (s.k, s.o, got, rem))
        s.k += 1
        s.max_k = max(s.max_k, s.k)
        s.o = 0
        s.phase = 'eof' if last else 'in'
        cc.cls('op-next')
        return
    raise engine.HarnessError('unknown op %r' % (op,))


class ReadMachine(HistoryMachine):
    START = staticmethod(start)
    STEP = staticmethod(step)

    @initialize(init=file_inits())
    def init(self, init):
        self.begin(init)

    @rule(n=st.one_of(st.integers(0, 8), st.integers(1, 300), st.integers(1, 5000)))
    def read(self, n):
        self.op({'op': 'read', 'n': n})

    @rule(n=st.one_of(st.integers(0, 8), st.integers(1, 300), st.integers(1, 5000)))
    def skip(self, n):
        self.op({'op': 'skip', 'n': n})

    @rule(frac=st.integers(1, 4), skip=st.booleans())
    def to_boundary(self, frac, skip):
        """A sized read/skip that ends exactly on (or just beside) a physical record boundary."""
        s = self.state
        if s is None or s.skipcase or s.phase == 'eof' or s.k >= len(s.lrs):
            return
        o = 0 if s.phase == 'head' else s.o
        later = sorted(b for b in s.bounds[s.k] if b > o)
        if not later:
            return
        n = later[min(len(later) - 1, frac - 1)] - o + (0 if frac != 3 else 1)
        self.op({'op': 'skip' if skip else 'read', 'n': max(1, n)})

    @rule()
    def read_rest(self):
        self.op({'op': 'read_rest'})

    @rule()
    def skip_rest(self):
        self.op({'op': 'skip_rest'})

    @rule()
    def next(self):
        self.op({'op': 'next'})

    @rule(k=st.integers(0, 6))
    def seek(self, k):
        self.op({'op': 'seek', 'k': k})

    @rule()
    def tell(self):
        self.op({'op': 'tell'})


# -------------------------------------------------------------------------------------------------
# Part 3: strip_tif
# -------------------------------------------------------------------------------------------------
@st.composite
def strip_cases(draw):
    cfg = draw(G.phys_cfgs(tif_options=('normal',)))
    big = draw(st.integers(0, 7)) == 0
    lrs = draw(G.lr_bytes_lists(cfg, max_records=6, max_total=200000 if big else 12000, max_len=140000 if big else 3000))
    return {'cfg': cfg, 'lrs': lrs, 'producer': draw(st.sampled_from(['ref', 'filewrite']))}


def check_strip(case, cc):
    from TotalDepth import DeTif
    cfg, lrs = case['cfg'], case['lrs']
    plain_cfg = dict(cfg, tif='none')
    if case['producer'] == 'filewrite':
        tif_bytes, _ = file_write_bytes(lrs, cfg)
        plain, _ = file_write_bytes(lrs, plain_cfg)
        cc.cls('producer-filewrite')
    else:
        tif_bytes, model = G.encode_physical(lrs, cfg)
        plain, _m = G.encode_physical(lrs, plain_cfg)
    _ref, model = G.encode_physical(lrs, cfg)
    classes(cc, cfg, model)
    n_prs = sum(len(p) for p in model['prs'])
    cc.nt(n_prs >= 2)
    extra_marks = 0
    if len(lrs) >= 2 and sum(len(x) for x in lrs) % 3 == 0:
        # a tape image: the logical records are two files on one tape, separated by a tape mark - a marker of type 1 without
        # payload between two physical records (here: before the first physical record of logical record k), pointers relinked
        import struct
        k = 1 + len(lrs[0]) % (len(lrs) - 1)
        at = sum(len(p) for p in model['prs'][:k])
        blocks, pos = [], 0
        while pos + 12 <= len(tif_bytes):
            typ, _prev, nxt = struct.unpack('<3L', tif_bytes[pos:pos + 12])
            if nxt <= pos:
                break
            blocks.append((typ, tif_bytes[pos + 12:nxt]))
            pos = nxt
        if len(blocks) == n_prs + 2:
            blocks.insert(at, (1, b''))
            joined, prev = b'', 0
            for typ, payload in blocks:
                tell = len(joined)
                joined += struct.pack('<3L', typ, prev, tell + 12 + len(payload)) + payload
                prev = tell
            tif_bytes = joined
            extra_marks = 1
            cc.cls('tape-image:tape-mark-between-two-logical-records')
    n_prs += extra_marks
    out = KeepOpen()
    markers, written = DeTif.strip_tif(engine.handle(tif_bytes), out)
    if out.getvalue() != plain:
        cc.dev('strip-tif==plain', 'stripped-bytes', 'stripped %d bytes, plain file has %d' % (len(out.getvalue()), len(plain)))
    if written != len(plain):
        cc.dev('strip-tif-counts', 'bytes-written', 'reported %r bytes, plain file has %d' % (written, len(plain)))
    if markers != n_prs + 2:
        cc.dev('strip-tif-counts', 'marker-count', 'reported %r markers, file has %d' % (markers, n_prs + 2))
    cc.sample({'cfg': cfg, 'lr_lengths': [len(x) for x in lrs], 'markers': n_prs + 2})


@st.composite
def many_record_cases(draw):
    """More physical records than the 16 bit record number of the trailer can count (it wraps at 65536): one logical
    record cut into ~65536 + k physical records of the smallest sizes, then a few small records.  Built when checked."""
    cfg = draw(G.phys_cfgs(tif_options=('none', 'none', 'normal')))
    tl = G.trailer_len(dict(cfg, rec_num=True))
    cfg = dict(cfg, rec_num=True, pr_len=G.PRH_LEN + tl + draw(st.integers(1, 6)))
    return {'cfg': cfg, 'n_prs': 65536 + draw(st.integers(-3, 40)), 'rest': draw(st.integers(0, 5)),
            'tail': draw(st.lists(st.integers(2, 40), min_size=1, max_size=4))}


def check_many_records(case, cc):
    cfg = case['cfg']
    mp = cfg['pr_len'] - G.PRH_LEN - G.trailer_len(cfg)
    n = case['n_prs'] * mp - min(case['rest'], mp - 1)
    big = bytes([0, 0]) + bytes((7 * i + (i >> 8)) & 0xFF for i in range(n - 2))
    lrs = [big] + [bytes([128, 0]) + bytes((k + i) & 0xFF for i in range(ln - 2)) for k, ln in enumerate(case['tail'])]
    cc.cls('physical-records>65536')
    check_write({'cfg': cfg, 'lrs': lrs}, cc)


@st.composite
def large_reversed_cases(draw):
    """Byte-reversed TIF markers in a file large enough that the first marker's `next` word, read in the wrong byte order,
    still points inside the file (first physical record of 0x100 * k - 12 bytes, file longer than k * 64 KiB).  Built when checked."""
    cfg = dict(draw(G.phys_cfgs(tif_options=('reversed',))), pr_len=draw(st.integers(1024, 4000)))
    return {'cfg': cfg, 'k': draw(st.sampled_from([2, 2, 3])), 'extra': draw(st.integers(100, 9000)), 'tail': draw(st.lists(st.integers(2, 300), min_size=0, max_size=3))}


def check_large_reversed(case, cc):
    cfg, k = case['cfg'], case['k']
    t = G.trailer_len(cfg)
    first = bytes([128, 0]) + bytes((5 * i) & 0xFF for i in range(0x100 * k - 12 - G.PRH_LEN - t - 2))
    big = bytes([0, 0]) + bytes((7 * i + (i >> 8)) & 0xFF for i in range(k * 65536 + case['extra']))
    lrs = [first, big] + [bytes([34, 0]) + bytes((j + i) & 0xFF for i in range(n - 2)) for j, n in enumerate(case['tail'])]
    cc.cls('reversed-tif-file-longer-than-the-misread-first-next-word')
    check_write({'cfg': cfg, 'lrs': lrs}, cc)


def parts(tier):
    return [
        HypPart('write-vs-reference', write_cases(), check_write, 3000, 40000),
        MachinePart('read-history', ReadMachine, engine.replay_machine_case(start, step), 2500, 40000, steps=30),
        HypPart('strip-tif', strip_cases(), check_strip, 1500, 20000),
        HypPart('write-many-records', many_record_cases(), check_many_records, 4, 48),
        HypPart('reversed-tif-large', large_reversed_cases(), check_large_reversed, 8, 64),
    ]


RULE += '  Added after the seeding rounds: part write-many-records (> 65536 physical records, record number trailer wraps); checksums of the last logical record must equal those of a fresh writer (history independence; the value is not modelled); handles positioned anywhere.'
RULE += '  Round 17: strip-tif also on tape images (a type 1 marker between two logical records).'
