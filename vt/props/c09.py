"""C09 - LAS files parse to their content, independent of layout.

One content model (vt.gen.las) is rendered by an independent renderer in three layouts (one unwrapped, one
wrapped, one free) and every text is read with ``LASRead.LASRead``.

Oracles
  section-list          the sections reported are exactly ~V, the model's sections in file order, ~A
  section-lines         every line of ~V ~W ~C ~P: mnemonic, units, description as written (stripped text), value
                        typed by the stated rule (integer, else float, else yes/no, else text); nothing missing,
                        nothing invented (line counts); lookup by mnemonic gives the same line
  array-shape           one channel per curve, in curve order (ident, units), one row per frame, float64 (n, 1)
  array-values          every datum == the correctly rounded binary64 of the printed decimal (vt.ref.lasfmt, exact
                        rational arithmetic), unparseable tokens == the null value
  array-mask            (documented by LogPass.FrameArray.mask_array / AbsentValue) nothing but null values is masked,
                        the index channel is not masked, null values of the other channels are masked
  parse-accepts-wellformed   no exception for a well-formed text
  layout-equivalence    metamorphic: the observations of the three layouts are identical (the WRAP value apart)
"""
import io
import os
import logging

from hypothesis import strategies as st

from vt.engine import HarnessError, HypPart
from vt.gen import las as genlas
from vt.ref import lasfmt

PID = 'C09'
LEVEL = 'exploration'
TECHNIQUE = 'property-based testing (Hypothesis): independent LAS renderer + exact decimal reference, metamorphic layouts'
RULE = ('Content models from vt.gen.las.las_models (LAS 1.2 / 2.0; ~W ~C always, ~P ~O optional, sections between ~V and ~A '
        'in any order; 1..8 curves, 1..30 frames; header lines with units empty or free of spaces/colons, values empty / '
        'integer / float / yes-no / text with colons, dots, inner spaces, times, dates, descriptions free of colons; data '
        'tokens fixed point, integer, exponent, leading/trailing point, null, below-null and ~4 % unparseable tokens; ~3 % '
        'of header lines carry a mnemonic/unit/description that the typing rule would change; ~6 % of models declare a '
        'NULL other than -999.25 or none), each rendered in 3 layouts (unwrapped, wrapped, free: section title variants, '
        'space padding of every header field, comment / empty / white-space-only lines anywhere incl. before ~V, inside '
        'wrapped frames and at the end, blank and tab separation, aligned columns, 1..7 values per continuation line, '
        'optional final newline).  Non-trivial: a wrapped layout of a model with >= 3 curves and >= 2 frames that has a '
        'comment line inside the data section, and the model has a header value containing a colon.  Distinct = distinct '
        '(model, layouts) case.')
ASSUMPTIONS = [
    'index (first curve) values are numeric and pairwise distinct as numbers (the reader documents a duplicate X axis '
    'error in its default raise_on_error=True mode); curve mnemonics are distinct (duplicate channel is a documented error)',
    'header lines are padded with spaces only, tabs only separate data values (the quantifier of the property)',
    'section title lines start in column 0 with ~ (LAS 2.0: the tilde is the first character of the line)',
    'printable ASCII text only; unparseable tokens are ones that Python float() also refuses (no inf/nan/underscore forms), '
    'header text values are ones that neither int() nor float() accepts and that are not yes/no',
    'curves (DATE, D) and (TIME, HHMMSS), which the reader types as date/time objects, are not generated',
    'the null value that replaces unparseable data is the one the file declares in ~W NULL (customary -999.25 when absent)',
    'mask oracle applied only to files whose null value is the customary -999.25',
    '~O section content is generated but not asserted (not part of the statement)',
    'numbers are within the binary64 range; comparison of data is exact (==) against the correctly rounded value',
]
LEVEL_TEXT = ('generated LAS texts against an independent content model and an exact decimal reference; three layouts per '
              'model compared with each other; counts and samples in the evidence file')
SHARDS = {'quick': 4, 'thorough': 16}
REQUIRED_CLASSES = {'layout:last-line-of-one-character-without-line-end': 1, 
    'nt:wrapped>=3curves>=2frames+comment-in-data+colon-value': 1,
    'layout:wrapped': 1, 'layout:unwrapped': 1, 'layout:comment-inside-wrapped-frame': 1, 'layout:tabs-in-data': 1,
    'layout:indented-comment': 1, 'layout:ws-only-line': 1, 'layout:decoration-before-~V': 1,
    'value:colon': 1, 'value:time': 1, 'value:bool-mixed-case': 1, 'value:int': 1, 'value:float': 1, 'value:empty': 1,
    'unit:empty': 1, 'unit:with-dot': 1, 'data:unparseable-token': 1, 'data:null-token': 1, 'data:below-null': 1,
    'field:retypeable': 1, 'null:declared-other': 1, 'index:passes-null': 1, 'wrapped-single-curve': 1, 'las:1.2': 1, 'las:2.0': 1,
}

RETYPE_PCT = 3
OTHER_NULL_PCT = 6


@st.composite
def short_tail_cases(draw):
    """The smallest data sections: the index alone (or one more curve), a handful of frames whose last index value is a single digit,
    no decoration, and often no line end after the last line - the last line of the file is then one or two characters long."""
    model = draw(genlas.las_models(max_curves=draw(st.sampled_from((1, 1, 2))), max_frames=5, retype_pct=0, other_null_pct=0))
    n = len(model['data'])
    last = draw(st.integers(0, 9))
    step = draw(st.integers(1, 3))
    index = [str(last + (n - 1 - i) * step) for i in range(n)]
    model = dict(model, data=[[index[i]] + list(row[1:]) for i, row in enumerate(model['data'])],
                 W=[dict(ln, value=index[0], kind='int') if ln['mnem'] == 'STRT' else dict(ln, value=index[-1], kind='int') if ln['mnem'] == 'STOP'
                    else dict(ln, value=str(-step), kind='int') if ln['mnem'] == 'STEP' else ln for ln in model['W']])
    lay = lambda wrap: dict(genlas.plain_layout(wrap), final_newline=draw(st.integers(0, 2)) == 0)  # noqa
    return {'model': model, 'layouts': [lay(False), lay(True), lay(False)]}


@st.composite
def cases(draw, max_curves=8, max_frames=30):
    model = draw(genlas.las_models(max_curves=max_curves, max_frames=max_frames, retype_pct=RETYPE_PCT,
                                   other_null_pct=OTHER_NULL_PCT))
    return {'model': model, 'layouts': [draw(genlas.layouts(wrap=False)), draw(genlas.layouts(wrap=True)),
                                         draw(genlas.layouts())]}


# ---------------------------------------------------------------------------------------------
def _typed(v):
    """Comparable, type-tagged form (distinguishes True / 1 / 1.0, nan == nan)."""
    if isinstance(v, float):
        return 'float', v.hex() if v == v and abs(v) != float('inf') else repr(v)
    return type(v).__name__, repr(v)


def expected_value(line):
    """Typed value of a header line by the stated rule; the generator's intent is cross-checked."""
    text = line['value']
    if text == '':
        kind, val = 'empty', ''
    else:
        kind, val = lasfmt.classify_value(text)
    if kind != line['kind']:
        raise HarnessError('generator says %r is %s, reference typing says %s' % (text, line['kind'], kind))
    return kind, val


class Devs:
    """Collects at most one deviation per (oracle, signature) for a layout."""
    def __init__(self, cc, tag):
        self.cc, self.tag, self.seen = cc, tag, set()

    def add(self, oracle, signature, detail):
        if (oracle, signature) not in self.seen:
            self.seen.add((oracle, signature))
            self.cc.dev(oracle, signature, '[layout %s] %s' % (self.tag, detail))


def check_text_field(dv, where, name, got, want):
    """A non-value field must come back as the stripped text that was written."""
    if type(got) is str and got == want:
        return True
    if lasfmt.retypeable(want) and lasfmt.same_typed(got, lasfmt.classify_value(want)[1]):
        dv.add('section-lines', 'field-retyped:' + name,
               '%s: %s written as %r reported as %r (%s)' % (where, name, want, got, type(got).__name__))
    else:
        dv.add('section-lines', 'field-wrong:' + name, '%s: %s written as %r reported as %r' % (where, name, want, got))
    return False


def check_section(dv, sect_type, section, lines):
    """lines: the model's lines.  Returns True when a mnemonic of the section was retyped."""
    members = list(section.members)
    if len(members) != len(lines):
        dv.add('section-lines', 'line-count', '~%s: %d lines written, %d reported: %r' % (
            sect_type, len(lines), len(members), members[:4]))
    mnem_retyped = False
    for i, (line, got) in enumerate(zip(lines, members)):
        where = '~%s line %d' % (sect_type, i)
        if not (isinstance(got, tuple) and len(got) == 4):
            dv.add('section-lines', 'member-not-a-line', '%s: %r' % (where, got))
            continue
        if not check_text_field(dv, where, 'mnem', got.mnem, line['mnem']):
            mnem_retyped = mnem_retyped or type(got.mnem) is not str
        check_text_field(dv, where, 'unit', got.unit, line['unit'])
        check_text_field(dv, where, 'desc', got.desc, line['desc'])
        kind, want = expected_value(line)
        if not lasfmt.same_typed(got.valu, want):
            dv.add('section-lines', 'value-wrong:' + kind, '%s: value written as %r expected %r (%s) reported %r (%s)' % (
                where, line['value'], want, type(want).__name__, got.valu, type(got.valu).__name__))
        # lookup by mnemonic
        if not lasfmt.retypeable(line['mnem']):
            try:
                same = section[line['mnem']]
            except KeyError:
                dv.add('section-lines', 'keyed-lookup-missing', '%s: no entry under %r' % (where, line['mnem']))
            else:
                if same is not got and tuple(map(_typed, same)) != tuple(map(_typed, got)):
                    dv.add('section-lines', 'keyed-lookup-other-line', '%s: [%r] gives %r' % (where, line['mnem'], same))
    return mnem_retyped


def observe(las_file, sections):
    """Everything the property talks about, in comparable form (used for the layout equivalence)."""
    sect_obs = []
    for s in sections:
        if s.type == 'A':
            continue
        rows = []
        for i, m in enumerate(s.members):
            if isinstance(m, tuple):
                row = tuple(map(_typed, m))
                if s.type == 'V' and i == 1:
                    row = (row[0], row[1], 'WRAP-VALUE', row[3])
                rows.append(row)
            else:
                rows.append(('text', m))
        sect_obs.append((s.type, tuple(rows)))
    arr_obs = []
    fa = las_file.frame_array
    if fa is not None:
        import numpy as np
        for ch in fa.channels:
            data = np.ma.getdata(ch.array)
            mask = np.ma.getmaskarray(ch.array)
            arr_obs.append((_typed(ch.ident), _typed(ch.units), tuple(data.shape), str(data.dtype),
                            tuple(float(x).hex() if x == x else 'nan' for x in data.reshape(-1).tolist()),
                            tuple(bool(b) for b in mask.reshape(-1).tolist())))
    return tuple(sect_obs), tuple(arr_obs)


def curve_mnemonic_retyped(header_text):
    """Reads the header part alone (everything before ~A): has a curve mnemonic come back as a non-string?"""
    from TotalDepth.LAS.core import LASRead
    try:
        las_file = LASRead.LASRead(io.StringIO(header_text), 'C09-header')
        return any(type(m.mnem) is not str for m in las_file['C'].members)
    except Exception:  # noqa
        return False


def read_by_path(text):
    """The text stored as a file in the encoding the platform gives text files, read through its path (what every tool does)."""
    import locale
    import tempfile
    from TotalDepth.LAS.core import LASRead
    with tempfile.TemporaryDirectory(prefix='vt_c09_') as d:
        path = os.path.join(d, 'C09.las')
        with open(path, 'w', encoding=locale.getpreferredencoding(False), newline='') as f:
            f.write(text)
        return LASRead.LASRead(path, 'C09')


def check_layout(model, layout, tag, cc, by_path=False):
    """Renders and reads one layout.  Returns the observation for the equivalence oracle or None."""
    import numpy as np
    from TotalDepth.LAS.core import LASRead
    dv = Devs(cc, tag)
    text, info = genlas.render_las_info(model, layout)
    ncurves, nframes = len(model['C']), len(model['data'])
    wrap = bool(layout['wrap'])
    try:
        las_file = read_by_path(text) if by_path else LASRead.LASRead(io.StringIO(text), 'C09')
    except Exception as err:  # noqa
        if isinstance(err, LASRead.ExceptionLASReadSectionArray) and wrap and ncurves == 1 \
                and 'array overflow' in str(err):
            dv.add('parse-accepts-wellformed', 'wrapped-single-curve-rejected',
                   'wrapped file with one curve (index only, %d frames): %r' % (nframes, err))
        elif curve_mnemonic_retyped(info['header_text']):
            # the channel identities are not the curve mnemonics any more (False == 0, True == 1, two spellings
            # of inf ...): same root cause as the retyped mnemonic itself
            dv.add('section-lines', 'field-retyped:mnem', 'consequence when the array section is read: %r' % err)
        else:
            cc.unexpected(err, 'parse-accepts-wellformed')
        return None, info, False
    # --- sections: nothing missing, nothing invented
    sections = list(las_file.generate_sections())
    got_types = [s.type for s in sections]
    want_types = ['V'] + list(model['order']) + ['A']
    if got_types != want_types:
        dv.add('section-list', 'sections', 'written %r reported %r' % (want_types, got_types))
    by_type = {}
    for s in sections:
        by_type.setdefault(s.type, s)
    for t in want_types:
        if t in by_type:
            try:
                if las_file[t] is not by_type[t]:
                    dv.add('section-list', 'section-lookup', 'las[%r] is not the section of that type' % t)
            except KeyError:
                dv.add('section-list', 'section-lookup', 'las[%r] raises KeyError' % t)
    v_lines = [{'mnem': 'VERS', 'unit': '', 'value': model['vers'], 'kind': 'float', 'desc': model['vers_desc']},
               {'mnem': 'WRAP', 'unit': '', 'value': 'YES' if wrap else 'NO', 'kind': 'bool', 'desc': model['wrap_desc']}]
    curve_retyped = False
    for t, lines in (('V', v_lines), ('W', model['W']), ('C', model['C']), ('P', model.get('P'))):
        if lines is None or t not in by_type:
            continue
        r = check_section(dv, t, by_type[t], lines)
        if t == 'C':
            curve_retyped = r
    # --- array
    fa = las_file.frame_array
    obs = observe(las_file, sections)
    if fa is None:
        dv.add('array-shape', 'no-frame-array', 'no frame array for %d curves x %d frames' % (ncurves, nframes))
        return obs, info, curve_retyped
    # When a curve mnemonic has been retyped (reported above) the channel identities are no longer the curve
    # mnemonics and everything downstream of them is the same root cause.
    array_dv = dv
    if curve_retyped:
        class _Attr:
            def add(self, oracle, signature, detail):
                dv.add('section-lines', 'field-retyped:mnem', 'consequence in the frame array (%s/%s): %s' % (
                    oracle, signature, detail))
        array_dv = _Attr()
    if len(fa.channels) != ncurves:
        array_dv.add('array-shape', 'channel-count', '%d curves written, %d channels' % (ncurves, len(fa.channels)))
        return obs, info, curve_retyped
    null_value, _declared = genlas.model_null(model)
    default_null = null_value == -999.25
    for c, (line, ch) in enumerate(zip(model['C'], fa.channels)):
        for name, got, want in (('mnem', ch.ident, line['mnem']), ('unit', ch.units, line['unit'])):
            if type(got) is str and got == want:
                continue
            if lasfmt.retypeable(want) and lasfmt.same_typed(got, lasfmt.classify_value(want)[1]):
                dv.add('section-lines', 'field-retyped:' + name, 'channel %d: %s written as %r reported as %r' % (
                    c, name, want, got))
            else:
                array_dv.add('array-shape', 'channel-' + name, 'channel %d: %s written as %r reported as %r' % (
                    c, name, want, got))
        arr = ch.array
        data = np.ma.getdata(arr)
        if tuple(data.shape) != (nframes, 1):
            array_dv.add('array-shape', 'frame-count', 'channel %d: shape %r for %d frames' % (c, data.shape, nframes))
            continue
        if data.dtype != np.float64:
            array_dv.add('array-shape', 'dtype', 'channel %d: dtype %s' % (c, data.dtype))
            continue
        mask = np.ma.getmaskarray(arr)
        for f in range(nframes):
            tok = model['data'][f][c]
            p = lasfmt.parse_number(tok)
            got = float(data[f, 0])
            if p is not None:
                want = p.as_float()
                if not (got == want):
                    array_dv.add('array-values', 'value-wrong', 'frame %d channel %d: token %r expected %r got %r' % (
                        f, c, tok, want, got))
            else:
                if not (got == null_value):
                    if not default_null and got == -999.25:
                        array_dv.add('array-values', 'unparseable-not-declared-null',
                                     'frame %d channel %d: token %r replaced by %r, the file declares NULL %r' % (
                                         f, c, tok, got, null_value))
                    else:
                        array_dv.add('array-values', 'unparseable-not-null',
                                     'frame %d channel %d: token %r expected null %r got %r' % (f, c, tok, null_value, got))
            if default_null:
                m = bool(mask[f, 0])
                if m and not (got == null_value):
                    array_dv.add('array-mask', 'value-masked', 'frame %d channel %d: value %r (token %r) is masked' % (
                        f, c, got, tok))
                if c == 0 and m:
                    array_dv.add('array-mask', 'index-masked', 'frame %d: index value masked' % f)
                if c > 0 and not m and got == null_value:
                    array_dv.add('array-mask', 'null-not-masked', 'frame %d channel %d: null value %r (token %r) not '
                                                                  'masked' % (f, c, got, tok))
    return obs, info, curve_retyped


def check(case, cc):
    logging.disable(logging.CRITICAL)  # the reader logs a warning per unparseable token
    model, layouts = case['model'], case['layouts']
    ncurves, nframes = len(model['C']), len(model['data'])
    all_lines = model['W'] + model['C'] + (model.get('P') or [])
    colon_value = any(':' in ln['value'] for ln in all_lines)
    observations = []
    nt = False
    for k, layout in enumerate(layouts):
        tag = '%d:%s' % (k, 'wrapped' if layout['wrap'] else 'unwrapped')
        obs, info, curve_retyped = check_layout(model, layout, tag, cc)
        if curve_retyped and obs is not None:
            obs = (obs[0], 'not compared: a curve mnemonic was retyped (reported), channel identities are wrong')
        observations.append((tag, obs))
        wrap = bool(layout['wrap'])
        cc.cls('layout:wrapped', wrap)
        cc.cls('layout:unwrapped', not wrap)
        cc.cls('layout:comment-in-data', info['comment_in_data'] > 0)
        cc.cls('layout:blank-in-data', info['blank_in_data'] > 0)
        cc.cls('layout:comment-inside-wrapped-frame', info['comment_inside_wrapped_frame'] > 0)
        cc.cls('layout:tabs-in-data', info['tabs_in_data'] > 0)
        cc.cls('layout:indented-comment', info['indented_comment'] > 0)
        cc.cls('layout:ws-only-line', info['ws_only_line'] > 0)
        cc.cls('layout:decoration-before-~V', info['before_first_section'] > 0)
        cc.cls('layout:no-final-newline', not layout.get('final_newline', True))
        cc.cls('layout:last-line-of-one-character-without-line-end', not layout.get('final_newline', True) and not wrap
               and len(model['data'][-1]) == 1 and len(model['data'][-1][0]) == 1 and layout.get('leads') == [0] and layout.get('trails') == [0])
        cc.cls('layout:aligned-columns', bool(layout.get('aligned')))
        cc.cls('layout:line-longer-than-8192', max(layout['pads']) > 8000)
        cc.cls('layout:preamble>=64-lines', int(layout.get('preamble') or 0) >= 64)
        cc.cls('wrapped-single-curve', wrap and ncurves == 1)
        if wrap and ncurves >= 3 and nframes >= 2 and info['comment_in_data'] > 0 and colon_value:
            nt = True
    # the same content read through a file path; one time in two with a character outside ASCII in a description and in
    # the units of a curve (degree sign, micro sign: characters of the platform's text encoding)
    if (ncurves + nframes) % 3 == 0:
        import copy
        import locale
        m2, special = model, False
        try:
            '\xb0\xb5'.encode(locale.getpreferredencoding(False))
            encodable = True
        except (UnicodeError, LookupError):
            encodable = False
        if encodable and nframes % 2 == 0:
            m2 = copy.deepcopy(model)
            m2['W'][-1]['desc'] = (m2['W'][-1]['desc'] + ' \xb0C').strip()
            if m2['C'][-1]['unit'] and not lasfmt.retypeable(m2['C'][-1]['unit']):
                m2['C'][-1]['unit'] = '\xb5' + m2['C'][-1]['unit']
            special = True
        obs, _info, _cr = check_layout(m2, layouts[0], 'by-path' + (':non-ascii' if special else ''), cc, by_path=True)
        cc.cls('read-by-path')
        cc.cls('read-by-path:non-ascii', special)
        if not special:
            observations.append(('by-path', obs))
    # metamorphic: all layouts observe the same
    base = next(((t, o) for t, o in observations if o is not None), None)
    if base is not None:
        for tag, obs in observations:
            if obs is None or obs is base[1]:
                continue
            if obs[0] != base[1][0]:
                cc.dev('layout-equivalence', 'differs:sections', 'layouts %s and %s report different section lines' % (
                    base[0], tag))
            if obs[1] != base[1][1]:
                cc.dev('layout-equivalence', 'differs:array', 'layouts %s and %s report different frame arrays' % (
                    base[0], tag))
    # classes
    cc.nt(nt)
    cc.cls('nt:wrapped>=3curves>=2frames+comment-in-data+colon-value', nt)
    cc.cls('value:colon', colon_value)
    cc.cls('value:time', any(ln['kind'] == 'text' and _has_time(ln['value']) for ln in all_lines))
    cc.cls('value:dot', any('.' in ln['value'] and ln['kind'] == 'text' for ln in all_lines))
    cc.cls('value:inner-spaces', any(' ' in ln['value'] for ln in all_lines))
    cc.cls('value:bool-mixed-case', any(ln['kind'] == 'bool' and ln['value'] not in ('YES', 'NO') for ln in all_lines))
    for kind in ('int', 'float', 'bool', 'text', 'empty'):
        cc.cls('value:' + kind, any(ln['kind'] == kind for ln in all_lines))
    cc.cls('unit:empty', any(ln['unit'] == '' for ln in all_lines))
    cc.cls('unit:with-dot', any('.' in ln['unit'] for ln in all_lines))
    cc.cls('desc:empty', any(ln['desc'] == '' for ln in all_lines))
    cc.cls('desc:with-dot', any('.' in ln['desc'] for ln in all_lines))
    cc.cls('field:retypeable', any(lasfmt.retypeable(ln[k]) for ln in all_lines for k in ('mnem', 'unit', 'desc')))
    cc.cls('field:retypeable-curve-mnem', any(lasfmt.retypeable(ln['mnem']) for ln in model['C']))
    toks = [t for row in model['data'] for t in row[1:]]
    cc.cls('data:unparseable-token', any(not lasfmt.is_number(t) for t in toks))
    parsed = [lasfmt.parse_number(t) for t in toks]
    cc.cls('data:null-token', any(p is not None and p.value == lasfmt.parse_number('-999.25').value for p in parsed))
    cc.cls('data:below-null', any(p is not None and p.value < -1000 for p in parsed))
    cc.cls('index:passes-null', any(lasfmt.parse_number(row[0]).value == lasfmt.parse_number('-999.25').value
                                    for row in model['data']))
    cc.cls('data:exponent-token', any('e' in t.lower() and lasfmt.is_number(t) for t in toks))
    nv, declared = genlas.model_null(model)
    cc.cls('null:declared-other', nv != -999.25)
    cc.cls('null:line-absent', not declared)
    cc.cls('las:1.2', model['vers'].startswith('1.2'))
    cc.cls('las:2.0', model['vers'].startswith('2.0'))
    cc.cls('section:P', 'P' in model['order'])
    cc.cls('section:O', 'O' in model['order'])
    cc.cls('section-order:not-W-C-first', model['order'][:2] != ['W', 'C'])
    cc.cls('curves:1', ncurves == 1)
    cc.cls('curves:>=3', ncurves >= 3)
    cc.cls('frames:1', nframes == 1)
    cc.cls('frames:>=10', nframes >= 10)
    if nt:
        cc.sample({'curves': ncurves, 'frames': nframes, 'order': model['order'],
                   'first_lines_of_layout_1': genlas.render_las(model, layouts[1]).split('\n')[:12]})


def _has_time(text):
    import re
    return re.search(r'[0-9]{1,2}:[0-9]{2}(:[0-9]{2})?', text) is not None


def parts(tier):
    return [
        HypPart('las-layouts', cases(), check, 1800, 48000),
        HypPart('las-small', cases(max_curves=3, max_frames=4), check, 600, 16000),
        HypPart('las-short-tail', short_tail_cases(), check, 300, 6000),
    ]


RULE += '  Added after the seeding rounds: the same text read through a file path (platform text encoding), one time in two with a degree sign in a description and a micro sign in a unit.'
