"""C13 - Western Atlas BIT log passes decode to the recorded numbers.

Oracles
  * files: a model (passes, header, channel names, block pattern, raw IBM words) is encoded by the independent
    encoder ``vt.gen.bit`` and read by ``ReadBIT.create_bit_frame_array_from_file``; the result must be the model:
    number of passes, channel names, frame count, every value == the exact IBM reference of its word
    (``vt.ref.ibm``, rational arithmetic), placed by the channel-major de-interleave rule, the five header floats,
    and an X axis that starts at the header start and moves by the header spacing towards stop.
  * words: the three decoders the statement names (``ReadBIT.gen_floats`` for frame data, ``ReadBIT.bytes_to_float``
    for the header, ``RP66V1 pRepCode.ISINGL``) against the exact reference, word by word (stratified sweep, see
    ``word_strata``), which also makes them agree with each other.
  * the bundled example file, read through an independent decoder of the format.
"""
import fractions
import io
import os

import numpy as np
from hypothesis import strategies as st

from vt.engine import EnumPart, HarnessError, HypPart, REPO
from vt.gen import bit
from vt.ref import ibm

Fraction = fractions.Fraction

PID = 'C13'
LEVEL = 'exploration'
TECHNIQUE = 'property-based testing (Hypothesis) with an independent BIT encoder and an exact IBM-float reference; stratified enumeration of 32-bit words'
LEVEL_TEXT = ('generated BIT files and enumerated IBM words checked against an exact reference; counts, classes and '
              'samples in the evidence file; no claim beyond the cases explored')
RULE = ('files: Hypothesis draws a model (1..4 passes, 1..20 distinct channel names, 0..200 frames per pass cut into TIF '
        'data sets of constant size with a short last set / one set / one frame per set / arbitrary sizes, every value an '
        'arbitrary 32-bit IBM word in one of seven styles incl. un-normalised and zero-fraction words, header start/stop/'
        'spacing as IBM words with spacing > 0 and start != stop, up and down logs), encoded by vt.gen.bit.  Non-trivial: '
        'some pass has >= 2 channels and >= 2 data sets with different frame counts.  words: every (sign, characteristic) '
        'byte x boundary fractions + a Weyl sequence of fractions, and complete fraction ranges for selected top bytes '
        '(thorough: all 2^24 fractions for 16 top bytes per decoder, all 2^32 words for gen_floats when VERIF_C13_FULL=1); '
        'non-trivial: fraction != 0.  Distinct = distinct model / distinct (decoder, word) - every word of the strata of a decoder is visited once.')
ASSUMPTIONS = [
    'header spacing is positive and start != stop (the only form in the bundled file; LogPassRange assumes it)',
    'channel names of a pass are distinct and none is "X   " (the reader names its computed axis "X   " and '
    'LogPass.FrameArray refuses duplicate identities)',
    'every data set holds a whole number of frames for all channels (channel-major blocks, the layout the docstring describes)',
    'files whose final end marker(s) are missing are read like complete files (ReadBIT documents "premature EOF, '
    'handled silently"); generated as a minority class',
    'the sign of a zero is not checked (an IBM word with zero fraction is zero whatever its sign bit)',
    'X axis: x[0] == start exactly; x[k] within k * 2^-52 * (|start| + k*spacing) of start +- k*spacing (bound of k '
    'rounded additions), direction = sign(stop - start)',
]
SHARDS = {'quick': 4, 'thorough': 16}
REQUIRED_CLASSES = {'header-spacing-zero': 1, 'channel-with-blank-name': 1, 'data-block>=65536-bytes': 1, 'file-nontrivial': 1, 'passes>=2': 1, 'short-last-block': 1, 'blocks-differ': 1, 'channels==20': 1,
                    'channels==1': 1, 'up-log': 1, 'down-log': 1, 'word-unnormalised': 1, 'word-zero-fraction': 1,
                    'word-negative': 1, 'sweep-words': 1, 'bundled-file': 1, 'block-bytes>=4096': 1}

O_VALUE = 'frame-value==ibm-reference'          # frame data decoder (gen_floats), in files and word by word
O_B2F = 'bytes_to_float==ibm-reference'
O_ISINGL = 'ISINGL==ibm-reference'
SIG_FFFFFF = 'value==mantissa/0xffffff*16^(exp-64)'
EXAMPLE = 'example_data/BIT/data/29_10-_3Z_dwl_DWL_WIRE_1644659.bit'


def _mods():
    import logging
    from TotalDepth.BIT import ReadBIT
    from TotalDepth.RP66V1.core import File, pRepCode
    # the reader warns about a non-zero "null" field (generated on purpose); keep the shard logs readable
    ReadBIT.logger.setLevel(logging.ERROR)
    return ReadBIT, pRepCode, File


# --------------------------------------------------------------------------------------------
# Forms of a wrong value (signatures)
# --------------------------------------------------------------------------------------------
def ffffff_form(word: int) -> float:
    """The specific wrong formula (fraction divided by 0xffffff instead of 2^24), correctly rounded."""
    s, e, m = ibm.ibm_fields(word)
    q = Fraction(m, 0xFFFFFF) * Fraction(16) ** (e - 64)
    return float(-q if s else q)


def ffffff_form_vec(words: np.ndarray) -> np.ndarray:
    m = (words & np.uint32(0xFFFFFF)).astype(np.float64) / np.float64(0xFFFFFF)
    e = ((words >> np.uint32(24)) & np.uint32(0x7F)).astype(np.int32)
    mag = np.ldexp(m, 4 * (e - 64))
    return np.where((words >> np.uint32(31)) != 0, -mag, mag)


def value_signature(word: int, got) -> str:
    """'' when got is the exact value of the word, else the form of the error."""
    try:
        g = float(got)
    except Exception:  # noqa
        return 'not-a-number:%s' % type(got).__name__
    want = ibm.ibm_float(word)
    if g == want:
        return ''
    if g == ffffff_form(word):
        return SIG_FFFFFF
    if g == -want:
        return 'sign-wrong'
    if want != 0 and g != 0:
        r = Fraction(g) / Fraction(want)
        if r > 0 and (r.numerator == 1 or r.denominator == 1):
            n = r.numerator * r.denominator
            if n & (n - 1) == 0:
                return 'wrong-by-power-of-two'
    return 'wrong-value'


# --------------------------------------------------------------------------------------------
# Words
# --------------------------------------------------------------------------------------------
def decode_one(name, word):
    ReadBIT, pRepCode, File = _mods()
    b = ibm.ibm_bytes(word)
    if name == 'gen_floats':
        vals = list(ReadBIT.gen_floats(b))
        if len(vals) != 1:
            return ('count', len(vals))
        return ('value', vals[0])
    if name == 'bytes_to_float':
        return ('value', ReadBIT.bytes_to_float(b))
    ld = File.LogicalData(b)
    v = pRepCode.ISINGL(ld)
    if ld.index != 4:
        return ('consumed', ld.index)
    return ('value', v)


DECODERS = (('gen_floats', O_VALUE), ('bytes_to_float', O_B2F), ('ISINGL', O_ISINGL))


def check_word(case, cc):
    word = case['word']
    s, e, m = ibm.ibm_fields(word)
    only = case.get('decoder')
    cc.nt(m != 0)
    cc.cls('word-zero-fraction', m == 0)
    cc.cls('word-unnormalised', 0 < m < 0x100000)
    cc.cls('word-negative', bool(s) and m != 0)
    cc.sample({'word': '%08x' % word, 'value': ibm.ibm_float(word)})
    for name, oracle in DECODERS:
        if only and name != only:
            continue
        try:
            kind, v = decode_one(name, word)
        except Exception as err:  # noqa
            cc.unexpected(err, oracle)
            continue
        if kind != 'value':
            cc.dev(oracle, 'decoder-%s' % kind, '%s(%08x): %s %r' % (name, word, kind, v))
            continue
        sig = value_signature(word, v)
        if sig:
            cc.dev(oracle, sig, '%s(%08x) = %r, IBM single value is %r (sign %d, characteristic %d, fraction 0x%06x)' % (
                name, word, v, ibm.ibm_float(word), s, e, m))


def check_buffer(case, cc):
    """gen_floats over a buffer of several words: count and order."""
    ReadBIT, _p, _f = _mods()
    words = case['words']
    cc.nt(len(words) >= 2 and any(w & 0xFFFFFF for w in words))
    cc.cls('buffer-words>=2', len(words) >= 2)
    cc.cls('buffer-empty', not words)
    buf = b''.join(ibm.ibm_bytes(w) for w in words)
    try:
        got = list(ReadBIT.gen_floats(buf))
    except Exception as err:  # noqa
        cc.unexpected(err, O_VALUE)
        return
    if len(got) != len(words):
        cc.dev(O_VALUE, 'buffer-count', 'gen_floats gave %d values for %d words' % (len(got), len(words)))
        return
    sigs = sorted(set(value_signature(w, g) for w, g in zip(words, got)) - {''})
    for sig in sigs:
        i = [k for k, (w, g) in enumerate(zip(words, got)) if value_signature(w, g) == sig][0]
        cc.dev(O_VALUE, sig, 'gen_floats word %d of %d (%08x) = %r, IBM single value is %r' % (
            i, len(words), words[i], got[i], ibm.ibm_float(words[i])))


def weyl_fractions(n, offset=0):
    """n distinct 24 bit fractions from a Weyl sequence (odd multiplier: a permutation of 0..2^24-1)."""
    k = np.arange(n, dtype=np.uint64) + np.uint64(offset)
    return ((k * np.uint64(0x9E3779B1)) & np.uint64(0xFFFFFF)).astype(np.uint32)


THOROUGH_TOPS = [0x00, 0x01, 0x3F, 0x40, 0x41, 0x42, 0x44, 0x48, 0x7E, 0x7F, 0x80, 0xBF, 0xC0, 0xC1, 0xC2, 0xFF]
QUICK_TOPS = [0x00, 0x41, 0xC2, 0x7F]
CHUNK = 1 << 20


def word_strata(tier, decoder, seed):
    """Returns (description, list of chunk descriptors).  A chunk is ('range', top, lo, hi) - all fractions lo..hi-1
    with that top byte - or ('array', uint32 array).  The union is what the part covers for that decoder."""
    full = os.environ.get('VERIF_C13_FULL') == '1' and tier == 'thorough' and decoder == 'gen_floats'
    chunks = []
    bf = np.array(ibm.boundary_fractions(), dtype=np.uint32)
    nweyl = 512 if tier == 'quick' else 1 << 14
    wf = weyl_fractions(nweyl, offset=seed * 1000003)
    per_top = np.unique(np.concatenate([bf, wf]))
    if full:
        for top in range(256):
            for lo in range(0, 1 << 24, CHUNK):
                chunks.append(('range', top, lo, lo + CHUNK))
        return 'all 2^32 words', chunks
    if tier == 'quick':
        ranges = {top: [(0, 1 << 15), ((1 << 20) - (1 << 14), (1 << 20) + (1 << 14)), ((1 << 24) - (1 << 15), 1 << 24)]
                  for top in QUICK_TOPS}
        desc = ('all 256 (sign, characteristic) bytes x (%d boundary fractions + %d Weyl fractions); fractions 0..2^15, '
                '2^20 +- 2^14, 2^24-2^15..2^24 for top bytes %s' % (len(bf), nweyl, ['%02x' % t for t in QUICK_TOPS]))
    else:
        ranges = {top: [(lo, lo + CHUNK) for lo in range(0, 1 << 24, CHUNK)] for top in THOROUGH_TOPS}
        desc = ('all 256 (sign, characteristic) bytes x (%d boundary fractions + %d Weyl fractions); all 2^24 fractions '
                'for top bytes %s' % (len(bf), nweyl, ['%02x' % t for t in THOROUGH_TOPS]))
    # every word once: fractions of the per-top sample that fall into a complete range of that top byte are left out
    parts_ = []
    for top in range(256):
        fr = per_top
        for lo, hi in ranges.get(top, []):
            fr = fr[(fr < lo) | (fr >= hi)]
        parts_.append(fr | np.uint32(top << 24))
    allw = np.concatenate(parts_)
    for i in range(0, len(allw), CHUNK):
        chunks.append(('array', allw[i:i + CHUNK]))
    for top in sorted(ranges):
        for lo, hi in ranges[top]:
            chunks.append(('range', top, lo, hi))
    return desc, chunks


def chunk_words(chunk) -> np.ndarray:
    if chunk[0] == 'array':
        return chunk[1]
    _k, top, lo, hi = chunk
    return np.arange(lo, hi, dtype=np.uint32) | np.uint32(top << 24)


def bulk_decode(name, words: np.ndarray) -> np.ndarray:
    """All words of a chunk through one scalar decoder of the code under test."""
    ReadBIT, pRepCode, File = _mods()
    n = len(words)
    buf = ibm.words_to_bytes(words)
    if name == 'gen_floats':
        return np.fromiter(ReadBIT.gen_floats(buf), dtype=np.float64, count=n)
    if name == 'bytes_to_float':
        f = ReadBIT.bytes_to_float
        return np.fromiter((f(buf[i:i + 4]) for i in range(0, 4 * n, 4)), dtype=np.float64, count=n)
    ld = File.LogicalData(buf)
    f = pRepCode.ISINGL
    out = np.fromiter((f(ld) for _ in range(n)), dtype=np.float64, count=n)
    if ld.index != 4 * n:
        raise ValueError('ISINGL consumed %d bytes for %d words' % (ld.index, n))
    return out


MAX_INDIVIDUAL = 120   # failing words per shard and decoder that are evaluated (and bucketed) one by one
MAX_KNOWN_FORM = 2


def run_words(ctx, part, tier, shard, nshards):
    ibm.self_check()
    notes = {}
    for name, _oracle in DECODERS:
        desc, chunks = word_strata(tier, name, ctx.seed)
        swept = failing = known_form = known_done = individually = 0
        for idx, chunk in enumerate(chunks):
            if idx % nshards != shard:
                continue
            words = chunk_words(chunk)
            ref = ibm.ibm_to_float64(words)
            try:
                got = bulk_decode(name, words)
            except Exception:  # noqa - find the culprit(s) one by one
                for w in words[:40].tolist():
                    ctx.eval_case(part, {'word': w, 'decoder': name})
                notes['sweep_chunk_exceptions_' + name] = notes.get('sweep_chunk_exceptions_' + name, 0) + 1
                continue
            bad = got != ref        # no NaN can come out of the reference; a NaN from the decoder compares unequal
            nbad = int(bad.sum())
            done = 0
            if nbad:
                bw = words[bad]
                bg = got[bad]
                kf = bg == ffffff_form_vec(bw)
                failing += nbad
                known_form += int(kf.sum())
                for w in bw[kf][:MAX_KNOWN_FORM - known_done].tolist():
                    ctx.eval_case(part, {'word': w, 'decoder': name})
                    known_done += 1
                    done += 1
                for w in bw[~kf].tolist():
                    if individually >= MAX_INDIVIDUAL:
                        break
                    ctx.eval_case(part, {'word': w, 'decoder': name})
                    individually += 1
                    done += 1
            swept += len(words)
            nz = int(((words & np.uint32(0xFFFFFF)) != 0).sum())
            ctx.bulk(part, len(words) - done, max(0, nz - done), 'sweep-words')
        notes['sweep_%s_words' % name] = swept
        notes['sweep_%s_failing' % name] = failing
        notes['sweep_%s_failing_ffffff_form' % name] = known_form
        notes['sweep_%s_failing_other_form_counted_only' % name] = failing - known_form - individually
        if shard == 0:
            ctx.note('sweep_%s_domain' % name, desc)
    for k, v in notes.items():
        ctx.note(k, v)
    if shard == 0:
        for w in (0x42990000, 0xC276A000, 0x3D68DB8B, 0x00000001, 0x7FFFFFFF, 0x800ABCDE, 0x4100FFFF):
            ctx.eval_case(part, {'word': w})


# --------------------------------------------------------------------------------------------
# Files
# --------------------------------------------------------------------------------------------
def x_axis_devs(xs, start_w, stop_w, spacing_w):
    """xs: list of floats.  Returns list of (signature, detail)."""
    start, stop, sp = ibm.ibm_fraction(start_w), ibm.ibm_fraction(stop_w), ibm.ibm_fraction(spacing_w)
    dirn = 1 if stop > start else -1
    eps = Fraction(1, 1 << 52)
    for k, x in enumerate(xs):
        if x != x or x in (float('inf'), float('-inf')):
            return [('x-not-finite', 'x[%d] = %r' % (k, x))]
        want = start + dirn * k * sp
        tol = k * eps * (abs(start) + k * sp)
        if abs(Fraction(x) - want) > tol:
            if k == 0:
                return [('x-start', 'x[0] = %r, header start is %r' % (x, float(start)))]
            mirrored = start - dirn * k * sp
            if abs(Fraction(x) - mirrored) <= tol:
                return [('x-direction', 'x[%d] = %r moves away from stop: start %r stop %r spacing %r' % (
                    k, x, float(start), float(stop), float(sp)))]
            return [('x-step', 'x[%d] = %r, expected %r = start %r %s %d * spacing %r (tolerance %.3g)' % (
                k, x, float(want), float(start), '+' if dirn > 0 else '-', k, float(sp), float(tol)))]
    return []


def check_model(model, data, cc, fobj=None):
    """data = bytes of the file.  All file oracles."""
    ReadBIT, pRepCode, File = _mods()
    passes = model['passes']
    try:
        got = ReadBIT.create_bit_frame_array_from_file(io.BytesIO(data) if fobj is None else fobj)
    except Exception as err:  # noqa
        cc.unexpected(err)
        return
    if len(got) != len(passes):
        cc.dev('one-frame-array-per-pass', 'pass-count', 'file of %d passes read as %d' % (len(passes), len(got)))
        return
    seen_words = []
    for i, (p, g) in enumerate(zip(passes, got)):
        where = 'pass %d (%d channels, blocks %r)' % (i, len(p['channels']), p['block_frames'][:12])
        frames = bit.pass_frames(p)
        names = list(p['channels'])
        # -- structure ------------------------------------------------------------------------
        if list(g.channel_names) != names:
            cc.dev('channel-names==header', 'names', '%s: names %r expected %r' % (where, g.channel_names, names))
            continue
        fa = g.frame_array
        if fa is None:
            cc.dev('one-frame-array-per-pass', 'no-frame-array', '%s: frame_array is None' % where)
            continue
        idents = [c.ident for c in fa.channels]
        if len(idents) != len(names) + 1 or idents[1:] != names:
            cc.dev('channel-names==header', 'frame-array-channels', '%s: frame array channels %r, expected an X axis + %r' % (
                where, idents, names))
            continue
        if g.frame_count != frames:
            cc.dev('frame-count==values-per-channel', 'frame_count', '%s: frame_count %r, %d values recorded per channel' % (
                where, g.frame_count, frames))
        shapes = [tuple(c.array.shape) for c in fa.channels]
        if any(s != (frames, 1) for s in shapes[1:]):
            cc.dev('frame-count==values-per-channel', 'channel-length', '%s: channel array shapes %r, expected (%d, 1)' % (
                where, shapes[1:][:6], frames))
            continue
        if shapes[0] != (frames, 1):
            cc.dev('frame-count==values-per-channel', 'x-length', '%s: X axis shape %r, expected (%d, 1)' % (
                where, shapes[0], frames))
        # -- values ---------------------------------------------------------------------------
        sigs = {}
        for c, (words, ch) in enumerate(zip(p['data'], fa.channels[1:])):
            w = np.array(words, dtype=np.uint32)
            obs = np.asarray(ch.array, dtype=np.float64)[:, 0] if frames else np.zeros(0)
            ref = ibm.ibm_to_float64(w) if frames else np.zeros(0)
            bad = np.nonzero(obs != ref)[0]
            if not len(bad):
                continue
            if bool(np.all(obs[bad] == ffffff_form_vec(w[bad]))):
                sig = SIG_FFFFFF
            else:
                sig = None
                for k in bad.tolist():
                    s1 = value_signature(words[k], obs[k])
                    if s1 != SIG_FFFFFF:
                        sig = s1
                        break
                sig = sig or 'wrong-value'
                # misplaced rather than mis-decoded?  (same multiset of values in the pass, under either decoding)
                allw = np.array([x for d in p['data'] for x in d], dtype=np.uint32)
                allobs = np.sort(np.concatenate([np.asarray(cx.array, dtype=np.float64)[:, 0] for cx in fa.channels[1:]]))
                if bool(np.array_equal(allobs, np.sort(ibm.ibm_to_float64(allw)))) or \
                        bool(np.array_equal(allobs, np.sort(ffffff_form_vec(allw)))):
                    sig = 'values-misplaced'
            k = int(bad[0])
            sigs.setdefault(sig, '%s: channel %d %r frame %d word %08x read as %r, IBM single value is %r (%d of %d values differ)' % (
                where, c, names[c], k, words[k], float(obs[k]), float(ref[k]), len(bad), frames))
        for sig, detail in sigs.items():
            cc.dev(O_VALUE, sig, detail)
        # -- header floats --------------------------------------------------------------------
        rng = tuple(g.bit_log_pass_range)
        want = [ibm.ibm_float(w) for w in p['range_words']]
        if len(rng) != 5 or any(a != b for a, b in zip(rng, want)):
            cc.dev('header-range==ibm-reference', 'range-wrong', '%s: header floats %r, words %s denote %r' % (
                where, rng, ['%08x' % w for w in p['range_words']], want))
        # -- X axis ---------------------------------------------------------------------------
        if shapes[0][0] and len(shapes[0]) == 2:
            xs = np.asarray(fa.channels[0].array, dtype=np.float64)[:max(frames, 1), 0].tolist()
            for sig, detail in x_axis_devs(xs, *p['range_words'][:3]):
                cc.dev('x-axis==start+-k*spacing', sig, '%s: %s' % (where, detail))
        seen_words.extend(p['range_words'])
        for d in p['data']:
            seen_words.extend(d[:2])
    # -- the three decoders give the same number for the bytes of this file ---------------------
    for w in list(dict.fromkeys(seen_words))[:24]:
        for name, oracle in DECODERS[1:]:
            try:
                kind, v = decode_one(name, w)
            except Exception as err:  # noqa
                cc.unexpected(err, oracle)
                continue
            sig = value_signature(w, v) if kind == 'value' else 'decoder-%s' % kind
            if sig:
                cc.dev(oracle, sig, '%s(%08x) = %r, IBM single value is %r' % (name, w, v, ibm.ibm_float(w)))


def classify_model(model, cc):
    passes = model['passes']
    nt = False
    cc.cls('passes==1', len(passes) == 1)
    cc.cls('passes>=2', len(passes) >= 2)
    cc.cls('ending-' + model.get('ending', 'standard'))
    for p in passes:
        bf = p['block_frames']
        n = len(p['channels'])
        frames = sum(bf)
        differ = len(set(bf)) >= 2
        nt = nt or (n >= 2 and differ)
        cc.cls('channels==1', n == 1)
        cc.cls('channels==20', n == 20)
        cc.cls('channels-2..19', 2 <= n <= 19)
        cc.cls('blocks-differ', differ)
        cc.cls('short-last-block', len(bf) >= 2 and bf[-1] < bf[0] and len(set(bf[:-1])) == 1)
        cc.cls('single-block', len(bf) == 1)
        cc.cls('one-frame-blocks', len(bf) >= 2 and set(bf) == {1})
        cc.cls('blocks>=10', len(bf) >= 10)
        cc.cls('block-bytes>=4096', any(4 * n * f >= 4096 for f in bf))
        cc.cls('zero-frames-pass', frames == 0)
        cc.cls('frames>=100', frames >= 100)
        start, stop = ibm.ibm_fraction(p['range_words'][0]), ibm.ibm_fraction(p['range_words'][1])
        cc.cls('up-log', stop < start)      # depth decreasing: logging up the hole
        cc.cls('down-log', stop > start)
        cc.cls('channel-with-blank-name', any(str(c).strip() == '' for c in p['channels']))
        cc.cls('header-spacing-zero', p['range_words'][2] & 0xFFFFFF == 0)
        cc.cls('header-frames!=recorded', frames_from_header(p) != frames)
        ws = [w for d in p['data'] for w in d]
        cc.cls('word-zero-fraction', any(w & 0xFFFFFF == 0 for w in ws))
        cc.cls('word-unnormalised', any(0 < (w & 0xFFFFFF) < 0x100000 for w in ws))
        cc.cls('word-negative', any(w >> 31 and w & 0xFFFFFF for w in ws))
        cc.cls('word-extreme-characteristic', any(((w >> 24) & 0x7F) in (0, 127) and w & 0xFFFFFF for w in ws))
        cc.cls('null-field-nonzero', p['null'] != 0)
    cc.nt(nt)
    cc.cls('file-nontrivial', nt)


def frames_from_header(p):
    a, b, s = (ibm.ibm_fraction(w) for w in p['range_words'][:3])
    return 1 + int(Fraction(1, 2) + abs(a - b) / abs(s)) if s else None


def check_file(case, cc):
    model = case
    try:
        data = bit.encode_bit_file(model)
    except bit.BitModelError as err:
        raise HarnessError('generator produced an un-encodable model: %s' % err)
    classify_model(model, cc)
    cc.sample(bit.model_summary(model))
    check_model(model, data, cc)


def handle_histories():
    return st.builds(lambda m, ops: {'model': m, 'ops': ops},
                     bit.bit_models(max_passes=2, max_channels=3, max_frames=8, min_frames=1, endings=('standard',)),
                     st.lists(st.sampled_from(['identify', 'read']), min_size=2, max_size=4))


def check_handle_history(case, cc):
    """The library's own calls on ONE open file object: is_bit_file() (what the batch tools call first) and the reader, in
    any order and repeatedly.  Every read must give the model (all file oracles)."""
    ReadBIT, _p, _f = _mods()
    model, ops = case['model'], case['ops']
    try:
        data = bit.encode_bit_file(model)
    except bit.BitModelError as err:
        raise HarnessError('generator produced an un-encodable model: %s' % err)
    cc.nt('read' in ops[1:])
    cc.cls('handle-history:read-after-identify', any(a == 'identify' and b == 'read' for a, b in zip(ops, ops[1:])))
    cc.cls('handle-history:read-twice', ops.count('read') >= 2)
    fobj = io.BytesIO(data)
    for op in ops:
        if op == 'identify':
            try:
                ReadBIT.is_bit_file(fobj)     # the answer is C20's subject
            except Exception as err:  # noqa
                cc.unexpected(err)
                return
        else:
            check_model(model, data, cc, fobj)


def big_block_files():
    """A data block of 64 KiB and more (4 * channels * frames >= 65536 bytes): the frames of a small generated pass are
    repeated when the case is checked, and written as one block, or as one big block followed by a small one."""
    return st.builds(lambda m, extra, split: {'model': m, 'extra': extra, 'split': split},
                     bit.bit_models(max_passes=2, max_channels=4, max_frames=24, min_frames=4, endings=('standard',)),
                     st.sampled_from([-8, 0, 4, 400, 4000]), st.booleans())


def check_big_block(case, cc):
    model = case['model']
    p = dict(model['passes'][0])
    n, f = len(p['channels']), len(p['data'][0])
    want = (65536 + case['extra']) // (4 * n) + 1          # frames so that one block holds about 64 KiB + extra
    k = -(-want // f)
    p['data'] = [(list(c) * k)[:want] for c in p['data']]
    tail = 3 if case['split'] and want > 3 else 0
    p['block_frames'] = [want - tail] + ([tail] if tail else [])
    model = dict(model, passes=[p] + list(model['passes'][1:]))
    try:
        data = bit.encode_bit_file(model)
    except bit.BitModelError as err:
        raise HarnessError('generator produced an un-encodable model: %s' % err)
    cc.nt(True)
    cc.cls('data-block>=65536-bytes', 4 * n * (want - tail) >= 65536)
    cc.cls('data-block-just-below-65536-bytes', 4 * n * (want - tail) < 65536)
    check_model(model, data, cc)


def check_bundled(case, cc):
    path = os.path.join(REPO, case['path'])
    with open(path, 'rb') as f:
        data = f.read()
    try:
        model = bit.decode_bit_file(data)
        if bit.encode_bit_file(model) != data:
            raise bit.BitModelError('re-encoding differs')
    except bit.BitModelError as err:
        raise HarnessError('independent decoder cannot read the bundled file: %s' % err)
    cc.cls('bundled-file')
    classify_model(model, cc)
    cc.nt(True)
    cc.sample({'path': case['path'], 'model': bit.model_summary(model)})
    check_model(model, data, cc)


def run_bundled(ctx, part, tier, shard, nshards):
    if shard != 0:
        return
    bit.self_check(os.path.join(REPO, EXAMPLE))
    ctx.eval_case(part, {'path': EXAMPLE})


# Small files first: tiny models make small replay files and reach the block arithmetic edge cases densely.
def small_files():
    return bit.bit_models(max_passes=3, max_channels=4, max_frames=12, min_frames=0, endings=('standard',))


def general_files():
    return st.one_of(
        bit.bit_models(),
        bit.bit_models(),
        bit.bit_models(min_frames=0, max_frames=40),
        bit.bit_models(max_passes=4, endings=('standard', 'single', 'none')),
    )


BUFFERS = st.builds(lambda ws: {'words': ws}, st.one_of(
    st.lists(st.integers(0, ibm.WORD_MAX), max_size=6),
    st.integers(0, 40).flatmap(lambda n: bit.ibm_word_lists(n))))
WORDS = st.builds(lambda w: {'word': w}, st.one_of(
    st.integers(0, ibm.WORD_MAX), st.sampled_from(ibm.boundary_words()), bit.REALISTIC))


def parts(tier):
    return [
        EnumPart('bundled-file', run_bundled, check_bundled),
        EnumPart('words', run_words, check_word),
        HypPart('word-draws', WORDS, check_word, 2000, 40000),
        HypPart('buffers', BUFFERS, check_buffer, 800, 8000),
        HypPart('files-small', small_files(), check_file, 1600, 16000),
        HypPart('files', general_files(), check_file, 2000, 12800),
        HypPart('handle-history', handle_histories(), check_handle_history, 600, 6000),
        HypPart('files-big-block', big_block_files(), check_big_block, 12, 160),
    ]


def exhaustive_note(tier, total):
    return {'exhaustive': False,
            'exhaustive_subdomains': [v for k, v in sorted(total.notes.items()) if k.startswith('sweep_') and k.endswith('_domain')]}


RULE += '  Added after the seeding rounds: part handle-history (is_bit_file and the reader on one open file object, any order); arbitrary / foreign-magic values in the four unknown head bytes.'
