"""C02 - DLIS index gives random access identical to the sequential read.

Rule based state machine over one LogicalRecordIndex: whole fetches, offset/length fetches (biased to ranges that
straddle segment and visible record boundaries), fetches by position, re-indexing; the oracle is the modelled
payload (and the sequential read of the same file), the model's positions, and a byte-touch monitor.
"""
import io

from hypothesis import strategies as st
from hypothesis.stateful import initialize, rule

from vt import engine
from vt.engine import HistoryMachine, MachinePart
from vt.gen import dlis as G
from vt.props import c01

PID = 'C02'
LEVEL = 'exploration'
TECHNIQUE = 'model-based testing: Hypothesis rule based state machine, fetch histories against the modelled payloads and a byte-touch monitor'
LEVEL_TEXT = ('generated files (as C01) x histories of up to 40 index fetches (whole / offset+length / by position / re-index) in '
              'any order; every fetch compared with the slice of the modelled payload and of the sequential read; every read '
              'issued by a fetch must lie inside the visible records that hold the record')
RULE = ('file: 3..10 records with the C01 layout strategy; history: up to 40 operations fetch_whole(i), fetch_slice(i, offset, '
        'length) with offset 0..len+3 and length -1 or 0..len+3 biased to segment boundaries +-1, fetch_at_position, reindex.  '
        'Non-trivial history: contains a slice fetch whose range covers bytes of >= 2 segments AND a fetch of a lower index '
        'after a higher one.  Distinct = distinct (file, history).')
ASSUMPTIONS = c01.ASSUMPTIONS + ['ld_length of an index entry is not compared (not listed by the property; documented as including padding)',
                                  'a fetch may read the headers of every segment of the record up to its last one (all inside the visible records that hold the record)']
SHARDS = {'quick': 4, 'thorough': 16}
REQUIRED_CLASSES = {'slice-covers>=2-segments': 1, 'slice-covers>=2-visible-records': 1, 'fetch-lower-after-higher': 1,
                    'reindex': 1, 'slice-beyond-end': 1}


class Monitor(io.BytesIO):
    """BytesIO that logs every read as (position, bytes requested, bytes delivered)."""

    def __init__(self, data):
        super().__init__(data)
        self.log = None

    def read(self, n=-1):
        pos = self.tell()
        out = super().read(n)
        if self.log is not None:
            self.log.append((pos, n, len(out)))
        return out


class IndexState:
    def __init__(self, init, cc):
        from TotalDepth.RP66V1.core import File, Index
        self.File = File
        data, model = G.build(init)
        self.data = data
        self.model = model
        self.case = init
        self.payloads = [G.expected_payload(r, l) for r, l in zip(init['records'], init['layouts'])]
        # byte offsets in the *delivered* payload at which segments end
        self.bounds = []
        for r, l in zip(init['records'], init['layouts']):
            acc, b = 0, []
            for s in l:
                acc += s['n'] + (s['pad'] if r['encrypted'] else 0)
                b.append(acc)
            self.bounds.append(b)
        c01.classify(cc, init, model)
        cc.sample(c01.summary(init, model))
        try:
            _sul, seq = c01.read_sequential(File, data)
        except c01.RecordsChanged:
            cc.dev('sequential==model', 'sequential-read-differs', 'C01 oracle fails on this file (records change after the pass)')
            _sul, seq = None, []
        self.sequential = [x[2] for x in seq]
        if self.sequential != self.payloads:
            cc.dev('sequential==model', 'sequential-read-differs', 'C01 oracle fails on this file')
        self.mon = Monitor(data)
        self.mon.seek(engine.handle(data).tell())   # the handle is where its previous user left it
        self.index = Index.LogicalRecordIndex(self.mon)
        self.index._enter()
        self.entered = True
        self.last_i = -1
        self.max_i = -1
        self.seen_multi = False
        self.seen_lower = False
        self.check_index(cc)

    def check_index(self, cc):
        recs, m = self.case['records'], self.model['records']
        if len(self.index) != len(recs):
            cc.dev('index-entries', 'entry-count', 'index has %d entries, file has %d records' % (len(self.index), len(recs)))
            return
        for k in range(len(recs)):
            e = self.index[k]
            got = (e.position.vr_position, e.position.lrsh_position, e.description.lr_type,
                   bool(e.description.attributes.is_eflr), bool(e.description.attributes.is_encrypted))
            exp = (m[k]['vr_pos'], m[k]['lrsh_pos'], recs[k]['type'], recs[k]['eflr'], recs[k]['encrypted'])
            if got != exp:
                sig = 'entry-position' if got[:2] != exp[:2] else 'entry-type-or-kind'
                cc.dev('index-entries', sig, 'entry %d: (vr, lrsh, type, eflr, encrypted) = %r, model %r' % (k, got, exp))

    def close(self):
        try:
            if self.entered:
                self.index._exit()
        except Exception:  # noqa
            pass


def start(init, cc):
    return IndexState(init, cc)


def step(s, op, cc):
    n_rec = len(s.payloads)
    kind = op['op']
    if kind == 'reindex':
        s.index._exit()
        s.index._enter()
        s.check_index(cc)
        cc.cls('reindex')
        return
    if len(s.index) != n_rec:
        return
    i = op['i'] % n_rec
    payload = s.payloads[i]
    if kind == 'whole':
        offset, length = 0, -1
    else:
        offset, length = op['offset'], op['length']
    exp = payload[offset:] if length < 0 else payload[offset:offset + length]
    s.mon.log = []
    try:
        if kind == 'at_position':
            fld = s.index.get_file_logical_data_at_position(s.index[i].position, offset, length)
        elif kind == 'whole' and op.get('default_args'):
            fld = s.index.get_file_logical_data(i)
        else:
            fld = s.index.get_file_logical_data(i, offset, length)
    finally:
        log, s.mon.log = s.mon.log, None
    got = bytes(fld.logical_data.bytes)
    # ... and read the way the decoders read a fetched record: through the read cursor of the LogicalData object
    ld = fld.logical_data
    fresh = (ld.remain, len(ld))
    through_cursor = bytes(ld.chunk(ld.remain)) if ld.remain else b''
    req = (i, offset, length)
    cc.cls('same-request-twice-in-a-row', getattr(s, 'last_req', None) == req)
    s.last_req = req
    lo, hi = offset, (len(payload) if length < 0 else min(len(payload), offset + length))
    segs_covered = 0
    prev = 0
    for b in s.bounds[i]:
        if lo < b and hi > prev and hi > lo:
            segs_covered += 1
        prev = b
    multi_seg = segs_covered >= 2
    cc.cls('slice-covers>=2-segments', kind != 'whole' and multi_seg)
    cc.cls('slice-covers>=2-visible-records', kind != 'whole' and multi_seg and len(s.model['records'][i]['vrs']) >= 2)
    cc.cls('slice-beyond-end', kind != 'whole' and (offset > len(payload) or (length >= 0 and offset + length > len(payload))))
    cc.cls('slice-zero-length', kind != 'whole' and length == 0)
    cc.cls('fetch-whole', kind == 'whole')
    cc.cls('fetch-at-position', kind == 'at_position')
    if i < s.max_i:
        s.seen_lower = True
        cc.cls('fetch-lower-after-higher')
    s.max_i = max(s.max_i, i)
    if kind != 'whole' and multi_seg:
        s.seen_multi = True
    if s.seen_lower and s.seen_multi:
        cc.nt(True)
    if got == exp and (fresh != (len(exp), len(exp)) or through_cursor != exp):
        cc.dev('fetch==sequential-payload', 'fetched-record-not-readable-from-its-start',
               'fetch %r of record %d: the LogicalData handed over has %d of %d bytes left to read; reading it gives %d bytes, expected %d' % (
                   (offset, length), i, fresh[0], fresh[1], len(through_cursor), len(exp)))
        return
    if got != exp:
        if kind == 'whole':
            sig = 'whole-fetch-differs'
        else:
            sig = 'slice-spanning-segments' if multi_seg else 'slice-within-one-segment'
            if len(got) > len(exp):
                sig += ':too-many-bytes'
            elif len(got) < len(exp):
                sig += ':too-few-bytes'
            else:
                sig += ':wrong-bytes'
        cc.dev('fetch==slice-of-sequential', sig, 'record %d (len %d, segment ends %r) offset=%d length=%d: got %d bytes %s..., expected %d bytes %s...' % (
            i, len(payload), s.bounds[i][:8], offset, length, len(got), got[:10].hex(), len(exp), exp[:10].hex()))
    if (fld.lr_type, bool(fld.lr_is_eflr), bool(fld.lr_is_encrypted)) != (s.case['records'][i]['type'], s.case['records'][i]['eflr'], s.case['records'][i]['encrypted']):
        cc.dev('fetch-describes-record', 'fetched-type-or-kind', 'record %d' % i)
    # byte-touch monitor
    spans = s.model['records'][i]['vrs']
    for (pos, n, delivered) in log:
        end = pos + (n if n is not None and n >= 0 else delivered)
        if n == 0:
            continue
        if not any(vp <= pos and end <= vp + vl for vp, vl in spans):
            cc.dev('fetch-touches-only-own-visible-records', 'read-outside-visible-records',
                   'record %d lives in visible records %r; fetch(offset=%d,length=%d) read %d bytes at %d' % (i, spans[:6], offset, length, n, pos))
            break


def _slice_args(draw, s, i):
    n = len(s.payloads[i])
    bounds = s.bounds[i]
    mode = draw(st.integers(0, 4))
    if mode == 0 or not bounds or n == 0:
        offset = draw(st.integers(0, n + 3))
        length = draw(st.one_of(st.just(-1), st.integers(0, n + 3)))
    elif mode == 1:  # start just before a segment end, run past it
        b = draw(st.sampled_from(bounds))
        offset = max(0, b - draw(st.integers(0, 3)))
        length = draw(st.one_of(st.integers(1, 8), st.integers(0, n + 3), st.just(-1)))
    elif mode == 2:  # from one boundary neighbourhood to another
        a = draw(st.sampled_from([0] + bounds))
        b = draw(st.sampled_from(bounds))
        lo, hi = min(a, b), max(a, b)
        offset = max(0, lo + draw(st.integers(-1, 1)))
        length = max(0, hi - offset + draw(st.integers(-1, 1)))
    elif mode == 3:  # offset inside a later segment
        offset = draw(st.integers(0, n))
        length = draw(st.integers(0, 6))
    else:
        offset = 0
        length = draw(st.integers(0, n + 3))
    return offset, length


class IndexMachine(HistoryMachine):
    START = staticmethod(start)
    STEP = staticmethod(step)

    @initialize(init=G.physical_files(min_records=3, max_records=8, max_payload=1500))
    def init(self, init):
        self.begin(init)

    @rule(i=st.integers(0, 9), default_args=st.booleans())
    def fetch_whole(self, i, default_args):
        self.op({'op': 'whole', 'i': i, 'default_args': default_args})

    @rule(i=st.integers(0, 9), data=st.data(), at_position=st.booleans())
    def fetch_slice(self, i, data, at_position):
        s = self.state
        if s is None or self.dead:
            return
        k = i % len(s.payloads)
        offset, length = _slice_args(data.draw, s, k)
        self.op({'op': 'at_position' if at_position else 'slice', 'i': k, 'offset': offset, 'length': length})

    @rule()
    def reindex(self):
        self.op({'op': 'reindex'})


def parts(tier):
    return [MachinePart('fetch-history', IndexMachine, engine.replay_machine_case(start, step), 1600, 24000, steps=40)]


RULE += '  Added after the seeding rounds: every fetched record is also read through the cursor of its LogicalData (as the decoders do); identical consecutive requests; the generator additions of C01; the index is built from a handle positioned anywhere.'
