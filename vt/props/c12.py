"""C12 - batch conversion isolates bad files and is independent of job scheduling.

A directory of 2..8 files is generated for one of the three converters: small valid files of the converter's format (the generators
of C11), the same files damaged (vt.gen.damage: truncation, bit flips, header fields overwritten, runs zeroed / inserted / deleted,
another format spliced in front), empty files and foreign files (valid files of the other formats, LAS and DAT text, random bytes),
named so that the alphabetical walk of the sequential converter and the size ordered walk of the multiprocessing converter differ.
The directory is converted (a) file by file on its own, (b) by WriteLAS.convert_dir_or_file_to_las, (c) by
WriteLAS.convert_dir_or_file_to_las_multiprocessing with several worker counts out of {1, 2, 3, 4, 8, 16}, each into its own output
directory.

Oracles
  no-exception-escapes        neither a single file conversion nor a directory conversion raises
  one-result-per-input        the result dictionaries of (b) and (c) have exactly the input paths as keys
  valid-file-converted        every undamaged file of the converter's format has a result that is neither exception nor ignored,
                              in every mode (the cause of a failure, taken from the converter's log of the solo run, is the signature)
  bad-file-failed-or-ignored  empty files and valid files of another format are reported ignored or failed
  output-tree-equal           file names and contents (the CREA. creation time line of ~V removed) of (b), of every (c) and of the
                              union of (a) are identical; the outputs of each valid file equal its solo outputs
  result-equal-across-modes   the result tuple of every file (type, sizes, count, exception, ignored; not the time) is the same in every mode
  terminates                  a conversion that has not returned after 120 s
"""
import logging
import multiprocessing
import os
import signal
import tempfile

from hypothesis import strategies as st

from vt import engine
from vt.engine import HarnessError, HypPart
from vt import fresh
from vt.gen import bit as GB
from vt.gen import damage as DMG
from vt.gen import dat as GD
from vt.gen import dlis_tolas as GT
from vt.gen import las as GA
from vt.gen import lis as GL
from vt.props import c11

PID = 'C12'
LEVEL = 'exploration'
NEEDS_LIS_EXT = True
TECHNIQUE = ('property-based testing with fault injection (Hypothesis): generated directories of valid, damaged and foreign files, differential '
             'between per-file, sequential and multiprocessing conversion over worker counts 1..16')
LEVEL_TEXT = ('generated directories converted file by file, sequentially and by 1..16 worker processes; result dictionaries and output '
              'trees compared; schedules are explored only through worker count and task order (names versus sizes), see DESIGN section 5')
RULE = ('directory of 2..8 files for one converter (RP66V1, LIS, BIT): 1..3 valid files of its format (RP66V1: 1..2 logical files of 1..2 '
        'frame types; LIS 1..2 log passes; BIT 1..2 passes; <= 8 frames), each possibly accompanied by 1..2 damaged copies (one damage '
        'operator: truncate anywhere, cut the tail, flip 1..8 bits, overwrite a header field, zero / insert / delete a run, splice another '
        'format in front, replace by random bytes, empty), empty files, foreign files (valid files of the two other binary formats, LAS, '
        'DAT, random bytes); names from a pool with mixed case, common stems and different extensions, assigned so that name order differs '
        'from size order in most cases; frame selection all frames; channel request '
        'empty or plain channel names of the valid files; worker counts: two drawn from {1, 2, 3, 4, 8, 16} (thorough: all six).  Non-trivial: a valid file and a damaged '
        'copy of a file of the same format in one directory, the damaged one before a valid one in at least one of the two walk orders, and '
        'jobs > 1.  Distinct = distinct case.')
ASSUMPTIONS = [
    'frame selection is all frames (Slice()): the selection defects of C11 (Slice.last) would otherwise fail valid files for reasons that are not about batching',
    'the verdict of a damaged file is not constrained (failed, ignored, or converted as far as it can be read): only that it is a result, the same in every mode',
    'files of random bytes are not constrained either; a foreign file is a *valid* file of another format',
    'a LIS file with TIF markers whose first record is 276 bytes long shares the BIT signature (C20 assumption) and is not generated as a foreign file',
    'the multiprocessing function never closes its Pool: the harness terminates the leaked worker processes after every call',
    'worker scheduling itself is not controlled (DESIGN section 5): the differential is over outcomes for worker counts and task orders',
    'known defects of C11 are matched by their own signatures: every valid LIS file fails (C11-lis-null-value)',
]
SHARDS = {'quick': 4, 'thorough': 6}     # each case starts pools of up to 16 workers: more shards only oversubscribe the machine
REQUIRED_CLASSES = {'sub-directories:two-levels-down-recursive': 1, 'input-is-a-symbolic-link': 1, 'directories-given-as-relative-paths': 1, 'name-begins-with-the-whole-name-of-a-bad-file': 1, 'dot-name': 1, 'nontrivial': 1, 'jobs>1': 1, 'foreign-file': 1, 'damaged-sorts-first:names': 1, 'damaged-sorts-first:sizes': 1, 'empty-file': 1,
                    'converter:RP66V1': 1, 'converter:LIS': 1, 'converter:BIT': 1, 'orders-differ': 1}

O_ESCAPE = 'no-exception-escapes'
O_KEYS = 'one-result-per-input'
O_VALID = 'valid-file-converted'
O_BAD = 'bad-file-failed-or-ignored'
O_TREE = 'output-tree-equal'
O_RESULT = 'result-equal-across-modes'
O_TERM = 'terminates'
JOBS = (1, 2, 3, 4, 8, 16)
EXT = {'RP66V1': ['.dlis', '.DLIS', '.dls', ''], 'LIS': ['.lis', '.LIS', '.tif', ''], 'BIT': ['.bit', '.BIT', '.dat', '']}
STEMS = ['a', 'B', 'well', 'WELL2', 'run1', 'z9', 'Log', 'a_0', 'b.x', '0', 'data', 'm']


class Timeout(Exception):
    pass


def _alarm(_sig, _frm):
    raise Timeout()


# ---------------------------------------------------------------------------------------------------------
# Files
# ---------------------------------------------------------------------------------------------------------
def small_sources(fmt, plant=()):
    if fmt == 'RP66V1':
        return GT.tolas_files(max_files=2, max_frame_types=2, max_channels=4, max_frames=6, plant=plant)
    if fmt == 'LIS':
        return GL.lis_files(max_passes=2, max_frames=8, allow_dipmeter=False)
    return GB.bit_models(max_passes=2, max_channels=4, max_frames=8, min_frames=1).map(c11._bit_plain_names)


def render(fmt, src):
    """bytes of a generated file of a binary format, LAS or DAT."""
    if fmt in c11.SOURCES:
        return c11.SOURCES[fmt](src)[0]
    if fmt == 'LAS':
        return GA.render_las(src['model'], src['layout']).encode('ascii')
    if fmt == 'DAT':
        return GD.render_dat(src).encode('ascii')
    raise HarnessError('unknown format %r' % fmt)


def lis_looks_like_bit(src):
    data, model = GL.build_lis_file(src)
    return src['cfg']['tif'] != 'none' and model['phys']['prs'][0][0][4] == 276


@st.composite
def foreign_files(draw, converter):
    others = [f for f in ('RP66V1', 'LIS', 'BIT', 'LAS', 'DAT', 'RANDOM', 'RANDOM') if f != converter]
    fmt = draw(st.sampled_from(others))
    if fmt == 'RANDOM':
        return {'kind': 'random', 'fmt': None, 'src': None, 'damage': None, 'raw': draw(st.one_of(st.binary(max_size=40), st.binary(max_size=600)))}
    if fmt == 'LAS':
        src = {'model': draw(GA.las_models(max_curves=3, max_frames=4, min_curves=2)), 'layout': draw(GA.layouts())}
    elif fmt == 'DAT':
        src = draw(GD.dat_models(max_channels=3, max_rows=3, min_rows=1))
    else:
        src = draw(small_sources(fmt))
        if fmt == 'LIS' and converter == 'BIT' and lis_looks_like_bit(src):
            return {'kind': 'random', 'fmt': None, 'src': None, 'damage': None, 'raw': b'not a log file\n'}
    return {'kind': 'foreign', 'fmt': fmt, 'src': src, 'damage': None, 'raw': None}


def file_bytes(f):
    if f['raw'] is not None:
        return bytes(f['raw'])
    data = render(f['fmt'], f['src'])
    if f['damage'] is not None:
        data = DMG.apply(f['damage'], data)
    return data


def rp66_index_names(src):
    _d, passes, _e = c11.rp66_passes(src)
    return sorted(set(p['names'][0].encode('ascii') for p in passes))


@st.composite
def directories(draw, converter, tier):
    files = []
    n_valid = draw(st.sampled_from([1, 1, 2, 2, 3]))
    plant = ()
    for k in range(n_valid):
        src = draw(small_sources(converter, plant if k and draw(st.booleans()) else ()))
        if converter == 'BIT' and k and draw(st.booleans()):
            # a second BIT file with the channels of the first one in another order (same names, same count, other positions)
            first = files[0]['src']['passes'][0]
            p0 = dict(src['passes'][0])
            n_ = len(first['channels'])
            if n_ >= 2 and len(p0['channels']) >= 1:
                rot = 1 + draw(st.integers(0, n_ - 2))
                p0['channels'] = list(first['channels'][rot:]) + list(first['channels'][:rot])
                p0['data'] = [list(p0['data'][i % len(p0['data'])]) for i in range(n_)]
                p0['filler'] = first['filler']
                src = dict(src, passes=[p0] + list(src['passes'][1:]), permuted_of_first=True)
        files.append({'kind': 'valid', 'fmt': converter, 'src': src, 'damage': None, 'raw': None})
        if converter == 'RP66V1' and not plant:
            plant = tuple(rp66_index_names(src))
        data = render(converter, src)
        for _ in range(draw(st.sampled_from([0, 1, 1, 1, 2]))):
            op, out = draw(DMG.damaged(data, converter, foreign=[b'~V\nVERS. 2.0 : x\n', b'\x00' * 8 + b'\x20\x01\x00\x00' + b' ' * 72]))
            files.append({'kind': 'damaged', 'fmt': converter, 'src': src, 'damage': op, 'raw': None})
    for _ in range(draw(st.integers(0, 2))):
        files.append(draw(foreign_files(converter)))
    if draw(st.integers(0, 2)) == 0:
        files.append({'kind': 'empty', 'fmt': None, 'src': None, 'damage': None, 'raw': b''})
    if len(files) < 2:
        files.append(draw(foreign_files(converter)))
    files = files[:8]
    # names: distinct, mixed case, common stems; assigned against the size order more often than not
    sizes = [len(file_bytes(f)) for f in files]
    names, stems = [], []
    start = draw(st.integers(0, len(STEMS) - 1))
    share = draw(st.integers(0, 7)) == 0          # one directory in eight: two inputs that differ in the extension only
    for i in range(len(files)):
        stem = STEMS[(start + i) % len(STEMS)]
        if share and i == 1:
            stem = stems[0]
        ext = draw(st.sampled_from(EXT[converter]))
        nm = stem + ext
        j = 0
        while nm in names:
            j += 1
            ext = EXT[converter][(EXT[converter].index(ext) + 1) % len(EXT[converter])] if share and i == 1 else ext
            nm = stem + ext if share and i == 1 and stem + ext not in names else '%s%d%s' % (stem, j, ext)
        stems.append(stem)
        names.append(nm)
    mode = draw(st.integers(0, 3))
    if mode <= 1:       # the biggest file gets the first name
        order = sorted(range(len(files)), key=lambda i: (-sizes[i], i))
        for rank, i in enumerate(order):
            files[i]['name'] = sorted(names)[rank]
    elif mode == 2:     # the smallest file gets the first name: both walks agree
        order = sorted(range(len(files)), key=lambda i: (sizes[i], i))
        for rank, i in enumerate(order):
            files[i]['name'] = sorted(names)[rank]
    else:
        for i, f in enumerate(files):
            f['name'] = names[i]
    # one input's whole name is the beginning of another's (RUN1 and RUN10, log.lis and log.lis.bak): their outputs share a prefix
    bad = [f for f in files if f['kind'] in ('damaged', 'foreign', 'empty')]
    good = [f for f in files if f['kind'] == 'valid']
    if bad and good and draw(st.integers(0, 2)) == 0:
        b_, g_ = bad[draw(st.integers(0, len(bad) - 1))], good[draw(st.integers(0, len(good) - 1))]
        nm = b_['name'] + draw(st.sampled_from(['0', '1', '_2', '.bak', 'x']))
        if nm not in [f['name'] for f in files]:
            g_['name'] = nm
            g_['prefixed_by'] = b_['name']
    # names that begin with a dot (editor and macOS droppings such as '._RUN1.dlis', hidden files) are files like any other
    if draw(st.integers(0, 3)) == 0:
        f = files[draw(st.integers(0, len(files) - 1))]
        f['name'] = draw(st.sampled_from(['.', '._'])) + f['name']
    # sub-directories (up to three levels down) in one directory out of three; the walk is then recursive three times out of four
    recurse = False
    if draw(st.integers(0, 2)) == 0:
        for f in files:
            f['dir'] = draw(st.sampled_from(['', '', 'sub', 'sub/deep', 'sub/deep/er', 'other', 'other/x', '.dot']))
        recurse = draw(st.integers(0, 3)) != 0
        for f in files:     # prefix-related names stay side by side
            if f.get('prefixed_by'):
                f['dir'] = next((q.get('dir', '') for q in files if q['name'] == f['prefixed_by']), f.get('dir', ''))
    jobs = list(JOBS) if tier == 'thorough' else sorted(draw(st.lists(st.sampled_from(JOBS), min_size=2, max_size=2, unique=True)))
    # channel request: empty, or plain channel names of the valid files (the index channels are never asked for)
    channels = []
    permuted = any(f['kind'] == 'valid' and f['src'].get('permuted_of_first') for f in files)
    if draw(st.integers(0, 2)) == 0 or (permuted and draw(st.booleans())):
        mask = draw(st.integers(1, 255))
        for f in files:
            if f['kind'] == 'valid':
                for p in c11.SOURCES[converter](f['src'])[1]:
                    raw = p.get('raw_names', p['names'])
                    for k, nm in enumerate(raw):
                        if k and (mask >> (k % 7)) & 1 and nm not in channels and nm.encode() not in plant:
                            channels.append(nm)
        if permuted and draw(st.booleans()):
            # some, not all, of the channels that the files have in common
            common = list(files[0]['src']['passes'][0]['channels'])
            if len(common) >= 2:
                channels = draw(st.lists(st.sampled_from(common), min_size=1, max_size=len(common) - 1, unique=True))
        if not channels:
            channels = ['NOSUCH']
    return {'converter': converter, 'files': files, 'jobs': jobs, 'channels': channels, 'recurse': recurse,
            'reduction': draw(st.sampled_from(('first', 'mean', 'max'))), 'width': draw(st.sampled_from((12, 16, 20))),
            'float_format': draw(st.sampled_from(('.3f', '.2f', '.6g')))}


# ---------------------------------------------------------------------------------------------------------
# Running the converters
# ---------------------------------------------------------------------------------------------------------
def converter_fn(name):
    if name == 'RP66V1':
        from TotalDepth.RP66V1 import ToLAS
        return ToLAS, ToLAS.single_rp66v1_file_to_las
    if name == 'LIS':
        from TotalDepth.LIS import ToLAS
        return ToLAS, ToLAS.single_lis_file_to_las
    from TotalDepth.BIT import ToLAS
    return ToLAS, ToLAS.single_bit_path_to_las_path


def reap():
    """The multiprocessing converter never closes its Pool.  When the call returns, the Pool is garbage and CPython's finalizer stops
    its workers; when an exception travels out of the call, the traceback keeps the Pool alive.  Pools are therefore terminated
    *through their own API* (killing a worker that waits for a task leaves the task queue's lock held and makes the Pool's finalizer
    block for ever); processes that are left after that are terminated as a last resort."""
    import gc
    import multiprocessing.pool
    for obj in gc.get_objects():
        try:
            is_pool = isinstance(obj, multiprocessing.pool.Pool)
        except ReferenceError:
            continue
        if is_pool:
            try:
                obj.terminate()
                obj.join()
            except Exception:  # noqa - already terminated
                pass
    for p in multiprocessing.active_children():
        p.terminate()
    for p in multiprocessing.active_children():
        p.join(5)
        if p.is_alive():
            p.kill()
            p.join(5)


def guarded(fn, limit_s=600):
    """(value, exception) of fn() under a watchdog."""
    old = signal.signal(signal.SIGALRM, _alarm)
    signal.setitimer(signal.ITIMER_REAL, limit_s)
    try:
        return fn(), None
    except Timeout as err:
        return None, err
    except Exception as err:  # noqa
        return None, err
    finally:
        signal.setitimer(signal.ITIMER_REAL, 0)
        signal.signal(signal.SIGALRM, old)
        reap()
        leaked = len(multiprocessing.active_children())
        if leaked:
            raise HarnessError('%d worker processes could not be stopped' % leaked)


def read_tree(root):
    """{relative name: text without the creation time line}."""
    out = {}
    if not os.path.isdir(root):
        return out
    for d, _dirs, fs in os.walk(root):
        for f in fs:
            path = os.path.join(d, f)
            with open(path, 'rb') as fh:
                raw = fh.read()
            lines = [ln for ln in raw.split(b'\n') if not ln.startswith(b'CREA.')]
            out[os.path.relpath(path, root)] = b'\n'.join(lines)
    return out


def result_key(r):
    return (r.binary_file_type, r.size_input, r.size_output, r.las_count, bool(r.exception), bool(r.ignored))


import contextlib


@contextlib.contextmanager
def _cwd(path):
    if path is None:
        yield
        return
    old = os.getcwd()
    os.chdir(path)
    try:
        yield
    finally:
        os.chdir(old)


#: the known finding C12-rp66v1-same-stem: the RP66V1 converter names its outputs without the extension of the input
SIG_SHARED = 'two-inputs-share-output-names'


def check(case, cc):
    logging.disable(logging.CRITICAL)
    from TotalDepth.common import Slice
    from TotalDepth.LAS.core import WriteLAS
    conv = case['converter']
    files = case['files']
    datas = [file_bytes(f) for f in files]
    names = [os.path.join(f.get('dir', ''), f['name']) for f in files]     # relative to the input directory
    recurse = bool(case.get('recurse'))
    walked = [i for i in range(len(files)) if recurse or not files[i].get('dir')]      # the files a walk of the directory finds
    cc.cls('name-begins-with-the-whole-name-of-a-bad-file', any(f.get('prefixed_by') for f in files))
    _sz = sum(len(d) for d in datas)
    symlinked = (_sz % len(files)) if _sz % 5 == 0 else None      # one directory in five: one input is a symbolic link
    cc.cls('input-is-a-symbolic-link', symlinked is not None)
    relative = (len(files) + len(files[0]['name'])) % 2 == 0
    cc.cls('directories-given-as-relative-paths', relative)
    cc.cls('dot-name', any(f['name'].startswith('.') or f.get('dir', '').startswith('.') for f in files))
    cc.cls('sub-directories', any(f.get('dir') for f in files))
    cc.cls('sub-directories:two-levels-down-recursive', recurse and any(f.get('dir', '').count('/') >= 1 for f in files))
    cc.cls('sub-directories:not-recursive', not recurse and any(f.get('dir') for f in files))
    if len(set(names)) != len(names):
        raise HarnessError('duplicate file names generated')
    sizes = [len(d) for d in datas]
    by_name = sorted(range(len(files)), key=lambda i: names[i])
    by_size = sorted(range(len(files)), key=lambda i: (sizes[i], names[i]))       # the order DirWalk.gen_big_first yields
    kinds = [f['kind'] for f in files]

    def damaged_first(order):
        seen_damaged = False
        for i in order:
            if kinds[i] == 'damaged':
                seen_damaged = True
            elif kinds[i] == 'valid' and seen_damaged:
                return True
        return False
    # a damaged copy that is byte-identical to nothing else; classes
    has_pair = 'valid' in kinds and 'damaged' in kinds
    cc.cls('converter:' + conv)
    cc.cls('orders-differ', by_name != by_size)
    cc.cls('damaged-sorts-first:names', damaged_first(by_name))
    cc.cls('damaged-sorts-first:sizes', damaged_first(by_size))
    cc.cls('foreign-file', 'foreign' in kinds)
    cc.cls('random-bytes-file', 'random' in kinds)
    cc.cls('empty-file', 'empty' in kinds or any(s == 0 for s in sizes))
    cc.cls('valid>=2', kinds.count('valid') >= 2)
    cc.cls('jobs>1', any(j > 1 for j in case['jobs']))
    cc.cls('jobs>files', any(j > len(files) for j in case['jobs']))
    cc.cls('channel-request', bool(case['channels']))
    cc.cls('same-channels-other-order-with-request', bool(case['channels']) and case['channels'] != ['NOSUCH'] and any(
        f['kind'] == 'valid' and f['src'].get('permuted_of_first') for f in files))
    cc.cls('stem-shared-by-two-inputs', len(set(os.path.splitext(n)[0] for n in names)) < len(names))
    for f in files:
        if f['kind'] == 'damaged':
            cc.cls('damage:' + f['damage']['op'])
        if f['kind'] == 'foreign':
            cc.cls('foreign:' + f['fmt'])
    nt = has_pair and (damaged_first(by_name) or damaged_first(by_size)) and any(j > 1 for j in case['jobs'])
    cc.nt(nt)
    cc.cls('nontrivial', nt)
    cc.sample({'converter': conv, 'jobs': case['jobs'], 'channels': case['channels'],
               'files': [(names[i], kinds[i], sizes[i], None if files[i]['damage'] is None else files[i]['damage']['op']) for i in by_name]})
    module, fn = converter_fn(conv)
    frame_slice = Slice.Slice()
    args = (case['reduction'], frame_slice)
    tail = (case['width'], case['float_format'])
    seen = set()

    def dev(oracle, sig, detail):
        if (oracle, sig) not in seen:
            seen.add((oracle, sig))
            cc.dev(oracle, sig, detail)

    with tempfile.TemporaryDirectory(prefix='vt_c12_') as real_tmp, _cwd(real_tmp if relative else None):
        tmp = '' if relative else real_tmp        # relative: the directories are given the way a user types them (in, out)
        # one case in two: the output directories are named so that each is a string prefix of the input directory's name
        # (data -> data_raw, logs -> logs_1987): directories are distinct things whatever their names share
        prefix_names = (len(names) + len(datas[0])) % 2 == 0
        cc.cls('output-directory-name-is-a-prefix-of-the-input-directory-name', prefix_names)
        dir_in = os.path.join(tmp, 'in_data_0123456789' if prefix_names else 'in')
        os.makedirs(dir_in)
        for k_, (nm, d) in enumerate(zip(names, datas)):
            os.makedirs(os.path.dirname(os.path.join(dir_in, nm)), exist_ok=True)
            if k_ == symlinked:
                # the input directory holds a symbolic link to a file kept elsewhere (a common way to assemble a job)
                store = os.path.join(real_tmp, 'store')
                os.makedirs(store, exist_ok=True)
                with open(os.path.join(store, 'linked_%d' % k_), 'wb') as fh:
                    fh.write(d)
                os.symlink(os.path.join(store, 'linked_%d' % k_), os.path.join(dir_in, nm))
                continue
            with open(os.path.join(dir_in, nm), 'wb') as fh:
                fh.write(d)
        paths = [os.path.join(dir_in, nm) for nm in names]
        what = '%s directory %r' % (conv, [(names[i], kinds[i], sizes[i]) for i in by_name])
        # ---- (a) every file on its own
        solo_res, solo_why, solo_trees = {}, {}, {}
        out_solo = os.path.join(tmp, 'out_solo')
        for i in reversed(by_name):       # (another order than the directory walks: state carried from file to file shows as a difference)
            own = os.path.join(tmp, 'own_%d' % i)
            with c11.capture_errors(module.logger) as cap:
                res, err = guarded(lambda: WriteLAS.convert_dir_or_file_to_las(
                    paths[i], os.path.join(own, names[i]), False, args[0], args[1], set(case['channels']), tail[0], tail[1], fn))
            if err is not None:
                report_escape(dev, err, '%s: converting %r (%s, %s) on its own' % (what, names[i], kinds[i], describe(files[i])), kinds[i])
                continue
            if list(res) != [paths[i]]:
                dev(O_KEYS, 'solo-result-keys', '%s: solo conversion of %r returned keys %r' % (what, names[i], list(res)))
                continue
            solo_res[i] = res[paths[i]]
            solo_why[i] = c11.failure_signature(cap) if res[paths[i]].exception else None
            solo_trees[i] = read_tree(own)
        # ---- (a') the valid files once more, each in a process that has never converted anything (vt/fresh.py): what a
        # conversion writes must not depend on what the process converted before it
        n_fresh = 0
        for i in by_name:
            if kinds[i] != 'valid' or i not in solo_trees or n_fresh >= 3:
                continue
            n_fresh += 1
            own = os.path.join(tmp, 'fresh_%d' % i)
            status = fresh.convert(conv, paths[i], os.path.join(own, names[i]), case['reduction'], case['channels'], tail[0], tail[1])
            cc.cls('fresh-process:' + status)
            if status != 'ok':
                continue
            ftree = read_tree(own)
            if ftree != solo_trees[i]:
                bad_ = sorted(k for k in set(ftree) | set(solo_trees[i]) if ftree.get(k) != solo_trees[i].get(k))
                dev(O_TREE, 'conversion-differs-from-the-same-conversion-in-a-process-that-converted-nothing-before',
                    '%s: %r converted on its own in a fresh process and on its own in this process (after other conversions): '
                    'outputs %r differ%s' % (what, names[i], bad_[:4], first_diff({k: ftree.get(k, b'') for k in bad_}, {k: solo_trees[i].get(k, b'') for k in bad_}, bad_)))
        union = {}
        collide = set()
        for i in by_name:
            if i not in walked:
                continue
            for k, v in solo_trees.get(i, {}).items():
                if k in union and union[k] != v:
                    collide.add(k)
                union[k] = v
        if collide:
            dev(O_TREE, SIG_SHARED if conv == 'RP66V1' else SIG_SHARED + ':' + conv, '%s: outputs %r are written by more than one input file' % (what, sorted(collide)[:6]))
        # ---- verdicts of the solo runs
        for i in by_name:
            r = solo_res.get(i)
            if r is None:
                continue
            if kinds[i] == 'valid' and (r.exception or r.ignored or r.las_count < 1):
                sig = 'ignored' if r.ignored else (solo_why[i][0] if solo_why[i] else 'no-las-written')
                if solo_why[i] and 'None of the channels' in solo_why[i][1] and 'is in Log Pass' in solo_why[i][1] and conv == 'LIS' \
                        and c11.lis_implied_pass_without_requested(c11.SOURCES[conv](files[i]['src'])[1], case['channels']):
                    sig = 'failed:lis-implied-x-pass-holds-none-of-the-requested-channels'   # see C11
                dev(O_VALID, 'valid-file:' + sig, '%s: valid file %r on its own: %r %s' % (what, names[i], r, solo_why[i][1] if solo_why[i] else ''))
            if kinds[i] in ('foreign', 'empty') and not (r.exception or r.ignored):
                dev(O_BAD, '%s-file-converted' % kinds[i], '%s: %s file %r (%s) reported as converted: %r' % (what, kinds[i], names[i], files[i]['fmt'], r))
        # ---- (b) sequential, (c) multiprocessing
        modes = []
        out_seq = os.path.join(tmp, 'in_data' if prefix_names else 'out_seq')
        res, err = guarded(lambda: WriteLAS.convert_dir_or_file_to_las(dir_in, out_seq, recurse, args[0], args[1], set(case['channels']), tail[0], tail[1], fn))
        modes.append(('sequential', res, err, out_seq))
        for j in case['jobs']:
            out_j = os.path.join(tmp, 'in_data_' + '0123456789'[:{1: 1, 2: 2, 3: 3, 4: 4, 8: 8, 16: 9}.get(j, 5)] if prefix_names else 'out_j%d' % j)
            res, err = guarded(lambda: WriteLAS.convert_dir_or_file_to_las_multiprocessing(
                dir_in, out_j, recurse, args[0], args[1], set(case['channels']), tail[0], tail[1], j, fn))
            modes.append(('jobs=%d' % j, res, err, out_j))
        trees, results = {}, {}
        for mode, res, err, out in modes:
            if err is not None:
                report_escape(dev, err, '%s: %s conversion' % (what, mode), 'directory')
                continue
            if sorted(res) != sorted(paths[i] for i in walked):
                dev(O_KEYS, 'result-keys:' + ('sequential' if mode == 'sequential' else 'multiprocessing'),
                    '%s: %s returned results for %r' % (what, mode, sorted(os.path.basename(k) for k in res)))
                continue
            trees[mode] = read_tree(out)
            results[mode] = res
        # ---- output trees against the union of the solo conversions
        ref = union
        complete = all(i in solo_trees for i in walked)
        grows = set()           # modes whose difference has the form of the known growing channel request
        for mode, tree in trees.items():
            if not complete or tree == ref:
                continue
            diff_names = sorted(set(tree) ^ set(ref))
            diff_content = sorted(k for k in set(tree) & set(ref) if tree[k] != ref[k])
            kind = 'sequential' if mode == 'sequential' else 'multiprocessing'
            if collide and not diff_names and set(diff_content) <= collide:
                continue        # which input wins a shared output name depends on the order: reported above
            if collide:
                dev(O_TREE, SIG_SHARED if conv == 'RP66V1' else SIG_SHARED + ':' + conv, '%s: %s output differs from the solo conversions in %r %r' % (what, mode, diff_names[:6], diff_content[:6]))
                continue
            sig = 'tree-differs:' + kind + (':names' if diff_names else ':contents')
            if mode == 'sequential' and not diff_names and case['channels'] and request_grows(tree, ref, diff_content):
                sig = 'tree-differs:sequential:channel-request-grows-by-x-axis-names-of-earlier-files'
                grows.add(mode)
            dev(O_TREE, sig, '%s: %s output differs from the union of the solo conversions: only in one of them %r, different content %r%s' % (
                what, mode, diff_names[:6], diff_content[:6], first_diff(tree, ref, diff_content)))
        # ---- results against the solo results
        for mode, res in results.items():
            for i in by_name:
                if i not in walked:
                    continue
                r = res[paths[i]]
                if r.path_input != paths[i]:
                    dev(O_KEYS, 'result-path-mismatch', '%s: %s: result under key %r names %r' % (what, mode, names[i], r.path_input))
                s_ = solo_res.get(i)
                if s_ is None:
                    continue
                a, b = result_key(r), result_key(s_)
                if mode in grows or collide:
                    a, b = a[:2] + a[3:], b[:2] + b[3:]       # the output size follows the differing content reported above
                if a != b:
                    dev(O_RESULT, 'result-differs-from-solo:' + kinds[i], '%s: %s: %r gives %r, on its own %r' % (what, mode, names[i], result_key(r), result_key(s_)))
                if kinds[i] == 'valid' and (r.exception or r.ignored) and not (s_.exception or s_.ignored):
                    dev(O_VALID, 'valid-file-failed-in-directory-only', '%s: %s: valid file %r: %r' % (what, mode, names[i], r))
        # ---- between the modes (also when a solo conversion is missing)
        if len(trees) >= 2 and not collide:
            first = next(iter(trees))
            for mode, tree in trees.items():
                if tree != trees[first] and not (complete and (tree != ref or trees[first] != ref)):
                    dev(O_TREE, 'tree-differs-between-modes', '%s: output of %s differs from %s' % (what, mode, first))


def describe(f):
    if f['damage'] is not None:
        d = dict(f['damage'])
        for k in ('bytes', 'other'):
            if k in d:
                d[k] = bytes(d[k])[:12].hex()
        return 'damage %r' % d
    return f['fmt'] or 'raw'


def report_escape(dev, err, where, kind):
    if isinstance(err, Timeout):
        dev(O_TERM, 'timeout:' + kind, '%s: no result after 600 s' % where)
        return
    if not engine.sut_frames(err):
        raise HarnessError('exception outside the code under test: %r (%s)' % (err, where)) from err
    dev(O_ESCAPE, 'escape:' + engine.exc_sig(err), '%s: raised %r' % (where, err))


REQ = b'# Requested Channels in this LAS file ['


def request_grows(tree, ref, diff_content):
    """The form of the known defect C11-x-axis-leak: every differing file states a list of requested channels that is a strict
    superset of what the solo conversion states, and the ~V / ~W / ~P sections are the same."""
    def fixed(lines):
        out = []
        for ln in lines:
            if ln.startswith(b'~C'):
                break
            out.append(ln)
        return out

    def requested(lines):
        for ln in lines:
            if ln.startswith(REQ):
                return [x for x in ln.split(b']: ', 1)[1].split(b',') if x.strip()]
        return None
    for k in diff_content:
        a, b = tree[k].split(b'\n'), ref[k].split(b'\n')
        ra, rb = requested(a), requested(b)
        if ra is None or rb is None or fixed(a) != fixed(b):
            return False
        if not (len(ra) > len(rb) and all(x in ra for x in rb)):
            return False
    return bool(diff_content)


def first_diff(tree, ref, diff_content):
    for k in diff_content[:1]:
        a, b = tree[k].split(b'\n'), ref[k].split(b'\n')
        for x, y in zip(a, b):
            if x != y:
                return '; first differing line of %s: %r vs %r' % (k, x[:120], y[:120])
        return '; %s: %d vs %d lines' % (k, len(a), len(b))
    return ''


def parts(tier):
    return [
        HypPart('rp66v1-directories', directories('RP66V1', tier), check, 40, 960),
        HypPart('lis-directories', directories('LIS', tier), check, 40, 960),
        HypPart('bit-directories', directories('BIT', tier), check, 40, 960),
    ]


RULE += '  Added after the seeding rounds: sub-directories up to three levels with recursive and non-recursive walks, names beginning with a dot, an input whose name begins with the whole name of a bad input.'
RULE += '  Every valid file is also converted in a child of a process that never converted anything (vt/fresh.py) and the trees compared; BIT directories hold files with the same channels in another order and a request for some of them.'
