"""C18, parts that need generated binary files (plugged into vt.props.c18.parts):

  rp66v1-xml-index   generated RP66V1 logical files (vt.gen.dlis_logical) -> IndexXML.write_logical_file_sequence_to_xml:
                     the document parses; one EFLR element per table and one FrameArray per frame type with the positions /
                     names of the *model*; the RLE children of FrameNumbers, LRSH, Xaxis and VisibleRecords expand
                     (reference expansion of vt.ref.rle) to the numbers the model holds
  rp66v1-html        the same files -> ScanHTML.html_scan_RP66V1_file_data_content: every document left on disk parses
  lis-html           generated LIS files (vt.gen.lis) -> LisToHtml.processFile: every document parses
"""
import logging
import os
import tempfile

from hypothesis import strategies as st

from vt import engine
from vt.engine import HypPart
from vt.gen import dlis_logical as GD
from vt.gen import lis as GL
from vt.ref import repcodes as R
from vt.ref import rle as RLE


def _c18():
    from vt.props import c18
    return c18


def _expand(elem, as_float=False, hex_output=False):
    """Numbers that the <RLE datum stride repeat/> children of an element denote, + the declared count."""
    out = []
    for r in elem.findall('RLE'):
        if as_float:
            d, s = float(r.get('datum')), float(r.get('stride'))
        else:
            d, s = int(r.get('datum'), 16 if hex_output else 10), int(r.get('stride'), 16 if hex_output else 10)
        out.extend(RLE.expand(d, s, int(r.get('repeat'))))
    return out, int(elem.get('count')), int(elem.get('rle_len')), len(elem.findall('RLE'))


def _first_value(code, blob):
    """Exact value of the first element of a channel blob, or None when the code is VSINGL (known scaling finding)."""
    size = R.RP66_FIXED[code][2]
    if code == 6:
        return None
    v = R.RP66_FIXED[code][1](blob[:size])
    if isinstance(v, str) or v is None:
        return None
    if code in (2, 5, 6):
        import numpy as np
        with np.errstate(over='ignore'):
            return float(np.float32(float(v)))
    return float(v)


def _compare_objects(cc, c18, eflr_elem, table, lf_index):
    """<Object O C I> / <Attribute label count rc units> / <Value type value> of one EFLR element against the model."""
    objs = eflr_elem.findall('Object')
    if len(objs) != len(table['objects']):
        cc.dev('xml-index==model', 'object-count', 'logical file %d set %r: %d Object elements, %d objects written' % (
            lf_index, table['type'], len(objs), len(table['objects'])))
        return
    for oe, ob in zip(objs, table['objects']):
        name = (str(ob['name'][0]), str(ob['name'][1]), ob['name'][2].decode('latin-1'))
        if c18.char_only(name[2]) and (oe.get('O'), oe.get('C'), oe.get('I')) != name:
            cc.dev('xml-index==model', 'object-name', 'set %r: Object %r, written %r' % (table['type'], (oe.get('O'), oe.get('C'), oe.get('I')), name))
            continue
        attrs = oe.findall('Attribute')
        if len(attrs) != len(ob['cells']):
            cc.dev('xml-index==model', 'attribute-count', 'set %r object %r: %d Attribute elements, %d template attributes' % (
                table['type'], name, len(attrs), len(ob['cells'])))
            continue
        for ae, cell, t in zip(attrs, ob['cells'], table['template']):
            if cell is None:
                continue      # absent attribute: known finding C03-absent-attribute decides what is shown
            if cell['rep_code'] == 6:
                continue      # VSINGL values: known scaling finding
            label = t['label'].decode('latin-1')
            if c18.char_only(label) and ae.get('label') != label:
                cc.dev('xml-index==model', 'attribute-label', 'set %r: label %r, written %r' % (table['type'], ae.get('label'), label))
            vals = cell['values']
            if vals is None:
                continue
            got = list(ae)
            if len(got) != len(vals):
                cc.dev('xml-index==model', 'value-count', 'set %r attribute %r: %d values in the index, %d written' % (table['type'], label, len(got), len(vals)))
                continue
            for ve, v in zip(got, vals):
                if isinstance(v, bytes):
                    text = v.decode('latin-1')
                    cc.cls('xml-index:bytes-value-compared', c18.char_only(text))
                    cc.cls('xml-index:bytes-value-with-high-byte', c18.char_only(text) and any(b >= 0x80 for b in v))
                    if c18.char_only(text) and (ve.tag != 'Value' or ve.get('type') != 'bytes' or ve.get('value') != text):
                        sig = 'bytes-value-changed:high-bytes' if any(b >= 0x80 for b in v) else 'bytes-value-changed'
                        cc.dev('xml-index-values-recovered', sig, 'set %r attribute %r: wrote %r, index shows %r' % (
                            table['type'], label, v[:40], (ve.get('value') or '')[:40]))
                elif isinstance(v, bool):
                    pass
                elif isinstance(v, int):
                    if ve.tag != 'Value' or ve.get('value') != str(v):
                        cc.dev('xml-index-values-recovered', 'int-value-changed', 'set %r attribute %r: wrote %r, index shows %r' % (
                            table['type'], label, v, ve.get('value')))
                elif isinstance(v, tuple) and len(v) == 3 and isinstance(v[2], bytes):
                    nm = (str(v[0]), str(v[1]), v[2].decode('latin-1'))
                    if c18.char_only(nm[2]) and (ve.tag != 'ObjectName' or (ve.get('O'), ve.get('C'), ve.get('I')) != nm):
                        cc.dev('xml-index-values-recovered', 'object-name-value-changed', 'set %r attribute %r: wrote %r, index shows %r' % (
                            table['type'], label, nm, (ve.tag, ve.get('O'), ve.get('C'), ve.get('I'))))


@st.composite
def rp66_cases(draw):
    return draw(GD.logical_files(min_files=1, max_files=3, max_sets=4, crash_shapes=False, log_pass_weight=8, allow_encrypted=True))


def check_xml_index(case, cc):
    c18 = _c18()
    from TotalDepth.RP66V1 import IndexXML
    from TotalDepth.RP66V1.core import LogicalFile
    data, model = GD.build_logical(case)
    n_frames = sum(len(f['rows']) for lf in model['logical_files'] if lf['log_pass'] for f in lf['log_pass']['frames'])
    cc.cls('xml-index:has-log-pass', any(lf['log_pass'] for lf in model['logical_files']))
    cc.cls('xml-index:>=2-logical-files', len(model['logical_files']) >= 2)
    cc.nt(len(model['tables']) >= 2 and n_frames >= 3)
    cc.sample(GD.summary(case, model))
    # the writer's `private` option: with it every table lists its objects, without it the tables of private record types
    # (128..255) are still entries of the index ("one entry per table") but list no objects
    private = (len(data) // 2 + len(model['tables'])) % 2 == 0
    cc.cls('xml-index:private-option-off', not private)
    cc.cls('xml-index:private-table-with-option-off', not private and any(t['lr_type'] >= 128 for t in model['tables']))
    with tempfile.TemporaryDirectory(prefix='vt_c18x_') as d:
        path = os.path.join(d, 'gen.dlis')
        with open(path, 'wb') as f:
            f.write(data)
        out = os.path.join(d, 'gen.xml')
        err = None
        try:
            with LogicalFile.LogicalIndex(path) as li:
                with open(out, 'w') as fout:
                    IndexXML.write_logical_file_sequence_to_xml(li, fout, private)
        except Exception as e:  # noqa
            err = e
        c18.release_exception_frames(err)
        text = open(out, 'rb').read() if os.path.exists(out) else None
    if err is not None:
        # a frame type without any data record is refused by the writer (ExceptionLogPassXML): documented by the code,
        # and outside "1..n frames each"; everything else is unexpected
        empty_type = any(not f['rows'] for lf in model['logical_files'] if lf['log_pass'] for f in lf['log_pass']['frames'])
        if empty_type and type(err).__name__ == 'ExceptionLogPassXML':
            cc.cls('xml-index:frame-type-without-data-refused')
        else:
            cc.unexpected(err)
    if text is None:
        return
    root = c18.check_document(cc, text, 'rp66v1-xml-index')
    if root is None and err is None:
        # the larger the file the likelier one control character somewhere (known finding): the rest of the index is still
        # compared, on the document with the illegal references replaced (names and values that hold such characters are
        # not compared, see char_only)
        root, _bad = c18.parse_document(c18.without_illegal_char_refs(text))
        cc.cls('xml-index:compared-after-setting-illegal-references-aside', root is not None)
    if root is None or err is not None:
        return
    lfs = root.find('LogicalFiles')
    xml_lfs = lfs.findall('LogicalFile') if lfs is not None else []
    if len(xml_lfs) != len(model['logical_files']) or (lfs is not None and int(lfs.get('count')) != len(model['logical_files'])):
        cc.dev('xml-index==model', 'logical-file-count', 'XML has %d logical files, model %d' % (len(xml_lfs), len(model['logical_files'])))
        return
    for k, (x, lf) in enumerate(zip(xml_lfs, model['logical_files'])):
        eflrs = x.findall('EFLR')
        want = []
        for ti in lf['tables']:
            t = model['tables'][ti]
            rec = model['records'][t['record']]
            want.append(('0x%x' % rec['vr_pos'], '0x%x' % rec['lrsh_pos'], str(t['lr_type']), t['type'].decode('ascii'),
                         (t['name'] or b'').decode('ascii'), str(len(t['objects']))))
        got = [(e.get('vr_position'), e.get('lrsh_position'), e.get('lr_type'), e.get('set_type'), e.get('set_name'), e.get('object_count')) for e in eflrs]
        ascii_ok = all(c18.char_only(w[3]) and c18.char_only(w[4]) for w in want)
        if ascii_ok and got != want:
            sig = 'eflr-count' if len(got) != len(want) else 'eflr-entry'
            cc.dev('xml-index==model', sig, 'logical file %d: EFLR elements %r, model %r' % (k, got[:6], want[:6]))
        # attribute values of every object (the index was written with private=True, so every EFLR lists its objects)
        if ascii_ok and got == want:
            for e, ti in zip(eflrs, lf['tables']):
                if private or model['tables'][ti]['lr_type'] < 128:
                    _compare_objects(cc, c18, e, model['tables'][ti], k)
        lp = lf['log_pass']
        xlp = x.find('LogPass')
        if lp is None:
            if xlp is not None:
                cc.dev('xml-index==model', 'log-pass-invented', 'logical file %d has no CHANNEL/FRAME pair but the index shows a LogPass' % k)
            continue
        if xlp is None:
            cc.dev('xml-index==model', 'log-pass-missing', 'logical file %d: no LogPass element' % k)
            continue
        fas = xlp.findall('FrameArray')
        if len(fas) != len(lp['frames']):
            cc.dev('xml-index==model', 'frame-array-count', 'logical file %d: %d FrameArray elements, %d frame types' % (k, len(fas), len(lp['frames'])))
            continue
        by_name = {(fa.get('O'), fa.get('C'), fa.get('I')): fa for fa in fas}
        for f in lp['frames']:
            key = (str(f['name'][0]), str(f['name'][1]), f['name'][2].decode('ascii'))
            fa = by_name.get(key)
            if fa is None:
                cc.dev('xml-index==model', 'frame-array-name', 'frame type %r not in the index (has %r)' % (key, sorted(by_name)))
                continue
            chans = fa.find('Channels').findall('Channel')
            if [c.get('I') for c in chans] != [c['name'][2].decode('ascii') for c in f['channels']]:
                cc.dev('xml-index==model', 'frame-array-channels', 'frame type %r: channels %r' % (key, [c.get('I') for c in chans]))
            iflr = fa.find('IFLR')
            rows = f['rows']
            if int(iflr.get('count')) != len(rows):
                cc.dev('xml-index==model', 'iflr-count', 'frame type %r: IFLR count %s, %d non-empty data records written' % (key, iflr.get('count'), len(rows)))
                continue
            cc.cls('xml-index:frame-type>=3-frames', len(rows) >= 3)
            for name, exp, kw in (('FrameNumbers', [r['number'] for r in rows], {}),
                                  ('LRSH', [model['records'][r['record']]['lrsh_pos'] for r in rows], {'hex_output': True})):
                got_n, count, rle_len, n_items = _expand(iflr.find(name), **kw)
                if got_n != exp or count != len(exp) or rle_len != n_items:
                    cc.dev('xml-index-rle-expands-to-index', 'rle:%s' % name, 'frame type %r: %s expands to %r (count=%d rle_len=%d/%d), written %r' % (
                        key, name, got_n[:10], count, rle_len, n_items, exp[:10]))
                cc.cls('xml-index:rle-multi-run', n_items >= 2)
            code = f['channels'][0]['code']
            xs = [_first_value(code, r['channels'][0]) for r in rows]
            if code == 6 or any(v is None for v in xs):
                cc.cls('xml-index:x-axis-not-compared-vsingl-or-special')
            else:
                got_x, count, rle_len, n_items = _expand(iflr.find('Xaxis'), as_float=True)
                import math
                ok = len(got_x) == len(xs) and count == len(xs)
                if ok and all(math.isfinite(v) for v in xs):
                    tol = RLE.tol_iteration(xs)
                    if code in (2, 5):
                        # the in-memory X values of a float32 channel are float32: strides are rounded to 24 bits
                        tol *= 2.0 ** 29
                    ok = all(abs(a - b) <= tol for a, b in zip(got_x, xs))
                elif ok:
                    ok = True   # non finite X values: only the count is compared
                if not ok:
                    cc.dev('xml-index-rle-expands-to-index', 'rle:Xaxis', 'frame type %r: Xaxis expands to %r, first channel values %r' % (key, got_x[:8], xs[:8]))
    vr = root.find('VisibleRecords')
    got_v, count, rle_len, n_items = _expand(vr, hex_output=True)
    # one entry per logical record that the logical index holds (encrypted ones are skipped by the index)
    exp_all = [m['vr_pos'] for m in model['records']]
    if got_v != exp_all or count != len(got_v):
        exp_plain = [m['vr_pos'] for m in model['records'] if not m['encrypted']]
        if got_v != exp_plain:
            cc.dev('xml-index-rle-expands-to-index', 'rle:VisibleRecords', 'VisibleRecords expands to %r, records live in visible records at %r' % (got_v[:10], exp_all[:10]))


def check_rp66_html(case, cc):
    c18 = _c18()
    data, model = GD.build_logical(case)
    cc.nt(len(model['tables']) >= 2)
    cc.sample(GD.summary(case, model))
    with tempfile.TemporaryDirectory(prefix='vt_c18h_') as d:
        path = os.path.join(d, 'gen.dlis')
        with open(path, 'wb') as f:
            f.write(data)
        os.makedirs(os.path.join(d, 'out'))
        err = c18.rp66v1_to_html(path, os.path.join(d, 'out'))
        c18.release_exception_frames(err)
        docs = c18.check_output_files(cc, os.path.join(d, 'out'), 'rp66v1-html')
    cc.cls('rp66v1-html:document-parsed', bool(docs) and all(r is not None for r in docs.values()))
    if err is not None:
        # bytes >= 0x80 in identifiers make the writer raise UnicodeDecodeError (outside what IDENT / UNITS may hold);
        # the document left behind must still parse (checked above)
        # Any other exception of the summary writer on an unusual file (a set without objects, a channel of NaNs) is
        # counted, not judged: C18 constrains the documents that are written, and the one left behind parsed.
        cc.cls('rp66v1-html:non-ascii-refused', isinstance(err, UnicodeDecodeError))
        cc.cls('rp66v1-html:writer-raised:' + type(err).__name__)


@st.composite
def lis_cases(draw):
    return draw(GL.lis_files(max_passes=2, max_frames=12, tif_options=('none', 'normal')))


def check_lis_html(case, cc):
    c18 = _c18()
    data, model = GL.build_lis_file(case)
    cc.nt(len(model['passes']) >= 1 and len(model['listing']) >= 4)
    cc.sample({'cfg': case['cfg'], 'items': [k for k, _p in case['items']]})
    with tempfile.TemporaryDirectory(prefix='vt_c18l_') as d:
        path = os.path.join(d, 'gen.lis')
        with open(path, 'wb') as f:
            f.write(data)
        os.makedirs(os.path.join(d, 'out'))
        logging.disable(logging.CRITICAL)
        err = c18.lis_to_html(path, os.path.join(d, 'out'))
        c18.release_exception_frames(err)
        docs = c18.check_output_files(cc, os.path.join(d, 'out'), 'lis-html')
    cc.cls('lis-html:document-parsed', bool(docs) and all(r is not None for r in docs.values()))
    if err is not None:
        cc.cls('lis-html:writer-raised:' + type(err).__name__)
    elif not docs:
        cc.dev('document-written', 'no-document', 'LisToHtml wrote nothing for a generated LIS file')


def parts(tier):
    return [HypPart('rp66v1-xml-index', rp66_cases(), check_xml_index, 500, 10000),
            HypPart('rp66v1-html', rp66_cases(), check_rp66_html, 160, 3000),
            HypPart('lis-html', lis_cases(), check_lis_html, 160, 3000)]
