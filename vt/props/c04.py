"""C04 - DLIS frame arrays hold exactly the recorded values; sub-selection commutes.

Rule based state machine over one LogicalIndex of a generated log pass file (vt.gen.dlis_logical.log_pass_files):
histories of populate_frame_array(frame_array, None | Slice | Sample, None | channel subset) in any order and
repetition.  Oracle: reference matrices M[frame type][channel] = every recorded word decoded by vt.ref.repcodes and
cast to the numpy type of the channel's representation code; after each populate the returned count, the shape, type
and content of every channel array equal the reference rows selected by Python's own slicing (Slice) or by the sample
law (Sample), unselected channels are empty - whatever was populated before.  The index's (frame number, X value,
position) per frame equal the recorded number, first channel value and the position the encoder wrote the record at.
"""
import io

from hypothesis import strategies as st
from hypothesis.stateful import initialize, rule

from vt import engine
from vt.engine import HistoryMachine, MachinePart
from vt.gen import dlis_logical as L
from vt.props import c03
from vt.ref import repcodes as R

PID = 'C04'
LEVEL = 'exploration'
TECHNIQUE = 'model-based testing: Hypothesis rule based state machine, populate histories against reference-decoded numpy matrices'
LEVEL_TEXT = ('generated log pass files (1..4 frame types interleaved, 1..6 channels each of codes 2,5,6,7,12-17 with dimensions up to '
              'rank 3, raw words of every bit pattern, sequential / offset / arbitrary frame numbers, empty and encrypted frame data '
              'records, any physical layout) x histories of up to 14 (thorough: 24) populate calls (all / Slice / Sample x all / channel subset) on one '
              'index; every array compared element by element with the reference decode, the index entries with the recorded numbers')
RULE = ('file: FILE-HEADER, ORIGIN, 0..2 further sets, CHANNEL and FRAME sets (template defaults, overriding counts and trailing '
        'omission in use; attribute order shuffled), then 1..4 frame types with 1..40 (thorough: 1..150) frames each interleaved singly or in runs, one '
        'record in twelve followed by an empty frame data record, one in 24 by an encrypted one; first channel of a frame scalar, '
        'other channels [1] or 1..3 dimensions with <= 12 elements; physical layout as C01.  History: up to 14 of populate(frame '
        'array i, selection, channels) with selection all | Slice(start, stop, step 1..6, None / negative forms) selecting >= 1 frame '
        '| Sample(1..n+3), channels None | any subset (by name, sometimes with an unknown name) and index re-checks.  Non-trivial: '
        'the file interleaves >= 2 frame types and the history populates some frame array twice with different row or channel '
        'selections.  Distinct = distinct (file, history).')
ASSUMPTIONS = ['selections of zero frames are excluded (init_arrays documents > 0; the property says at least one frame)',
               'frame data records of types other than 0 are not generated',
               'the numeric type of a representation code is IEEE single for FSINGL / ISINGL / VSINGL, IEEE double for FDOUBL and the '
               'integer type of the same width and signedness for the integer codes; an ISINGL value beyond the IEEE single range is '
               'expected as the correctly rounded cast (infinity); NaN equals NaN; the sign of zero is not compared',
               'elements of a multi-dimensional channel are recorded in the order FrameChannel.numpy_indexes documents (last subscript fastest) - see the report',
               'VSINGL reserved operands are not generated; channel identifiers are ASCII and unique within the CHANNEL set',
               'the physical layer (C01, C02) and the table layer (C03) are trusted for the shapes used here'] + c03.ASSUMPTIONS[:2]
SHARDS = {'quick': 4, 'thorough': 16}
REQUIRED_CLASSES = {'>=2-frame-types-interleaved': 1, 'multi-dimensional-channel': 1, 'empty-iflr': 1, 'channel-identifier-shared-by-two-frame-types': 1, 'slice-step>1': 1, 'slice-negative-step': 1, 'sample': 1,
                    'channel-subset-with-gap': 1, 'repeat-populate-different-selection': 1, 'populate-all': 1}

SIG_VSINGL = 'value:VSINGL-scale'
DTYPES = {2: 'float32', 5: 'float32', 6: 'float32', 7: 'float64', 12: 'int8', 13: 'int16', 14: 'int32', 15: 'uint8', 16: 'uint16', 17: 'uint32'}


def reference_matrix(np, code, dims, blobs):
    """(matrix, matrix under the known VSINGL defect or None) of one channel: rows x dims, numpy type of the code."""
    size = L.FIXED_SIZE[code]
    dec = R.RP66_FIXED[code][1]
    vals = []
    for b in blobs:
        for i in range(0, len(b), size):
            x = dec(b[i:i + size])
            if x is None:
                raise engine.HarnessError('VSINGL reserved operand in a generated frame')
            vals.append(L.exact_to_model(x))
    shape = (len(blobs),) + tuple(dims)
    with np.errstate(all='ignore'):
        if code in L.FLOAT_CODES:
            m = np.array(vals, dtype=np.float64).astype(DTYPES[code]).reshape(shape)
            w = None
            if code == 6:
                w = np.array([c03.vsingl_wrong(v) for v in vals], dtype=np.float64).astype('float32').reshape(shape)
            return m, w
        m = np.array(vals, dtype=np.int64)
        out = m.astype(DTYPES[code])
        if not np.array_equal(out.astype(np.int64), m):
            raise engine.HarnessError('integer reference out of range of its type')
        return out.reshape(shape), None


def same_array(np, a, b):
    if a.shape != b.shape:
        return False
    if a.dtype.kind == 'f':
        return bool(np.array_equal(a, b, equal_nan=True))
    return bool(np.array_equal(a, b))


class PassState:
    def __init__(self, init, cc):
        c03._quiet()
        import numpy as np
        from TotalDepth.RP66V1.core import LogicalFile
        from TotalDepth.common import Slice
        self.np, self.Slice = np, Slice
        data, model = L.build_logical(init)
        self.model = model
        if len(model['logical_files']) != 1 or model['logical_files'][0]['log_pass'] is None:
            raise engine.HarnessError('C04 case is not a single log pass file')
        self.frames = model['logical_files'][0]['log_pass']['frames']
        self.M, self.W = [], []
        for f in self.frames:
            if not f['rows']:
                raise engine.HarnessError('frame type without frames generated')
            ms = [reference_matrix(np, c['code'], c['dims'], [r['channels'][k] for r in f['rows']]) for k, c in enumerate(f['channels'])]
            self.M.append([m for m, _w in ms])
            self.W.append([w for _m, w in ms])
        self.classify(cc, init)
        cc.sample(L.summary(init, model))
        self.index = None
        self.ok = False
        self.last = {}        # frame array -> (rows, channels) of its previous populate
        self.interleaved = self._interleaved()
        self.index = LogicalFile.LogicalIndex(engine.handle(data))
        self.index.__enter__()
        self.ok = self.check_index(cc)

    def _interleaved(self):
        order = [r['frame'] for r in self.model_records() if r is not None]
        changes = sum(1 for a, b in zip(order, order[1:]) if a != b)
        return len(self.frames) >= 2 and changes >= len(self.frames)

    def model_records(self):
        pos = {}
        for t, f in enumerate(self.frames):
            for r in f['rows']:
                pos[r['record']] = {'frame': t}
        return [pos.get(k) for k in range(len(self.model['records']))]

    def classify(self, cc, init):
        fr = self.frames
        cc.cls('>=2-frame-types', len(fr) >= 2)
        cc.cls('>=2-frame-types-interleaved', self._interleaved())
        cc.cls('multi-dimensional-channel', any(len(c['dims']) >= 2 for f in fr for c in f['channels']))
        cc.cls('vector-channel', any(len(c['dims']) == 1 and c['dims'][0] > 1 for f in fr for c in f['channels']))
        cc.cls('empty-iflr', any(r['kind'] == 'iflr' and r['channels'] is None for r in init['records']))
        cc.cls('empty-iflr-of-a-frame-type', any(f['empty'] for f in fr))
        idents = [c['name'][2] for f in fr for c in f['channels']]
        cc.cls('channel-identifier-shared-by-two-frame-types', len(set(idents)) < len(idents))
        cc.cls('encrypted-iflr', any(r['kind'] == 'raw' and not r['eflr'] for r in init['records']))
        cc.cls('frame-numbers-not-sequential', any([r['number'] for r in f['rows']] != list(range(1, len(f['rows']) + 1)) for f in fr))
        cc.cls('frame-spans>=2-segments', any(self.model['records'][r['record']]['segments'] >= 2 for f in fr for r in f['rows']))
        cc.cls('frame-spans>=2-visible-records', any(self.model['records'][r['record']]['visible_records'] >= 2 for f in fr for r in f['rows']))
        cc.cls('set-between-frame-data', any(a['kind'] == 'iflr' and b['kind'] == 'set' for a, b in zip(init['records'], init['records'][1:])))
        cc.cls('>=20-frames-in-a-type', any(len(f['rows']) >= 20 for f in fr))
        for f in fr:
            for c in f['channels']:
                cc.cls('channel-code-%d' % c['code'])
        np = self.np
        cc.cls('isingl-beyond-float32', any(c['code'] == 5 and bool(np.isinf(m).any()) for f, ms in zip(fr, self.M) for c, m in zip(f['channels'], ms)))
        cc.cls('nan-value', any(m.dtype.kind == 'f' and bool(np.isnan(m).any()) for ms in self.M for m in ms))

    # -- the index -------------------------------------------------------------------------------------
    def check_index(self, cc):
        np = self.np
        lfs = self.index.logical_files
        if len(lfs) != 1:
            cc.dev('index-structure', 'logical-file-count', 'index has %d logical files' % len(lfs))
            return False
        lf = self.lf = lfs[0]
        if lf.log_pass is None or len(lf.log_pass) != len(self.frames):
            cc.dev('index-structure', 'frame-array-count', 'log pass %r, %d frame types written' % (lf.log_pass, len(self.frames)))
            return False
        ok = True
        for t, f in enumerate(self.frames):
            fa = lf.log_pass[t]
            nm = (fa.ident.O, fa.ident.C, bytes(fa.ident.I))
            got = [(ch.ident, ch.rep_code, tuple(ch.dimensions), np.dtype(ch.np_dtype).name) for ch in fa.channels]
            exp = [(c['name'][2].decode('ascii'), c['code'], tuple(c['dims']), DTYPES[c['code']]) for c in f['channels']]
            if nm != f['name'] or got != exp:
                cc.dev('index-structure', 'frame-array-channels', 'frame array %d: %r %r, written %r %r' % (t, nm, got, f['name'], exp))
                ok = False
        exp_keys = sorted(f['name'] for f in self.frames)
        got_keys = sorted((k.O, k.C, bytes(k.I)) for k in lf.iflr_position_map)
        if got_keys != exp_keys:
            cc.dev('index-frames', 'frame-types-indexed', 'index holds frames of %r, written %r' % (got_keys, exp_keys))
            return False
        for t, f in enumerate(self.frames):
            xa = lf.iflr_position_map[lf.log_pass[t].ident]
            if len(xa) != len(f['rows']):
                cc.dev('frame-count', 'index-frame-count', 'frame type %d: index holds %d frames, %d non-empty data records written (%d empty)' % (
                    t, len(xa), len(f['rows']), f['empty']))
                ok = False
                continue
            code = f['channels'][0]['code']
            for i, r in enumerate(f['rows']):
                ref = xa[i]
                mrec = self.model['records'][r['record']]
                if ref.frame_number != r['number']:
                    cc.dev('index-frame-number', 'frame-number', 'frame type %d frame %d: index number %r, recorded %r' % (t, i, ref.frame_number, r['number']))
                if (ref.logical_record_position.vr_position, ref.logical_record_position.lrsh_position) != (mrec['vr_pos'], mrec['lrsh_pos']):
                    cc.dev('index-frame-position', 'frame-position', 'frame type %d frame %d' % (t, i))
                    ok = False
                if self.M[t][0][i].size != 1:
                    # a frame type without a scalar index channel (e.g. waveforms only): which number stands for "the
                    # first-channel value" of an array is not stated, the index X is not judged
                    cc.cls('first-channel-is-an-array')
                    continue
                e = float(self.M[t][0][i].reshape(-1)[0])
                g = float(ref.x_axis)
                if not (g == e or (g != g and e != e)):
                    sig = 'x-axis'
                    if code == 6 and g == float(self.W[t][0][i].reshape(-1)[0]):
                        sig = SIG_VSINGL
                    cc.dev('index-x-value', sig, 'frame type %d frame %d (code %d): index X %r, first channel value %r' % (t, i, code, g, e))
        return ok

    def close(self):
        if self.index is not None:
            try:
                self.index.__exit__(None, None, None)
            except Exception:  # noqa
                pass


def start(init, cc):
    return PassState(init, cc)


# ---------------------------------------------------------------------------------------------------------
def resolve_selection(sel, n):
    """(constructor arguments, reference row indices or None for Sample) for n frames; selects >= 1 frame."""
    if sel['k'] == 'all':
        return None, list(range(n))
    if sel['k'] == 'sample':
        return ('sample', 1 + sel['a'] % (n + 3)), None
    if sel['k'] == 'slice-desc':
        hi = sel['a'] % n                       # first frame taken (the highest)
        lo = hi - 1 - sel['b'] % (hi + 1)       # stop: -1 .. hi - 1 (exclusive)
        a = None if sel['start_none'] else hi
        b = None if (sel['stop_none'] or lo < 0) else lo
        step = -sel['step']
        rows = list(range(n))[a:b:step]
        if not rows:
            raise engine.HarnessError('descending selection resolved to zero frames')
        return ('slice', a, b, step), rows
    start = sel['a'] % n
    stop = start + 1 + sel['b'] % (n - start)
    step = sel['step']
    a, b = start, stop
    if sel['neg_start']:
        a = start - n
    if sel['neg_stop'] and stop < n:
        b = stop - n
    if sel['start_none']:
        a = None
    if sel['stop_none']:
        b = None
    rows = list(range(n))[a:b:step]
    if not rows:
        raise engine.HarnessError('selection resolved to zero frames')
    return ('slice', a, b, step), rows


def sample_law(ind, size, n):
    """The law the property gives for a sample (C15): min(size, n) indices, in range, strictly increasing from 0, evenly spread."""
    if len(ind) != min(size, n) or any(not isinstance(i, int) or i < 0 or i >= n for i in ind):
        return False
    if any(b <= a for a, b in zip(ind, ind[1:])) or (ind and ind[0] != 0):
        return False
    gaps = [b - a for a, b in zip(ind, ind[1:])]
    return not gaps or max(gaps) - min(gaps) <= 1


def step(s, op, cc):
    np = s.np
    if not s.ok:
        return
    # what the scanning tools do after indexing and after every populate: read the summary of each frame type's X axis
    # (the summary itself is not judged - no statement covers it, and it raises for non-finite X values -; reading it must
    # leave the index and later populations as they were, which the following steps check)
    for fa_ in getattr(s.lf.log_pass, 'frame_arrays', []):
        try:
            s.lf.iflr_position_map[fa_.ident].summary  # noqa
            cc.cls('x-axis-summary-read')
        except Exception:  # noqa
            cc.cls('x-axis-summary-raised')
    if op['op'] == 'check_index':
        cc.cls('index-rechecked-after-populate', bool(s.last))
        s.check_index(cc)
        return
    t = op['fa'] % len(s.frames)
    f = s.frames[t]
    n = len(f['rows'])
    fa = s.lf.log_pass[t]
    args, rows = resolve_selection(op['sel'], n)
    if args is None:
        frame_slice = None
    elif args[0] == 'sample':
        frame_slice = s.Slice.Sample(args[1])
        rows = frame_slice.indices(n)
        if not sample_law(rows, args[1], n):
            cc.dev('sample-law', 'sample-indices', 'Sample(%d).indices(%d) = %r' % (args[1], n, rows[:30]))
            return
    else:
        frame_slice = s.Slice.Slice(*args[1:])
    nch = len(f['channels'])
    names = [c['name'][2].decode('ascii') for c in f['channels']]
    if op['chan'] is None:
        channels, selected = None, [True] * nch
    else:
        mask = op['chan']['mask']
        selected = [True] + [bool(mask >> k & 1) for k in range(1, nch)]
        chosen = [names[k] for k in range(1, nch) if selected[k]]
        if mask & 1:
            chosen.insert(0, names[0])
        if op['chan']['unknown']:
            chosen.append('NO-SUCH-CHANNEL')
        channels = list(chosen) if op['chan']['as_list'] else set(chosen)
    # classes
    gap = any(not selected[j] and any(selected[k] for k in range(j + 1, nch)) for j in range(1, nch))
    cc.cls('populate-all', frame_slice is None and channels is None)
    cc.cls('slice', args is not None and args[0] == 'slice')
    cc.cls('slice-step>1', args is not None and args[0] == 'slice' and (args[3] or 1) > 1 and len(rows) >= 2)
    cc.cls('slice-negative-step', args is not None and args[0] == 'slice' and (args[3] or 1) < 0 and len(rows) >= 2)
    cc.cls('slice-negative-or-none-bound', args is not None and args[0] == 'slice' and (args[1] is None or args[2] is None or (args[1] or 0) < 0 or (args[2] or 0) < 0))
    cc.cls('sample', args is not None and args[0] == 'sample')
    cc.cls('sample-irregular', args is not None and args[0] == 'sample' and 1 < args[1] < n and n % args[1] != 0)
    cc.cls('channel-subset', channels is not None)
    cc.cls('channel-subset-with-gap', channels is not None and gap)
    cc.cls('channel-subset-skips-multi-dimensional-channel', channels is not None and any(
        not selected[j] and len(f['channels'][j]['dims']) >= 2 and any(selected[k] for k in range(j + 1, nch)) for j in range(1, nch)))
    cc.cls('channel-subset-unknown-name', channels is not None and op['chan']['unknown'])
    key = (tuple(rows), tuple(selected))
    prev = s.last.get(t)
    if prev is not None and prev != key:
        cc.cls('repeat-populate-different-selection')
        cc.cls('repeat-populate-same-row-count-different-rows', len(prev[0]) == len(rows) and prev[0] != key[0])
        if s.interleaved:
            cc.nt(True)
    cc.cls('populate-other-frame-array-in-between', bool(s.last) and t not in s.last)
    s.last[t] = key
    # the call
    got_n = s.lf.populate_frame_array(fa, frame_slice, channels)
    what = 'frame array %d (%d frames) populate(%s, %s)' % (t, n, 'None' if args is None else args, 'None' if channels is None else sorted(channels))
    if got_n != len(rows):
        cc.dev('populate-count', 'returned-count', '%s returned %r, %d frames selected' % (what, got_n, len(rows)))
    idx = np.array(rows, dtype=np.int64)
    for k, c in enumerate(f['channels']):
        arr = fa.channels[k].array
        if not selected[k]:
            if len(arr) != 0:
                cc.dev('unselected-channels-empty', 'unselected-channel-not-empty', '%s: channel %d %r has %d frames' % (what, k, names[k], len(arr)))
            continue
        exp = s.M[t][k][idx]
        if tuple(arr.shape) != tuple(exp.shape):
            cc.dev('populate-values', 'array-shape', '%s: channel %d %r shape %r, expected %r' % (what, k, names[k], tuple(arr.shape), tuple(exp.shape)))
            continue
        if arr.dtype != exp.dtype:
            cc.dev('populate-values', 'array-dtype', '%s: channel %d %r (code %d) dtype %s, expected %s' % (what, k, names[k], c['code'], arr.dtype, exp.dtype))
            continue
        if same_array(np, arr, exp):
            continue
        if c['code'] == 6:
            bad = ~((arr == exp) | (np.isnan(arr) & np.isnan(exp)))
            if same_array(np, arr[bad], s.W[t][k][idx][bad]):
                cc.dev('populate-values', SIG_VSINGL, '%s: VSINGL channel %d: %d elements differ by the known mantissa scale' % (what, k, int(bad.sum())))
                continue
        kind = 'full' if args is None and channels is None else ('rows' if channels is None else ('channels' if args is None else 'rows+channels'))
        sig = 'values:%s%s' % (kind, ':after-earlier-populate' if prev is not None else '')
        pos = np.argwhere(~((arr == exp) | ((arr != arr) & (exp != exp))))[:3].tolist()
        cc.dev('populate-values', sig, '%s: channel %d %r (code %d dims %r) differs at %r: got %r expected %r' % (
            what, k, names[k], c['code'], c['dims'], pos, [arr[tuple(p)].item() for p in pos], [exp[tuple(p)].item() for p in pos]))


# ---------------------------------------------------------------------------------------------------------
SELECTIONS = st.one_of(
    st.just({'k': 'all'}),
    st.builds(lambda a, b, stp, sn, pn, ns, np_: {'k': 'slice', 'a': a, 'b': b, 'step': stp, 'start_none': sn, 'stop_none': pn,
                                                  'neg_start': ns, 'neg_stop': np_},
              st.integers(0, 999), st.integers(0, 999), st.sampled_from([None, 1, 2, 2, 3, 4, 6]),
              st.sampled_from([False, False, False, True]), st.sampled_from([False, False, True]),
              st.sampled_from([False, False, True]), st.sampled_from([False, False, True])),
    # a negative step: the frames in descending order, as Python slices give them
    st.builds(lambda a, b, stp, sn, pn: {'k': 'slice-desc', 'a': a, 'b': b, 'step': stp, 'start_none': sn, 'stop_none': pn},
              st.integers(0, 999), st.integers(0, 999), st.sampled_from([1, 1, 2, 3, 5]),
              st.sampled_from([False, False, True]), st.sampled_from([False, False, True])),
    st.builds(lambda a: {'k': 'sample', 'a': a}, st.integers(0, 999)))
CHANNELS = st.one_of(st.none(), st.builds(lambda m, u, l: {'mask': m, 'unknown': u, 'as_list': l}, st.integers(0, 63),
                                          st.sampled_from([False, False, False, True]), st.sampled_from([False, False, True])))


def make_machine(files):
    class PassMachine(HistoryMachine):
        START = staticmethod(start)
        STEP = staticmethod(step)

        @initialize(init=files)
        def init(self, init):
            self.begin(init)

        @rule(fa=st.integers(0, 3), sel=SELECTIONS, chan=CHANNELS)
        def populate(self, fa, sel, chan):
            self.op({'op': 'populate', 'fa': fa, 'sel': sel, 'chan': chan})

        @rule(fa=st.integers(0, 3), sel=SELECTIONS, chan=CHANNELS, sel2=SELECTIONS, chan2=CHANNELS)
        def populate_twice(self, fa, sel, chan, sel2, chan2):
            self.op({'op': 'populate', 'fa': fa, 'sel': sel, 'chan': chan})
            self.op({'op': 'populate', 'fa': fa, 'sel': sel2, 'chan': chan2})

        @rule()
        def check_index(self):
            self.op({'op': 'check_index'})
    return PassMachine


def parts(tier):
    # thorough: longer log passes (up to 150 frames per type) and longer histories
    files = L.log_pass_files(max_frames=40 if tier == 'quick' else 150, array_first_channel=True)
    return [MachinePart('populate-history', make_machine(files), engine.replay_machine_case(start, step), 1500, 40000,
                        steps=14 if tier == 'quick' else 24)]


RULE += '  Added after the seeding rounds: the summary of every X axis is read before every step (as the scanning tools do); frame types whose first channel is an array (index X not judged for them); handle positioned anywhere.'
