"""C19, part that needs generated LIS files (plugged into vt.props.c19.parts):

  generated-lis-plot   LIS files from the independent encoder (vt.gen.lis) whose channels carry mnemonics that a built-in
                       plot format knows and whose values are hostile (constant, ramp, spikes, +-1e30, 1e-30, zero or
                       negative on a logarithmic track, absent values, all absent), explicit or implied X, up or down,
                       plotted with PlotLogs.PlotLogPasses exactly as the command line tool does; every SVG goes
                       through c19.check_svg with absent-value information computed from the *model*.
"""
import os
import tempfile

from hypothesis import strategies as st

from vt import engine
from vt.engine import HypPart
from vt.gen import lis as GL

NULL = -999.25
SHAPES = ['constant', 'ramp', 'spikes', 'huge', 'tiny', 'nonpositive', 'gaps', 'all-absent', 'wrapping']


def _c19():
    from vt.props import c19
    return c19


def shape_values(shape, n, seedvals):
    out = []
    for i in range(n):
        r = seedvals[i % len(seedvals)]
        if shape == 'constant':
            v = 42.5
        elif shape == 'ramp':
            v = 1.0 + 3.0 * i
        elif shape == 'spikes':
            v = 1e6 if r % 7 == 0 else (-1e6 if r % 7 == 1 else 10.0 + r % 5)
        elif shape == 'huge':
            v = 1e30 if r % 2 else -1e30
        elif shape == 'tiny':
            v = 1e-30 * (1 + r % 3)
        elif shape == 'nonpositive':
            v = 0.0 if r % 3 == 0 else (-5.0 if r % 3 == 1 else 2.0)
        elif shape == 'gaps':
            v = NULL if r % 4 == 0 else 20.0 + (r % 50)
        elif shape == 'all-absent':
            v = NULL
        else:  # wrapping: sweeps several track widths
            v = (i * 37.0) % 1000.0 - 200.0
        out.append(float(v))
    return out


@st.composite
def lis_plot_cases(draw):
    c19 = _c19()
    fmts = c19.format_channels()
    ids = sorted(k for k, v in fmts.items() if any(len(c) <= 4 for c in v['channels']))
    fmt = draw(st.sampled_from(ids))
    names = sorted(c for c in fmts[fmt]['channels'] if len(c) <= 4)
    k = draw(st.integers(1, min(5, len(names))))
    chosen = draw(st.lists(st.sampled_from(names), min_size=k, max_size=k, unique=True))
    n = draw(st.integers(6, 60))
    indirect = draw(st.booleans())
    up = draw(st.booleans())
    units = draw(st.sampled_from([b'FEET', b'M   ', b'.1IN']))
    spacing = {b'FEET': 0.5, b'M   ': 0.25, b'.1IN': 60}[units]
    x0 = {b'FEET': 5000.5, b'M   ': 1000, b'.1IN': 12000}[units]
    if units == b'.1IN':
        x0 = 600000
    seedvals = draw(st.lists(st.integers(0, 1000), min_size=5, max_size=11))
    curves = [{'name': c, 'shape': draw(st.sampled_from(SHAPES))} for c in chosen]
    per = draw(st.sampled_from([n, 5, 5, 7, 3, 16]))
    return {'format': fmt, 'curves': curves, 'frames': n, 'indirect': indirect, 'up': up, 'units': units, 'spacing': spacing, 'x0': x0,
            'seedvals': seedvals, 'per_record': per, 'pr_len': draw(st.sampled_from([1024, 8192, 200]))}


def build_case(case):
    """Returns (file bytes, absent_info for check_svg)."""
    n = case['frames']
    sign = -1 if case['up'] else 1
    xs = [case['x0'] + sign * case['spacing'] * f for f in range(n)]
    dsbs, cols = [], []
    def dsb(mnem, units):
        return {'mnem': mnem.encode('ascii').ljust(4), 'serv_id': b'VERIF ', 'serv_ord': b'GENERATE', 'units': units, 'api': 0, 'file_no': 1,
                'size': 4, 'samples': 1, 'rc': 68, 'bursts': 1, 'sub_channels': 1}
    if not case['indirect']:
        dsbs.append(dsb('DEPT', case['units']))
        cols.append([float(x) for x in xs])
    for c in case['curves']:
        dsbs.append(dsb(c['name'], b'    '))
        cols.append(shape_values(c['shape'], n, case['seedvals']))
    blocks = [{'type': 1, 'size': 1, 'rc': 66, 'value': 0}, {'type': 4, 'size': 1, 'rc': 66, 'value': 1 if case['up'] else 255},
              {'type': 12, 'size': 4, 'rc': 68, 'value': NULL}]
    if case['indirect']:
        blocks += [{'type': 8, 'size': 4, 'rc': 68, 'value': float(case['spacing'])}, {'type': 9, 'size': 4, 'rc': 65, 'value': case['units']},
                   {'type': 13, 'size': 1, 'rc': 66, 'value': 1}, {'type': 14, 'size': 4, 'rc': 65, 'value': case['units']},
                   {'type': 15, 'size': 1, 'rc': 66, 'value': 68}]
    frames = [[(68, [GL.ref_to68(col[f])]) for col in cols] for f in range(n)]
    per = case['per_record']
    per_record = [per] * (n // per) + ([n % per] if n % per else [])
    lp = {'indirect': case['indirect'], 'xs': {'up_down': 1 if case['up'] else 255, 'spacing': case['spacing'], 'x0': case['x0']},
          'depth_rc': 68, 'units': case['units'], 'blocks': blocks, 'dsbs': dsbs, 'frames': frames, 'per_record': per_record, 'data_type': 0}
    model_case = {'cfg': {'pr_len': case['pr_len'], 'rec_num': False, 'file_num': None, 'checksum': False, 'tif': 'none'},
                  'items': [('delim', GL.LR_FILE_HEAD), ('pass', lp), ('delim', GL.LR_FILE_TAIL)]}
    data, _model = GL.build_lis_file(model_case)
    outputs = {}
    first = 0 if case['indirect'] else 1
    for c, col in zip(case['curves'], cols[first:]):
        outputs[c['name']] = {'x_present': [float(x) for x, v in zip(xs, col) if v != NULL], 'x_absent': [float(x) for x, v in zip(xs, col) if v == NULL]}
    absent_info = {'plot_up': bool(case['up']), 'x_first': float(xs[0]), 'x_last': float(xs[-1]), 'outputs': outputs}
    return data, absent_info


def check_lis_plot(case, cc):
    c19 = _c19()
    data, absent_info = build_case(case)
    shapes = sorted(set(c['shape'] for c in case['curves']))
    for sh in shapes:
        cc.cls('genlis:shape-' + sh)
    cc.cls('genlis:implied-x', case['indirect'])
    cc.cls('genlis:up-log', case['up'])
    plottable = any(c['shape'] != 'all-absent' for c in case['curves'])
    cc.sample({'format': case['format'], 'curves': case['curves'], 'frames': case['frames'], 'implied_x': case['indirect'], 'up': case['up'],
               'units': case['units']})
    with tempfile.TemporaryDirectory(prefix='vt_c19g_') as d:
        path = os.path.join(d, 'GEN.LIS')
        with open(path, 'wb') as f:
            f.write(data)
        os.makedirs(os.path.join(d, 'out'))
        info, svgs, logged, err = c19.plot_lis_file(path, os.path.join(d, 'out'), [case['format']])
        if err is not None:
            cc.unexpected(err)
            return
        single_record = case['per_record'] >= case['frames']
        cc.cls('genlis:single-data-record', single_record)
        if single_record and info.lisFileCntr != 1 and not svgs and any("unsupported operand type(s) for //: 'float' and 'NoneType'" in m for m in logged):
            # known form: the frame spacing of a log pass is derived from the X values of two data records; with a single
            # data record it is None and Plot._loadFrameSet / LogPass.frameFromX divide by it
            cc.dev('lis-input-produces-plot', 'lis-route:single-data-record-log-pass-not-plotted',
                   'format %s, %d frames in one data record: PlotLogPasses gave up; logged: %s' % (case['format'], case['frames'], ' | '.join(logged[-2:])[:600]))
            return
        if info.lisFileCntr != 1:
            cc.dev('lis-input-produces-plot', 'plotlogs-reports-lis-failure', 'format %s: PlotLogPasses gave up on a generated file; logged: %s' % (
                case['format'], ' | '.join(logged[-3:])))
        if not svgs:
            cc.dev('lis-input-produces-plot', 'lis-route:no-plot-although-curves-match-format',
                   'generated file has channels %s of format %s but no SVG was written; logged: %s' % (
                       [c['name'] for c in case['curves']], case['format'], ' | '.join(logged[-2:])))
        points = 0
        for s in svgs:
            res = c19.check_svg(s, cc, absent_info, route='generated-lis-plot %s' % case['format'])
            cc.cls('genlis:svg-checked')
            if res:
                points += res['points']
                cc.cls('genlis:absent-output-checked', bool(res.get('absent_checked')))
        cc.cls('genlis:polyline-points>0', points > 0)
        cc.nt(bool(svgs) and plottable and len(shapes) >= 1)


def parts(tier):
    return [HypPart('generated-lis-plot', lis_plot_cases(), check_lis_plot, 120, 3000)]
