"""C19, part that needs generated LIS files (plugged into vt.props.c19.parts):

  generated-lis-plot   LIS files from the independent encoder (vt.gen.lis) whose channels carry mnemonics that a built-in
                       plot format knows and whose values are hostile (constant, ramp, spikes, +-1e30, 1e-30, zero or
                       negative on a logarithmic track, absent values, all absent), explicit or implied X, up or down,
                       plotted with PlotLogs.PlotLogPasses exactly as the command line tool does; every SVG goes
                       through c19.check_svg with absent-value information computed from the *model*.

  generated-film-pres-plot
                       LIS files whose FILM and PRES tables are generated as well (file header, FILM, PRES, optionally CONS /
                       AREA / PIP, DFSR + >= 2 data records, file trailer) and plotted with an empty format list, i.e. with the
                       tables of the file, which is what ``tdplotlogs`` does without -x.
                       FILM: 1..4 films, single character names, every (GCOD, GDEC) pair FILMCfg documents (three track
                       films, the four track film LLLL/1111), every four byte DSCA code (1:20 .. 1:1000).
                       PRES: 1..7 rows; OUTP a channel of the log pass or DUMM; STAT ALLO / DISA; TRAC any documented code
                       that is legal on every film the row goes to (T1 T2 T3 T23 TD LHTn RHTn / F1..F4 FD); DEST a film name,
                       BOTH, ALL, NEIT, several names (b'134 ', names need not exist); MODE SHIF / GRAD (logarithmic) / NB /
                       WRAP / X10 (unknown: documented fall back) or no MODE column; LEDG != REDG in either order (both > 0
                       for GRAD); optional COLO column, no FILT / OUTP column (documented defaults); FILM before or after PRES;
                       now and then a -s scale override, an unknown CODI, and - on purpose - one row with LEDG == REDG.
                       Channels: 1..5 with the hostile shapes of ``shape_values``; explicit / implied X, up / down, FEET / M / .1IN.
                       Oracles (besides c19.check_svg on every SVG, absent values from the model):
                         lis-input-produces-plot   a film that gets an ALLO curve whose OUTP is a channel with a present value
                                                   has its SVG; PlotLogPasses does not give up on the file
                         plot-depth==span/scale    the main pane is |X span| / scale deep (DSCA code, or the override)
                         curve-inside-its-track    every polyline vertex of an output lies in the track of one of its curves
                         vertex==scale-position    a vertex at a sample depth is at the position the documented linear / log10
                                                   scale gives that sample (fraction of the track width from the left edge,
                                                   wrap count allowed by the back-up mode) or on a track edge; a vertex between
                                                   samples is on a track edge; every on-scale sample but the last has its vertex
                         disa-curve-not-plotted    an output with only DISA curves on a film has no polyline there (ASSERT_STAT)
                       Reference for tracks: the layout FILMCfg documents (2.4 in tracks, 0.8 in depth track; four track film:
                       1 in depth track, 1.75 in tracks), left plot margin 0.25 in, 96 user units per inch.
"""
import os
import tempfile

from hypothesis import strategies as st

from vt import engine
from vt.engine import HypPart
from vt.gen import lis as GL

NULL = -999.25
SHAPES = ['constant', 'ramp', 'spikes', 'huge', 'tiny', 'nonpositive', 'gaps', 'all-absent', 'wrapping']


def _c19():
    from vt.props import c19
    return c19


def absent_of(case):
    """The absent value that the format specification of the case declares (entry block 12): the customary -999.25 in two cases
    of four, otherwise another number that no shape produces as a reading."""
    return (-999.25, -9999.0, -999.25, -32768.0)[sum(case['seedvals']) % 4]


def shape_values(shape, n, seedvals, NULL=NULL):
    out = []
    for i in range(n):
        r = seedvals[i % len(seedvals)]
        if shape == 'constant':
            v = 42.5
        elif shape == 'ramp':
            v = 1.0 + 3.0 * i
        elif shape == 'spikes':
            v = 1e6 if r % 7 == 0 else (-1e6 if r % 7 == 1 else 10.0 + r % 5)
        elif shape == 'huge':
            v = 1e30 if r % 2 else -1e30
        elif shape == 'tiny':
            v = 1e-30 * (1 + r % 3)
        elif shape == 'nonpositive':
            v = 0.0 if r % 3 == 0 else (-5.0 if r % 3 == 1 else 2.0)
        elif shape == 'gaps':
            v = NULL if r % 4 == 0 else 20.0 + (r % 50)
        elif shape == 'all-absent':
            v = NULL
        else:  # wrapping: sweeps several track widths
            v = (i * 37.0) % 1000.0 - 200.0
        out.append(float(v))
    return out


@st.composite
def lis_plot_cases(draw):
    c19 = _c19()
    fmts = c19.format_channels()
    ids = sorted(k for k, v in fmts.items() if any(len(c) <= 4 for c in v['channels']))
    fmt = draw(st.sampled_from(ids))
    names = sorted(c for c in fmts[fmt]['channels'] if len(c) <= 4)
    k = draw(st.integers(1, min(5, len(names))))
    chosen = draw(st.lists(st.sampled_from(names), min_size=k, max_size=k, unique=True))
    n = draw(st.integers(6, 60))
    indirect = draw(st.booleans())
    up = draw(st.booleans())
    units = draw(st.sampled_from([b'FEET', b'M   ', b'.1IN']))
    spacing = {b'FEET': 0.5, b'M   ': 0.25, b'.1IN': 60}[units]
    x0 = {b'FEET': 5000.5, b'M   ': 1000, b'.1IN': 12000}[units]
    if units == b'.1IN':
        x0 = 600000
    seedvals = draw(st.lists(st.integers(0, 1000), min_size=5, max_size=11))
    curves = [{'name': c, 'shape': draw(st.sampled_from(SHAPES))} for c in chosen]
    per = draw(st.sampled_from([n, 5, 5, 7, 3, 16]))
    return {'format': fmt, 'curves': curves, 'frames': n, 'indirect': indirect, 'up': up, 'units': units, 'spacing': spacing, 'x0': x0,
            'seedvals': seedvals, 'per_record': per, 'pr_len': draw(st.sampled_from([1024, 8192, 200]))}


def build_case(case):
    """Returns (file bytes, absent_info for check_svg)."""
    n = case['frames']
    sign = -1 if case['up'] else 1
    xs = [case['x0'] + sign * case['spacing'] * f for f in range(n)]
    dsbs, cols = [], []
    def dsb(mnem, units):
        return {'mnem': mnem.encode('ascii').ljust(4), 'serv_id': b'VERIF ', 'serv_ord': b'GENERATE', 'units': units, 'api': 0, 'file_no': 1,
                'size': 4, 'samples': 1, 'rc': 68, 'bursts': 1, 'sub_channels': 1}
    if not case['indirect']:
        dsbs.append(dsb('DEPT', case['units']))
        cols.append([float(x) for x in xs])
    for c in case['curves']:
        dsbs.append(dsb(c['name'], b'    '))
        cols.append(shape_values(c['shape'], n, case['seedvals'], absent_of(case)))
    blocks = [{'type': 1, 'size': 1, 'rc': 66, 'value': 0}, {'type': 4, 'size': 1, 'rc': 66, 'value': 1 if case['up'] else 255},
              {'type': 12, 'size': 4, 'rc': 68, 'value': absent_of(case)}]
    if case['indirect']:
        blocks += [{'type': 8, 'size': 4, 'rc': 68, 'value': float(case['spacing'])}, {'type': 9, 'size': 4, 'rc': 65, 'value': case['units']},
                   {'type': 13, 'size': 1, 'rc': 66, 'value': 1}, {'type': 14, 'size': 4, 'rc': 65, 'value': case['units']},
                   {'type': 15, 'size': 1, 'rc': 66, 'value': 68}]
    frames = [[(68, [GL.ref_to68(col[f])]) for col in cols] for f in range(n)]
    per = case['per_record']
    per_record = [per] * (n // per) + ([n % per] if n % per else [])
    lp = {'indirect': case['indirect'], 'xs': {'up_down': 1 if case['up'] else 255, 'spacing': case['spacing'], 'x0': case['x0']},
          'depth_rc': 68, 'units': case['units'], 'blocks': blocks, 'dsbs': dsbs, 'frames': frames, 'per_record': per_record, 'data_type': 0}
    model_case = {'cfg': {'pr_len': case['pr_len'], 'rec_num': False, 'file_num': None, 'checksum': False, 'tif': 'none'},
                  'items': [('delim', GL.LR_FILE_HEAD), ('pass', lp), ('delim', GL.LR_FILE_TAIL)]}
    data, _model = GL.build_lis_file(model_case)
    outputs = {}
    first = 0 if case['indirect'] else 1
    for c, col in zip(case['curves'], cols[first:]):
        outputs[c['name']] = {'x_present': [float(x) for x, v in zip(xs, col) if v != absent_of(case)],
                              'x_absent': [float(x) for x, v in zip(xs, col) if v == absent_of(case)]}
    absent_info = {'plot_up': bool(case['up']), 'x_first': float(xs[0]), 'x_last': float(xs[-1]), 'outputs': outputs}
    return data, absent_info


def check_lis_plot(case, cc):
    c19 = _c19()
    data, absent_info = build_case(case)
    shapes = sorted(set(c['shape'] for c in case['curves']))
    for sh in shapes:
        cc.cls('genlis:shape-' + sh)
    cc.cls('genlis:implied-x', case['indirect'])
    cc.cls('genlis:absent-value-declared-other-than--999.25-and-held', absent_of(case) != NULL and any(c['shape'] in ('gaps', 'all-absent') for c in case['curves']))
    cc.cls('genlis:up-log', case['up'])
    plottable = any(c['shape'] != 'all-absent' for c in case['curves'])
    cc.sample({'format': case['format'], 'curves': case['curves'], 'frames': case['frames'], 'implied_x': case['indirect'], 'up': case['up'],
               'units': case['units']})
    with tempfile.TemporaryDirectory(prefix='vt_c19g_') as d:
        path = os.path.join(d, 'GEN.LIS')
        with open(path, 'wb') as f:
            f.write(data)
        os.makedirs(os.path.join(d, 'out'))
        api = case['frames'] % 3 == 0          # tdplotlogs -A: the API header on top of the log
        cc.cls('genlis:api-header', api)
        cc.cls('genlis:api-header-on-a-down-log', api and not case['up'])
        info, svgs, logged, err = c19.plot_lis_file(path, os.path.join(d, 'out'), [case['format']], api)
        if err is not None:
            cc.unexpected(err)
            return
        single_record = case['per_record'] >= case['frames']
        cc.cls('genlis:single-data-record', single_record)
        if single_record and info.lisFileCntr != 1 and not svgs and any("unsupported operand type(s) for //: 'float' and 'NoneType'" in m for m in logged):
            # known form: the frame spacing of a log pass is derived from the X values of two data records; with a single
            # data record it is None and Plot._loadFrameSet / LogPass.frameFromX divide by it
            cc.dev('lis-input-produces-plot', 'lis-route:single-data-record-log-pass-not-plotted',
                   'format %s, %d frames in one data record: PlotLogPasses gave up; logged: %s' % (case['format'], case['frames'], ' | '.join(logged[-2:])[:600]))
            return
        if info.lisFileCntr != 1:
            cc.dev('lis-input-produces-plot', 'plotlogs-reports-lis-failure', 'format %s: PlotLogPasses gave up on a generated file; logged: %s' % (
                case['format'], ' | '.join(logged[-3:])))
        if not svgs:
            cc.dev('lis-input-produces-plot', 'lis-route:no-plot-although-curves-match-format',
                   'generated file has channels %s of format %s but no SVG was written; logged: %s' % (
                       [c['name'] for c in case['curves']], case['format'], ' | '.join(logged[-2:])))
        points = 0
        for s in svgs:
            res = c19.check_svg(s, cc, absent_info, route='generated-lis-plot %s' % case['format'])
            cc.cls('genlis:svg-checked')
            if res:
                points += res['points']
                cc.cls('genlis:absent-output-checked', bool(res.get('absent_checked')))
        cc.cls('genlis:polyline-points>0', points > 0)
        cc.nt(bool(svgs) and plottable and len(shapes) >= 1)
        # ---- one Plot object used for two log passes (the entry points PlotReadXML.hasDataToPlotLIS / plotLogPassLIS directly):
        # first a log pass that has nothing the format plots, then this one - which must be plotted as if the object were new
        if svgs and plottable and not single_record and case['frames'] % 2 == 0:
            from TotalDepth.LIS.core import File, FileIndexer
            from TotalDepth.util.plot import Plot
            decoy = dict(case, curves=[dict(c, name='QQ%d' % i) for i, c in enumerate(case['curves'])])
            p2 = os.path.join(d, 'DECOY.LIS')
            with open(p2, 'wb') as f:
                f.write(build_case(decoy)[0])
            c19._silence()
            try:
                lps = []
                for pth in (p2, path):
                    fi = File.FileRead(pth, theFileId=pth, keepGoing=True)
                    lps.append((fi, next(FileIndexer.FileIndex(fi).genLogPasses()).logPass))
                plot = Plot.PlotReadXML(case['format'], 0)
                first = plot.hasDataToPlotLIS(lps[0][1], case['format'])
                second = plot.hasDataToPlotLIS(lps[1][1], case['format'])
                cc.cls('genlis:one-plot-object-for-two-log-passes')
                if first or not second:
                    cc.dev('lis-input-produces-plot', 'plot-object-reused:has-data-answer', 'format %s: hasDataToPlotLIS says %r for a log pass of channels %s and then %r for %s' % (
                        case['format'], first, [c['name'] for c in decoy['curves']], second, [c['name'] for c in case['curves']]))
                else:
                    out2 = os.path.join(d, 'reused.svg')
                    fi, lp = lps[1]
                    plot.plotLogPassLIS(fi, lp, lp.xAxisFirstEngVal, lp.xAxisLastEngVal, case['format'], out2, frameStep=1, title='reused')
                    c19.check_svg(out2, cc, absent_info, route='generated-lis-plot %s (plot object reused)' % case['format'])
            except Exception as err:  # noqa
                cc.unexpected(err)
            finally:
                c19._unsilence()


# ---------------------------------------------------------------------------------------------
# Part generated-film-pres-plot: the FILM and PRES tables of the file are generated too
# ---------------------------------------------------------------------------------------------
#: honour the documented meaning of STAT ("Status, is this curve to be plotted", docs/source/tech/plotting.rst; CurveCfg.stat
#: "True if can be plotted"): an output all of whose curves on a film are DISA has no polyline on that film
ASSERT_STAT = False   # C19 does not state what STAT=DISA means for a plot and the repository tests pin DISA curves as plotted: not judged

#: (GCOD, GDEC) pairs that FILMCfg.PhysFilmCfgLISRead documents for three track films: GCOD_GDEC_MAP, the "equivalent"
#: GCOD_GDEC_ALT_MAP, and the spellings with a blank fourth GDEC character that _retTracks repairs ("-4- " -> "-4--")
GRIDS_3TRACK = [(b'E20 ', b'-4--'), (b'E2E ', b'-1--'), (b'E2E ', b'-2--'), (b'E3E ', b'-3--'), (b'E4E ', b'-4--'), (b'EEE ', b'----'),
                (b'EEB ', b'----'), (b'EBE ', b'----'), (b'BBB ', b'----'),
                (b'EEE ', b'EEE-'), (b'EEB ', b'EEE-'), (b'EB0 ', b'----'), (b'E1E ', b'-4--'), (b'E40 ', b'-4--'),
                (b'E2E ', b'-2- '), (b'E2E ', b'-1- '), (b'E3E ', b'-3- '), (b'E4E ', b'-4- '), (b'E1E ', b'-4- '), (b'EEE ', b'--- '),
                (b'EEB ', b'--- '), (b'EB0 ', b'--- '), (b'EEE ', b'EEE ')]
#: the four track film of 200099.S07
GRID_4TRACK = (b'LLLL', b'1111')
#: the DSCA codes of FILMCfg.PhysFilmCfgLISRead.DSCA_MAP (four byte table cells) -> 1:scale
DSCA_SCALE = {b'D20 ': 20, b'D40 ': 40, b'D200': 200, b'D240': 240, b'S5  ': 240, b'D500': 500, b'S2  ': 600, b'DM  ': 1000}
DSCA_CODES = sorted(DSCA_SCALE)
#: film layout in inches from the left margin, as FILMCfg documents it (three tracks of 2.4 in with a 0.8 in depth track
#: between T1 and T2; "Four track. Depth 1in, 4 tracks at 1.75in")
_T3 = {'T1': (0.0, 2.4), 'TD': (2.4, 3.2), 'T2': (3.2, 5.6), 'T3': (5.6, 8.0), 'T23': (3.2, 8.0)}
for _k in ('T1', 'T2', 'T3'):
    _l, _r = _T3[_k]
    _T3['LH' + _k] = (_l, (_l + _r) / 2)
    _T3['RH' + _k] = ((_l + _r) / 2, _r)
TRACKS_3 = dict(_T3)
TRACKS_4 = {'FD': (0.0, 1.0), 'F1': (1.0, 2.75), 'F2': (2.75, 4.5), 'F3': (4.5, 6.25), 'F4': (6.25, 8.0)}
TRAC_CODES_3 = sorted(TRACKS_3)
TRAC_CODES_4 = sorted(TRACKS_4)
FILM_NAMES = [bytes([b]) for b in b'12345678ADEJK']
#: PRES.MODE -> allowed wrap counts (left, right), None = unlimited (PRESCfg.BACKUP_FROM_MODE_MAP and the comments of the
#: BACKUP_* constants); a MODE that the map does not know, or no MODE column, is documented to fall back to "every backup"
MODE_BACKUPS = {b'SHIF': (1, 1), b'GRAD': (0, 0), b'NB  ': (0, 0), b'WRAP': (None, None), b'X10 ': (None, None), None: (None, None)}
MODES = [b'SHIF', b'SHIF', b'GRAD', b'GRAD', b'NB  ', b'WRAP', b'WRAP', b'X10 ']
#: line codings of PRESCfg.LIS_CODI_MAP (the generator also writes the unknown b'XDOT' now and then: "assuming the default")
CODIS = [b'LLIN', b'LSPO', b'LDAS', b'LGAP', b'HLIN', b'HSPO', b'HDAS', b'HGAP']
COLOS = [b'BLAC', b'RED ', b'GREE', b'BLUE', b'AQUA', b'000 ', b'400 ', b'134 ', b'444 ']
CHANNEL_NAMES = ['GR', 'SP', 'CALI', 'ILD', 'ILM', 'SFLU', 'RHOB', 'NPHI', 'DT', 'TENS', 'LLD', 'MSFL']
LIN_EDGES = [(0.0, 150.0), (-80.0, 20.0), (0.45, -0.15), (1.95, 2.95), (140.0, 40.0), (5.0, 15.0), (0.0, 100.0), (20.0, 70.0), (42.5, 100.0),
             (0.0, 42.5), (100.0, 0.0), (0.0, 10.0), (-1e6, 1e6), (0.0, 1e-3), (1000.0, 0.0), (0.0, 1e30), (10.0, 15.0), (40.0, 45.0), (0.0, 5.0), (25.0, 20.0)]
LOG_EDGES = [(0.2, 2000.0), (2.0, 20000.0), (0.1, 1000.0), (1.0, 10.0), (2000.0, 200000.0), (2000.0, 0.2), (1.0, 100.0), (10.0, 1.0), (42.5, 4250.0),
             (1e-30, 1e30), (20.0, 70.0)]
X_INCHES = {b'FEET': 12.0, b'M   ': 1.0 / 0.0254, b'.1IN': 0.1}
PLOT_MARGIN_IN = 0.25


def ref_from68(w):
    """Reference decoder of representation code 68 (32 bit word -> float): 8 bit excess 128 exponent, 23 bit fraction, negative
    numbers with the fraction in two's and the exponent in one's complement."""
    e = (w >> 23) & 0xFF
    m = w & 0x7FFFFF
    if w >> 31:
        return -float((1 << 23) - m) / (1 << 23) * 2.0 ** ((255 - e) - 128)
    return float(m) / (1 << 23) * 2.0 ** (e - 128)


def as68(v):
    """The value a code 68 cell / channel holds when the independent encoder writes v."""
    v = float(v)
    if v != 0.0 and abs(v) < 1e-30:   # below the range of the code
        v = 0.0
    return ref_from68(GL.ref_to68(v))


def dest_films(dest, names):
    """Film names (MNEM of the FILM rows) that a PRES.DEST entry selects, as FILMCfg.FilmCfgLISRead.retAllFILMDestS documents:
    a film name, BOTH (exactly two films), ALL, NEIT (none), or the single characters of e.g. b'123 '."""
    d = dest.rstrip(b' \x00')
    if d in names:
        return [d]
    if d == b'BOTH' and len(names) == 2:
        return list(names)
    if d == b'ALL':
        return list(names)
    if d == b'NEIT':
        return []
    return [n for n in names if n in [bytes([b]) for b in d]]


def _pad4(b, pad=b' '):
    return (b + pad * 4)[:4]


def _one_in(draw, n):
    """True about once in n draws (a residue of a wide range: Hypothesis favours the ends of a narrow one)."""
    return draw(st.integers(0, 9999)) % n == 1


@st.composite
def film_pres_cases(draw):
    nfilms = draw(st.sampled_from([1, 1, 2, 2, 2, 3, 4]))
    names = draw(st.lists(st.sampled_from(FILM_NAMES), min_size=nfilms, max_size=nfilms, unique=True))
    films = []
    for nm in names:
        four = _one_in(draw, 5)
        gcod, gdec = GRID_4TRACK if four else draw(st.sampled_from(GRIDS_3TRACK))
        films.append({'name': nm, 'gcod': gcod, 'gdec': gdec, 'dsca': draw(st.sampled_from(DSCA_CODES)), 'four': four,
                      'pad': draw(st.sampled_from([b' ', b'\x00']))})
    nch = draw(st.integers(1, 5))
    chosen = draw(st.lists(st.sampled_from(CHANNEL_NAMES), min_size=nch, max_size=nch, unique=True))
    channels = [{'name': c, 'shape': draw(st.sampled_from(SHAPES)), 'units': draw(st.sampled_from([b'    ', b'GAPI', b'OHMM']))} for c in chosen]
    no_outp_col = _one_in(draw, 12)
    ncurves = draw(st.integers(1, 7))
    curves, used = [], set()
    for k in range(ncurves):
        ch = draw(st.integers(0, len(channels) - 1))
        missing = _one_in(draw, 8)
        outp = b'DUMM' if missing else _pad4(channels[ch]['name'].encode('ascii'))
        if no_outp_col:   # the curve is fed by the channel of the same name ("No OUTP entry ..., assuming same name as MNEM")
            mnem = outp
        else:
            mnem = _pad4(draw(st.sampled_from([b'C%d' % k, b'CV%d' % k, b'CRV%d' % k, outp.rstrip() if outp not in used else b'X%d' % k])))
        if mnem in used:
            continue
        used.add(mnem)
        # destination, then a track code that is legal on every film the destination selects
        kind = draw(st.integers(0, 9))
        if kind <= 3:
            dest = names[draw(st.integers(0, nfilms - 1))]
        elif kind <= 5:
            dest = b'BOTH' if nfilms == 2 else b'ALL'
        elif kind == 6:
            dest = b'ALL'
        elif kind == 7:
            dest = b'NEIT'
        else:   # several film names, e.g. b'134 ': some of them need not exist
            pool = sorted(names) if nfilms >= 2 and not _one_in(draw, 4) else sorted(set(names) | {b'9', b'3'})
            dest = b''.join(draw(st.lists(st.sampled_from(pool), min_size=2, max_size=min(3, len(pool)), unique=True)))
            if dest in (b'ALL', b'AL', b'LA'):
                dest = names[0]
        sel = dest_films(dest, names)
        fams = {f['four'] for f in films if f['name'] in sel}
        if len(fams) == 2:   # three and four track films have different track names: one film only
            dest = names[draw(st.integers(0, nfilms - 1))]
            sel = dest_films(dest, names)
            fams = {f['four'] for f in films if f['name'] in sel}
        four = (True in fams) if fams else draw(st.booleans())
        trac = draw(st.sampled_from(TRAC_CODES_4 if four else TRAC_CODES_3))
        mode = draw(st.sampled_from(MODES))
        if mode == b'GRAD':
            pair = draw(st.one_of(st.sampled_from(LOG_EDGES), st.tuples(st.floats(1e-3, 1e5), st.floats(1e-3, 1e5))))
        else:
            pair = draw(st.one_of(st.sampled_from(LIN_EDGES), st.tuples(st.floats(-1e4, 1e4), st.floats(-1e4, 1e4))))
        ledg, redg = as68(pair[0]), as68(pair[1])
        if draw(st.booleans()):
            ledg, redg = redg, ledg
        if ledg == redg:
            redg = as68(ledg * 2.0 + 1.0)
        curves.append({'mnem': mnem, 'outp': outp, 'stat': not _one_in(draw, 4), 'trac': _pad4(trac.encode('ascii')),
                       'codi': b'XDOT' if _one_in(draw, 20) else draw(st.sampled_from(CODIS)), 'dest': _pad4(dest), 'mode': mode, 'filt': draw(st.sampled_from([0.5, 1.0])),
                       'ledg': ledg, 'redg': redg, 'edge_units': draw(st.sampled_from([None, b'OHMM', b'GAPI'])),
                       'colo': draw(st.sampled_from(COLOS)), 'pad': draw(st.sampled_from([b' ', b'\x00']))})
    n = draw(st.integers(6, 60))
    units = draw(st.sampled_from([b'FEET', b'M   ', b'.1IN']))
    return {'films': films, 'channels': channels, 'curves': curves,
            'table': {'order': draw(st.sampled_from(['FP', 'PF'])), 'no_outp_col': no_outp_col, 'no_mode_col': _one_in(draw, 6),
                      'no_filt_col': _one_in(draw, 8), 'colo_col': _one_in(draw, 3),
                      'area': _one_in(draw, 4), 'pip': _one_in(draw, 4), 'cons': _one_in(draw, 4),
                      # corner tested on purpose: a curve without logical span (LEDG == REDG) is refused by CurveCfgLISRead and the
                      # table reader documents that it logs the curve and goes on
                      'no_span_curve': _one_in(draw, 25)},
            # the -s option of tdplotlogs: a scale that overrides DSCA of every film (0 = none)
            'scale_override': draw(st.sampled_from([25, 100, 200, 1000])) if _one_in(draw, 6) else 0,
            'frames': n, 'indirect': draw(st.booleans()), 'up': draw(st.booleans()), 'units': units,
            'spacing': {b'FEET': 0.5, b'M   ': 0.25, b'.1IN': 60}[units], 'x0': {b'FEET': 5000.5, b'M   ': 1000, b'.1IN': 600000}[units],
            'seedvals': draw(st.lists(st.integers(0, 1000), min_size=5, max_size=11)),
            'per_record': min(draw(st.sampled_from([5, 5, 7, 3, 16])), n - 1),   # >= 2 data records (known finding: one record)
            'pr_len': draw(st.sampled_from([1024, 8192, 200]))}


def _cell(v, u=None):
    return {'v': v, 'u': u}


def film_pres_tables(case):
    """The table models (vt.gen.lis.encode_table_lr) of a case, in file order."""
    films, curves, t = case['films'], case['curves'], case['table']
    film = {'lr_type': 34, 'name': b'FILM', 'columns': [b'MNEM', b'GCOD', b'GDEC', b'DEST', b'DSCA'],
            'rows': [[_cell(_pad4(f['name'], f['pad'])), _cell(f['gcod']), _cell(f['gdec']), _cell(_pad4(b'PF' + f['name'])), _cell(f['dsca'])]
                     for f in films]}
    cols = [b'MNEM', b'OUTP', b'STAT', b'TRAC', b'CODI', b'DEST', b'MODE', b'FILT', b'LEDG', b'REDG', b'COLO']
    drop = set()
    if t['no_outp_col']:
        drop.add(b'OUTP')
    if t['no_mode_col']:
        drop.add(b'MODE')
    if t['no_filt_col']:
        drop.add(b'FILT')
    if not t['colo_col']:
        drop.add(b'COLO')
    rows = []
    all_curves = list(curves)
    if t['no_span_curve']:
        all_curves.append({'mnem': b'NOSP', 'outp': b'NOSP' if t['no_outp_col'] else curves[0]['outp'] if curves else b'DUMM', 'stat': True,
                           'trac': b'F1  ' if films[0]['four'] else b'T1  ', 'codi': b'LLIN', 'dest': _pad4(films[0]['name']), 'mode': b'NB  ',
                           'filt': 0.5, 'ledg': 1.0, 'redg': 1.0, 'edge_units': None, 'colo': b'BLAC', 'pad': b' '})
    for c in all_curves:
        full = {b'MNEM': _cell(c['mnem'].rstrip(b' ').ljust(4, c['pad'])), b'OUTP': _cell(c['outp']), b'STAT': _cell(b'ALLO' if c['stat'] else b'DISA'),
                b'TRAC': _cell(c['trac']), b'CODI': _cell(c['codi']), b'DEST': _cell(c['dest']), b'MODE': _cell(c['mode']),
                b'FILT': _cell(float(c['filt'])), b'LEDG': _cell(float(c['ledg']), c['edge_units']), b'REDG': _cell(float(c['redg']), c['edge_units']),
                b'COLO': _cell(c['colo'])}
        rows.append([full[k] for k in cols if k not in drop])
    pres = {'lr_type': 34, 'name': b'PRES', 'columns': [k for k in cols if k not in drop], 'rows': rows}
    out = [film, pres] if t['order'] == 'FP' else [pres, film]
    if t['cons']:
        out.insert(1, {'lr_type': 34, 'name': b'CONS', 'columns': [b'MNEM', b'ALLO', b'PUNI', b'TUNI', b'VALU'],
                       'rows': [[_cell(b'WN  '), _cell(b'ALLO'), _cell(b'    '), _cell(b'    '), _cell(b'GENERATED 1 ')],
                                [_cell(b'BS  '), _cell(b'ALLO'), _cell(b'IN  '), _cell(b'IN  '), _cell(8.5, b'IN  ')]]})
    if t['area']:
        out.append({'lr_type': 34, 'name': b'AREA', 'columns': [b'MNEM', b'STAT', b'BEGI', b'END\x00', b'PATT', b'DEST'],
                    'rows': [[_cell(b'1\x00\x00\x00'), _cell(b'DISA'), _cell(b'Z1  '), _cell(b'Z1  '), _cell(b'BLAN'), _cell(b'NEIT')],
                             [_cell(b'2\x00\x00\x00'), _cell(b'ALLO'), _cell(b'GR  '), _cell(b'SP  '), _cell(b'GAS '), _cell(_pad4(films[0]['name']))]]})
    if t['pip']:
        out.append({'lr_type': 34, 'name': b'PIP ', 'columns': [b'MNEM', b'STAT', b'TRAC', b'OUTP', b'DEST', b'NUMB', b'INTE'],
                    'rows': [[_cell(b'1\x00\x00\x00'), _cell(b'DISA'), _cell(b'LETD'), _cell(b'DUMM'), _cell(b'NEIT'), _cell(b'OFF '), _cell(0.0)],
                             [_cell(b'ITT\x00'), _cell(b'ALLO'), _cell(b'RETD'), _cell(b'ITT '), _cell(_pad4(films[0]['name'])), _cell(b'OFF '),
                              _cell(0.001, b'S   ')]]})
    return out


def build_film_pres_case(case):
    """Returns (file bytes, absent_info for check_svg, model) - model: xs, values per channel name as the file holds them."""
    n = case['frames']
    sign = -1 if case['up'] else 1
    xs = [case['x0'] + sign * case['spacing'] * f for f in range(n)]
    dsbs, cols = [], []

    def dsb(mnem, units):
        return {'mnem': mnem.encode('ascii').ljust(4), 'serv_id': b'VERIF ', 'serv_ord': b'GENERATE', 'units': units, 'api': 0, 'file_no': 1,
                'size': 4, 'samples': 1, 'rc': 68, 'bursts': 1, 'sub_channels': 1}
    if not case['indirect']:
        dsbs.append(dsb('DEPT', case['units']))
        cols.append([float(x) for x in xs])
    for c in case['channels']:
        dsbs.append(dsb(c['name'], c['units']))
        cols.append(shape_values(c['shape'], n, case['seedvals'], absent_of(case)))
    blocks = [{'type': 1, 'size': 1, 'rc': 66, 'value': 0}, {'type': 4, 'size': 1, 'rc': 66, 'value': 1 if case['up'] else 255},
              {'type': 12, 'size': 4, 'rc': 68, 'value': absent_of(case)}]
    if case['indirect']:
        blocks += [{'type': 8, 'size': 4, 'rc': 68, 'value': float(case['spacing'])}, {'type': 9, 'size': 4, 'rc': 65, 'value': case['units']},
                   {'type': 13, 'size': 1, 'rc': 66, 'value': 1}, {'type': 14, 'size': 4, 'rc': 65, 'value': case['units']},
                   {'type': 15, 'size': 1, 'rc': 66, 'value': 68}]
    frames = [[(68, [GL.ref_to68(col[f])]) for col in cols] for f in range(n)]
    per = case['per_record']
    per_record = [per] * (n // per) + ([n % per] if n % per else [])
    lp = {'indirect': case['indirect'], 'xs': {'up_down': 1 if case['up'] else 255, 'spacing': case['spacing'], 'x0': case['x0']},
          'depth_rc': 68, 'units': case['units'], 'blocks': blocks, 'dsbs': dsbs, 'frames': frames, 'per_record': per_record, 'data_type': 0}
    items = [('delim', GL.LR_FILE_HEAD)] + [('table', t) for t in film_pres_tables(case)] + [('pass', lp), ('delim', GL.LR_FILE_TAIL)]
    model_case = {'cfg': {'pr_len': case['pr_len'], 'rec_num': False, 'file_num': None, 'checksum': False, 'tif': 'none'}, 'items': items}
    data, _model = GL.build_lis_file(model_case)
    first = 0 if case['indirect'] else 1
    outputs, values = {}, {}
    for c, col in zip(case['channels'], cols[first:]):
        held = [as68(v) for v in col]
        values[c['name']] = held
        outputs[c['name']] = {'x_present': [float(x) for x, v in zip(xs, held) if v != absent_of(case)],
                              'x_absent': [float(x) for x, v in zip(xs, held) if v == absent_of(case)]}
    absent_info = {'plot_up': bool(case['up']), 'x_first': float(xs[0]), 'x_last': float(xs[-1]), 'outputs': outputs}
    return data, absent_info, {'xs': [float(x) for x in xs], 'values': values, 'absent': absent_of(case)}


def scale_position(curve, v):
    """Reference for one sample on one curve: (kind, fraction) with kind
       'at'       on scale, fraction of the track width from the left edge
       'in-track' on scale, but so many wraps away (> 1e6) that the fraction is below double resolution of the SVG question
       'none'     no point: off scale by the back-up mode, or not positive on a logarithmic scale
       'unknown'  the normalised position is within 1e-9 of a whole number (a one ulp question which wrap it is)."""
    import math
    from fractions import Fraction
    L, R = curve['ledg'], curve['redg']
    if curve['mode'] == b'GRAD':
        if v <= 0.0:
            return 'none', None
        p = (math.log10(v) - math.log10(L)) / (math.log10(R) - math.log10(L))
        exact_edge = v == L or v == R
    else:
        p = float(Fraction(v) - Fraction(L)) / float(Fraction(R) - Fraction(L)) if abs(v) < 1e300 else (v - L) / (R - L)
        exact_edge = v == L or v == R
    if not math.isfinite(p):
        return 'unknown', None
    w = math.floor(p)
    near = abs(p - round(p)) < 1e-9 * (1.0 + abs(p))
    if exact_edge:
        w = 0 if v == L else 1
        p = float(w)
    elif near:
        return 'unknown', None
    left, right = MODE_BACKUPS[curve['mode']]
    if (w < 0 and left is not None and -w > left) or (w > 0 and right is not None and w > right):
        return 'none', None
    if abs(p) > 1e6:
        return 'in-track', None
    return 'at', p - w


def _read_plot(path):
    """Independent reading of one SVG: {'legend_rects': [(x, y, w, h)], 'outputs': {name: [[(x, y), ...], ...]}} in user units."""
    import collections
    import xml.etree.ElementTree as ET
    c19 = _c19()
    with open(path, 'rb') as f:
        raw = f.read()
    parser = ET.XMLParser(target=ET.TreeBuilder(insert_comments=True))
    parser.feed(raw)
    root = parser.close()
    rects, outputs, current = [], collections.OrderedDict(), None
    for e in c19._untransformed(root):
        if e.tag is ET.Comment:
            m = c19._RE_OUTPUT.search(e.text or '')
            if m:
                current = m.group(1).strip() if m.group(2) == 'START' else None
                if current is not None:
                    outputs.setdefault(current, [])
        elif e.tag == c19.SVG_NS + 'rect' and e.get('stroke') == 'blue':
            r = [c19._inches(e.get(k)) for k in ('x', 'y', 'width', 'height')]
            if None not in r:
                rects.append(tuple(r))
        elif e.tag == c19.SVG_NS + 'polyline':
            pts = []
            for tok in (e.get('points') or '').split():
                try:
                    a, b = tok.split(',')
                    pts.append((float(a), float(b)))
                except ValueError:
                    pass   # check_svg reports malformed points
            outputs.setdefault(current if current is not None else '?outside-output-section', []).append(pts)
    return {'legend_rects': rects, 'outputs': outputs}


X_TOL = 0.06    # one decimal in the polyline points
Y_TOL = 0.22    # one decimal in the points, three decimals of inches in y and height of the legend rectangles (samples are >= 0.57 apart)


def check_film_geometry(path, film, case, model, cc, route, absent_info=None):
    """Oracles on one film's SVG beyond check_svg:
       plot-depth==span/scale     the main pane (between the two legend boxes) is |X span| / DSCA scale deep
       curve-inside-its-track     every polyline vertex of an output lies inside the track of one of the curves the PRES table
                                  routes from that output to this film
       vertex==scale-position     a vertex at a sample depth is at the scale position of that sample on one of those curves (or on
                                  a track edge: interpolated crossings); a vertex between samples is on a track edge; every
                                  on-scale sample has its vertex
       disa-curve-not-plotted     an output whose curves on this film are all DISA has no polyline (ASSERT_STAT)
    """
    import bisect
    names = [f['name'] for f in case['films']]
    tracks = TRACKS_4 if film['four'] else TRACKS_3
    plot = _read_plot(path)
    rects = sorted(plot['legend_rects'], key=lambda r: r[1])
    if len(rects) != 2:
        cc.dev('plot-depth==span/scale', 'film-pres:legend-boxes-not-two', '%s: %d blue legend rectangles' % (route, len(rects)))
        return
    ptop, pbot = rects[0][1] + rects[0][3], rects[1][1]
    xs = model['xs']
    span_in = abs(xs[-1] - xs[0]) * X_INCHES[case['units']]
    scale = case.get('scale_override') or DSCA_SCALE[film['dsca']]
    want = span_in / scale * 96.0
    if abs((pbot - ptop) - want) > 0.16 + 1e-6 * want:   # three roundings to 0.001 in = 0.048 user units each
        cc.dev('plot-depth==span/scale', 'film-pres:plot-depth-differs-from-span-over-scale',
               '%s: main pane %.3f user units deep, X span %r %s at 1:%d is %.3f' % (
                   route, pbot - ptop, abs(xs[-1] - xs[0]), case['units'], scale, want))
        return
    cc.cls('filmpres:plot-depth-asserted')
    if absent_info is not None:
        n = _c19()._check_absent(cc, route, absent_info, plot['outputs'], (ptop, pbot))
        cc.cls('filmpres:absent-output-checked', bool(n))
    # curves of this film by output
    by_out = {}
    for c in case['curves']:
        if film['name'] in dest_films(c['dest'], names):
            code = c['trac'].decode('ascii').strip()
            if code not in tracks:
                raise engine.HarnessError('generator routed track %r to film %r' % (code, film))
            by_out.setdefault(c['outp'].decode('ascii').strip(), []).append((c, tracks[code]))

    def ux(inches):
        return (PLOT_MARGIN_IN + inches) * 96.0
    ys = []
    for x in xs:
        prop = (x - xs[0]) / (xs[-1] - xs[0])
        ys.append(pbot - (pbot - ptop) * prop if case['up'] else ptop + (pbot - ptop) * prop)
    order = sorted(range(len(ys)), key=lambda i: ys[i])
    ysorted = [ys[i] for i in order]
    for name, lines in plot['outputs'].items():
        npts = sum(len(p) for p in lines)
        if name not in by_out or name not in model['values']:
            if npts:
                cc.dev('curve-inside-its-track', 'film-pres:polyline-for-output-not-routed-to-film',
                       '%s: %d point(s) under output %r, which no PRES row sends to film %r (or which is no channel)' % (route, npts, name, film['name']))
            continue
        cvs = by_out[name]
        if ASSERT_STAT and npts and not any(c['stat'] for c, _t in cvs):
            cc.dev('disa-curve-not-plotted', 'film-pres:DISA-curve-plotted',
                   '%s: output %s feeds only STAT=DISA curves (%s) on film %r but has %d polyline(s) with %d points' % (
                       route, name, [c['mnem'] for c, _t in cvs], film['name'], len(lines), npts))
        vals = model['values'][name]
        # expectation per sample: allowed positions
        allowed = []   # per sample: (list of exact x, list of free intervals)
        for i, v in enumerate(vals):
            exact, free = [], []
            if v != model.get('absent', NULL):
                for c, (tl, tr) in cvs:
                    kind, frac = scale_position(c, v)
                    if kind == 'at' and c['mode'] != b'X10 ':
                        exact.append((ux(tl + frac * (tr - tl)), c))
                    elif kind in ('in-track', 'unknown') or (kind == 'at'):
                        free.append((ux(tl), ux(tr)))
            allowed.append((exact, free))
        edges = sorted({ux(t[0]) for _c, t in cvs} | {ux(t[1]) for _c, t in cvs})
        seen = set()   # (sample, curve mnem) that got its vertex
        bad = {'track': None, 'sample': None, 'between': None}
        nbad = {'track': 0, 'sample': 0, 'between': 0}
        for pts in lines:
            for px, py in pts:
                if not any(ux(tl) - X_TOL <= px <= ux(tr) + X_TOL for _c, (tl, tr) in cvs):
                    nbad['track'] += 1
                    bad['track'] = bad['track'] or (px, py)
                    continue
                on_edge = any(abs(px - e) <= X_TOL for e in edges)
                j = bisect.bisect_left(ysorted, py - Y_TOL)
                hit = False
                at_sample = False
                while j < len(ysorted) and ysorted[j] <= py + Y_TOL:
                    at_sample = True
                    i = order[j]
                    exact, free = allowed[i]
                    for xe, c in exact:
                        if abs(px - xe) <= X_TOL:
                            seen.add((i, c['mnem']))
                            hit = True
                    if any(a - X_TOL <= px <= b + X_TOL for a, b in free):
                        hit = True
                    j += 1
                if hit or on_edge:
                    continue
                k = 'sample' if at_sample else 'between'
                nbad[k] += 1
                bad[k] = bad[k] or (px, py)
        if bad['track'] is not None:
            cc.dev('curve-inside-its-track', 'film-pres:vertex-outside-the-track-of-its-curves',
                   '%s: output %s: %d vertex/vertices, first %r; tracks of its curves: %s' % (
                       route, name, nbad['track'], bad['track'], [(c['trac'], round(ux(t[0]), 1), round(ux(t[1]), 1)) for c, t in cvs]))
        if bad['sample'] is not None:
            cc.dev('vertex==scale-position', 'film-pres:vertex-at-sample-depth-not-at-scale-position',
                   '%s: output %s: %d vertex/vertices, first %r; curves %s' % (
                       route, name, nbad['sample'], bad['sample'], [(c['mnem'], c['trac'], c['mode'], c['ledg'], c['redg']) for c, _t in cvs]))
        if bad['between'] is not None:
            cc.dev('vertex==scale-position', 'film-pres:vertex-between-samples-not-on-a-track-edge',
                   '%s: output %s: %d vertex/vertices, first %r; track edges %s' % (route, name, nbad['between'], bad['between'], [round(e, 1) for e in edges]))
        # PlotLogs plots from LogPass.xAxisFirstEngVal to xAxisLastEngVal, which LogPass.setFrameSetChX turns into the frame
        # slice [first, last): the last frame is not loaded.  The property does not promise a point for it: not required.
        last = len(allowed) - 1
        # A DISA curve may be drawn (today) or not (STAT honoured): its positions are allowed, its vertices are not required.
        missing = [(i, c) for i, (exact, _f) in enumerate(allowed) for _xe, c in exact
                   if (i, c['mnem']) not in seen and i != last and (c['stat'] or not ASSERT_STAT)]
        cc.cls('filmpres:last-frame-not-drawn', any((last, c['mnem']) not in seen for _xe, c in allowed[last][0]))
        cc.cls('filmpres:last-frame-drawn', any((last, c['mnem']) in seen for _xe, c in allowed[last][0]))
        n_exact = sum(1 for e, _f in allowed[:-1] for _xe, c in e if c['stat'] or not ASSERT_STAT)
        cc.cls('filmpres:scale-positions-asserted', n_exact > 0)
        if missing:
            i, c = missing[0]
            cc.dev('vertex==scale-position', 'film-pres:on-scale-sample-without-vertex',
                   '%s: output %s curve %s (%s %s %r..%r): %d of %d on-scale samples have no vertex, first: sample %d value %r expected x=%.1f y=%.1f' % (
                       route, name, c['mnem'], c['trac'], c['mode'], c['ledg'], c['redg'], len(missing), n_exact, i, vals[i],
                       [xe for xe, cc_ in allowed[i][0] if cc_ is c][0], ys[i]))
    # outputs that must have been drawn at all are covered by 'on-scale-sample-without-vertex' only when the section exists
    for name, cvs in by_out.items():
        if name in model['values'] and name not in plot['outputs'] and any(c['stat'] or not ASSERT_STAT for c, _t in cvs):
            cc.dev('vertex==scale-position', 'film-pres:no-output-section-for-routed-channel',
                   '%s: channel %s is routed to film %r by %s but the SVG has no "Output %s" section' % (
                       route, name, film['name'], [c['mnem'] for c, _t in cvs], name))


def check_film_pres_plot(case, cc):
    import re
    c19 = _c19()
    if not case['curves']:
        cc.cls('filmpres:no-curve-left')
        return
    data, absent_info, model = build_film_pres_case(case)
    names = [f['name'] for f in case['films']]
    chan = {c['name']: c for c in case['channels']}
    t = case['table']
    # classes
    cc.cls('filmpres:films=%d' % len(names))
    for f in case['films']:
        cc.cls('filmpres:scale-1:%d' % DSCA_SCALE[f['dsca']])
        cc.cls('filmpres:grid-%s/%s' % (f['gcod'].decode().strip(), f['gdec'].decode().strip()))
        cc.cls('filmpres:four-track-film', f['four'])
    routed_curves = 0
    for c in case['curves']:
        sel = dest_films(c['dest'], names)
        code = c['trac'].decode().strip()
        if sel:
            routed_curves += 1
            cc.cls('filmpres:track-' + code)
            cc.cls('filmpres:half-track', code[:2] in ('LH', 'RH'))
            cc.cls('filmpres:mode-' + ('(no MODE column)' if t['no_mode_col'] else c['mode'].decode().strip()))
            cc.cls('filmpres:log-curve', c['mode'] == b'GRAD' and not t['no_mode_col'])
            cc.cls('filmpres:linear-curve', c['mode'] != b'GRAD' or t['no_mode_col'])
            cc.cls('filmpres:edges-reversed', c['ledg'] > c['redg'])
            cc.cls('filmpres:DISA-curve', not c['stat'])
            cc.cls('filmpres:curve-on-several-films', len(sel) > 1)
            name = c['outp'].decode().strip()
            cc.cls('filmpres:output-not-in-log-pass', name not in chan)
            if name in chan:
                sh = chan[name]['shape']
                cc.cls('filmpres:shape-' + sh)
                cc.cls('filmpres:nonpositive-on-log-curve', c['mode'] == b'GRAD' and not t['no_mode_col'] and sh in ('nonpositive', 'spikes', 'huge', 'wrapping'))
        d = c['dest'].rstrip(b' \x00')
        cc.cls('filmpres:dest-' + ('film-name' if d in names else d.decode() if d in (b'BOTH', b'ALL', b'NEIT') else 'several-names'))
    cc.cls('filmpres:film-with-several-curves', any(sum(1 for c in case['curves'] if f in dest_films(c['dest'], names)) >= 2 for f in names))
    cc.cls('filmpres:output-feeds-several-curves', len({c['outp'] for c in case['curves']}) < len(case['curves']))
    cc.cls('filmpres:implied-x', case['indirect'])
    cc.cls('filmpres:scale-override', bool(case.get('scale_override')))
    cc.cls('filmpres:unknown-CODI', any(c['codi'] == b'XDOT' for c in case['curves']))
    cc.cls('filmpres:up-log', case['up'])
    cc.cls('filmpres:units-' + case['units'].decode().strip())
    for k in ('no_outp_col', 'no_mode_col', 'no_filt_col', 'colo_col', 'area', 'pip', 'cons', 'no_span_curve'):
        cc.cls('filmpres:table-' + k, t[k])
    cc.cls('filmpres:PRES-before-FILM', t['order'] == 'PF')
    cc.sample({'films': [(f['name'], f['gcod'], f['gdec'], f['dsca']) for f in case['films']],
               'curves': [(c['mnem'], c['outp'], 'ALLO' if c['stat'] else 'DISA', c['trac'], c['dest'], c['mode'], c['ledg'], c['redg']) for c in case['curves']],
               'channels': [(c['name'], c['shape']) for c in case['channels']], 'frames': case['frames'], 'implied_x': case['indirect'],
               'up': case['up'], 'units': case['units']})
    if t['no_mode_col']:   # documented default b'WRAP', linear
        case = dict(case, curves=[dict(c, mode=None) for c in case['curves']])
    # which film must give a plot: an ALLO curve routed to it whose output is a channel with a present value
    must = {}
    for f in case['films']:
        must[f['name']] = [c['mnem'] for c in case['curves'] if c['stat'] and f['name'] in dest_films(c['dest'], names)
                           and c['outp'].decode().strip() in chan and chan[c['outp'].decode().strip()]['shape'] != 'all-absent']
    with tempfile.TemporaryDirectory(prefix='vt_c19f_') as d:
        path = os.path.join(d, 'GEN.LIS')
        with open(path, 'wb') as f:
            f.write(data)
        os.makedirs(os.path.join(d, 'out'))
        info, svgs, logged, err = c19.plot_lis_file(path, os.path.join(d, 'out'), [], False, case.get('scale_override', 0))
        if err is not None:
            cc.unexpected(err)
            return
        if info.lisFileCntr != 1:
            if t['no_span_curve'] and any('CbEngValRead.__format__' in m for m in logged):
                cc.dev('lis-input-produces-plot', 'film-pres:curve-without-span-aborts-the-file',
                       'a PRES row with LEDG == REDG: PlotLogPasses gave up on the whole file; logged: %s' % ' | '.join(logged[-2:])[:700])
            else:
                cc.dev('lis-input-produces-plot', 'plotlogs-reports-lis-failure',
                       'PlotLogPasses gave up on a generated file with FILM %s and %d PRES rows; logged: %s' % (
                           [(f['name'], f['gcod'], f['gdec'], f['dsca']) for f in case['films']], len(case['curves']), ' | '.join(logged[-3:])[:900]))
            return
        by_film = {}
        for s in svgs:
            m = re.search(r'GEN\.LIS_(\d{4})_(.*)\.svg$', os.path.basename(s))
            if not m or m.group(1) != '0000' or m.group(2).encode() not in names:
                cc.dev('lis-input-produces-plot', 'film-pres:svg-for-unknown-film-or-pass', 'wrote %s; films %s' % (os.path.basename(s), names))
                continue
            by_film[m.group(2).encode()] = s
        points = 0
        for f in case['films']:
            s = by_film.get(f['name'])
            cc.cls('filmpres:film-must-plot', bool(must[f['name']]))
            cc.cls('filmpres:film-without-plottable-curve', not must[f['name']])
            if s is None:
                if must[f['name']]:
                    cc.dev('lis-input-produces-plot', 'film-pres:no-plot-for-film-with-plottable-curve',
                           'film %r (%s %s %s) gets the ALLO curves %s whose outputs are channels with values, but no SVG was written; logged: %s' % (
                               f['name'], f['gcod'], f['gdec'], f['dsca'], must[f['name']], ' | '.join(logged[-2:])[:500]))
                continue
            route = 'generated-film-pres-plot film %s' % f['name'].decode()
            # check_svg finds the main pane from the vertical grid lines of the tracks; a film whose tracks are all blank (BBB)
            # has none, so its absent-value check is run here with the pane between the two legend boxes
            blank = f['gcod'] == b'BBB '
            res = c19.check_svg(s, cc, None if blank else absent_info, route=route)
            cc.cls('filmpres:svg-checked')
            if not res:
                continue
            points += res['points']
            cc.cls('filmpres:absent-output-checked', bool(res.get('absent_checked')))
            try:
                check_film_geometry(s, f, case, model, cc, route, absent_info if blank else None)
            except SyntaxError:   # ET.ParseError: check_svg has reported it
                pass
        cc.cls('filmpres:polyline-points>0', points > 0)
        cc.nt(bool(by_film) and routed_curves >= 1 and any(must.values()))


def parts(tier):
    return [HypPart('generated-lis-plot', lis_plot_cases(), check_lis_plot, 120, 3000),
            HypPart('generated-film-pres-plot', film_pres_cases(), check_film_pres_plot, 150, 4000)]
