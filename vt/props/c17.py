"""C17 - unit conversion is consistent: invertible, transitive, dimension-checked.

Oracles: the exact affine map ``(v - o1)*s1/s2 + o2`` in ``fractions.Fraction`` on the float constants of the
tables with the rounding bound of vt/ref/units.py (value oracle); the composed bounds for there-and-back, via a
third unit and identity (relations the statement names); array == element-wise (copy and in place); refusal:
``ExceptionUnitsDimension`` (OSDD) / the ``Units.ExceptionUnits`` family (LIS) and never a number.
"""
import bisect
import functools
import math

from hypothesis import strategies as st

from vt import engine
from vt.engine import EnumPart, HypPart
from vt.ref import units as ref

PID = 'C17'
LEVEL = 'exploration'
TECHNIQUE = 'exhaustive enumeration of unit pairs / triples + property-based testing (Hypothesis) against an exact rational reference'
LEVEL_TEXT = ('every ordered unit pair of every named OSDD dimension and every LIS category at a fixed value set against '
              'the exact rational map; unit triples sampled (quick) or complete (thorough); random values, arrays, '
              'refusals and EngVal operations by generated cases')
RULE = ('OSDD: every ordered pair (incl. a unit with itself) within each named dimension x values {0, +-1, +-pi, 1e-12, 1e12, '
        '-273.15}: convert, convert_function, there-and-back against Fraction reference; ordered triples per dimension x 2 values '
        '(every 113th, offset by seed, in quick; all 5.6 M in thorough): via == direct; one unit pair per ordered pair of named '
        'dimensions + random ones: refusal; Hypothesis: same-dimension triples (offset-bearing dimensions weighted) x values with '
        '|v| = 0 or in 1e-100..1e100; float64 arrays (0..3-d, contiguous or strided view) for convert_array / '
        'convert_array_inplace.  LIS: all pairs and triples per category x values, all cross-category unit pairs, unknown '
        'unit names, random values; EngVal + - += -= / comparisons getInUnits/convert/newEngValInUnits between units of one '
        'category, of two categories and unknown.  Non-trivial: pair of distinct units of which one has an offset or whose '
        'scales differ (a triple: its first two units); a refusal case; an array case with such a pair and >= 2 elements.  '
        'Distinct = distinct case.')
ASSUMPTIONS = [
    'the OSDD table is the static snapshot common/data/osdd_units.json (units.read_osdd_static_data); the on-line '
    'lookup path (units.slb_units) needs the network and is not exercised',
    'the 160 OSDD units with an empty dimension are not "of the same dimension": no conversion and no refusal is demanded of them',
    'values are 0 or 1e-100 <= |v| <= 1e100 so that no intermediate result leaves the normal IEEE range, outside which '
    'rounding is not relative; bound 4*eps*((|v|+|o1|)*|s1/s2| + |o2|) per conversion (derivation in vt/ref/units.py)',
    'identity (u -> u) is demanded within the same bound, not exactly: the statement says "within floating-point rounding"',
    'convert_array / convert_array_inplace document no refusal and none is demanded; arrays are float64',
    'LIS: the documented units error is taken as the Units.ExceptionUnits family (the docstring names '
    'ExceptionUnitsMissmatchedCategory, the code surfaces ExceptionUnitsNoUnitInCategory and tests/unit/test_LIS/'
    'test_core/TestEngVal.py pins that); the constants of the reference are read from the table through '
    'Units.retUnitConvert(u).mult / .offs',
    'EngVal: comparisons are only demanded to agree with the exact ordering when the exact difference exceeds the '
    'conversion bound; division by a converted value within 8 bounds of zero is not asserted; operands with equal units '
    'need no conversion and unknown equal units are therefore not a refusal case',
]
SHARDS = {'quick': 4, 'thorough': 16}
REQUIRED_CLASSES = {'osdd-pair-with-offset': 1, 'osdd-pair-scale-only': 1, 'osdd-identity': 1, 'osdd-triple': 1,
                    'osdd-cross-dimension': 1, 'array-offset-pair': 1, 'array-scale-pair': 1, 'array-strided-view': 1,
                    'lis-pair-with-offset': 1, 'lis-cross-category': 1, 'lis-unknown-unit': 1, 'lis-triple': 1,
                    'engval-converted': 1, 'engval-refusal': 1}
NEEDS_LIS_EXT = True

PI = math.pi
VALUES = [0.0, 1.0, -1.0, PI, -PI, 1e-12, 1e12, -273.15]
TRIPLE_VALUES = [1.0, -271.828]
QUICK_TRIPLE_STRIDE = 113


def _sut_exc(devs, oracle, err, what):
    if not engine.sut_frames(err):
        raise engine.HarnessError('exception outside the code under test in %s: %r' % (what, err)) from err
    devs.append((oracle, engine.exc_sig(err), '%s raised %r' % (what, err)))


# --------------------------------------------------------------------------------------------
# OSDD table
# --------------------------------------------------------------------------------------------
@functools.lru_cache(maxsize=1)
def osdd_ref():
    """(table, {dimension: [codes]}, [dimension names]) read from the JSON file, no TotalDepth involved."""
    table = ref.load_osdd(engine.REPO_SRC)
    dims = ref.by_dimension(table)
    return table, dims, sorted(dims)


@functools.lru_cache(maxsize=1)
def osdd_sut():
    from TotalDepth.common import units as U
    return U, U.read_osdd_static_data()


def osdd_table_devs():
    """The loader gives the table of the JSON file (names, dimensions, constants)."""
    table, _dims, _names = osdd_ref()
    U, sut = osdd_sut()
    devs = []
    if sorted(sut) != sorted(table):
        devs.append(('osdd-table==json', 'codes', 'loader has %d units, file %d' % (len(sut), len(table))))
        return devs
    for code in sorted(table):
        if tuple(sut[code]) != table[code] or not isinstance(sut[code], U.Unit):
            devs.append(('osdd-table==json', 'row', 'unit %r: %r file %r' % (code, tuple(sut[code]), table[code])))
            break
    return devs


def _so(table, code):
    row = table[code]
    return row[4], row[5]


def pair_kind(s1, o1, s2, o2):
    if o1 != 0 or o2 != 0:
        return 'with-offset'
    return 'scale-only' if s1 != s2 else 'same-constants'


def osdd_pair_devs(c1, c2, values):
    table, _d, _n = osdd_ref()
    U, sut = osdd_sut()
    devs = []
    u1, u2 = sut[c1], sut[c2]
    s1, o1 = _so(table, c1)
    s2, o2 = _so(table, c2)
    f = ref.ExactMap(s1, o1, s2, o2)
    kind = pair_kind(s1, o1, s2, o2)
    try:
        fn = U.convert_function(u1, u2)
    except Exception as err:  # noqa
        _sut_exc(devs, 'osdd-convert_function==exact', err, 'convert_function(%r, %r)' % (c1, c2))
        fn = None
    for v in values:
        want = f(v)
        b = ref.bound(v, s1, o1, s2, o2)
        try:
            y = U.convert(v, u1, u2)
        except Exception as err:  # noqa
            _sut_exc(devs, 'osdd-convert==exact', err, 'convert(%r, %r, %r)' % (v, c1, c2))
            break
        if not ref.within(y, want, b):
            devs.append(('osdd-convert==exact', 'value:' + kind, 'convert(%r, %r -> %r)=%r exact %r bound %g' % (
                v, c1, c2, y, float(want), b)))
            break
        if fn is not None:
            try:
                yf = fn(v)
            except Exception as err:  # noqa
                _sut_exc(devs, 'osdd-convert_function==exact', err, 'convert_function(%r, %r)(%r)' % (c1, c2, v))
                break
            if not ref.within(yf, want, b):
                devs.append(('osdd-convert_function==exact', 'value:' + kind,
                             'convert_function(%r -> %r)(%r)=%r exact %r bound %g' % (c1, c2, v, yf, float(want), b)))
                break
        try:
            z = U.convert(y, u2, u1)
        except Exception as err:  # noqa
            _sut_exc(devs, 'osdd-there-and-back', err, 'convert(%r, %r, %r)' % (y, c2, c1))
            break
        tb = ref.bound_there_and_back(v, y, s1, o1, s2, o2)
        if not (isinstance(z, float) and abs(z - v) <= tb):
            devs.append(('osdd-there-and-back', 'identity' if c1 == c2 else 'value:' + kind,
                         '%r %r -> %r -> back = %r (via %r) bound %g' % (v, c1, c2, z, y, tb)))
            break
    return devs


def osdd_triple_devs(c1, c2, c3, values):
    table, _d, _n = osdd_ref()
    U, sut = osdd_sut()
    u1, u2, u3 = sut[c1], sut[c2], sut[c3]
    s1, o1 = _so(table, c1)
    s2, o2 = _so(table, c2)
    s3, o3 = _so(table, c3)
    devs = []
    for v in values:
        try:
            d = U.convert(v, u1, u3)
            y = U.convert(v, u1, u2)
            w = U.convert(y, u2, u3)
        except Exception as err:  # noqa
            _sut_exc(devs, 'osdd-via-third==direct', err, 'convert %r %r->%r->%r' % (v, c1, c2, c3))
            break
        b = ref.bound_via(v, y, s1, o1, s2, o2, s3, o3)
        if not (isinstance(w, float) and isinstance(d, float) and abs(w - d) <= b):
            devs.append(('osdd-via-third==direct', 'value', '%r %r -> %r -> %r = %r, direct %r, bound %g' % (
                v, c1, c2, c3, w, d, b)))
            break
    return devs


def osdd_refusal_devs(c1, c2, v=1.0):
    U, sut = osdd_sut()
    devs = []
    import numpy as np
    for name, call in (('convert', lambda: U.convert(v, sut[c1], sut[c2])),
                       ('convert_function', lambda: U.convert_function(sut[c1], sut[c2])),
                       ('convert_array', lambda: U.convert_array(np.array([v, 2 * v]), sut[c1], sut[c2])),
                       ('convert_array_inplace', lambda: (lambda a: (U.convert_array_inplace(a, sut[c1], sut[c2]), a)[1])(np.array([v, 2 * v])))):
        try:
            got = call()
        except U.ExceptionUnitsDimension:
            continue
        except Exception as err:  # noqa
            _sut_exc(devs, 'osdd-refuses-cross-dimension', err, '%s(%r, %r)' % (name, c1, c2))
            continue
        devs.append(('osdd-refuses-cross-dimension', name + '-returned',
                     '%s %r (%s) -> %r (%s) returned %r' % (name, c1, sut[c1].dimension, c2, sut[c2].dimension, got)))
    return devs


def _nontrivial_pair(table, c1, c2):
    s1, o1 = _so(table, c1)
    s2, o2 = _so(table, c2)
    return c1 != c2 and (o1 != 0 or o2 != 0 or s1 != s2)


# -- enumeration helpers: flat index -> (dimension, i, j[, k]) -----------------------------
def _layout(power):
    _t, dims, names = osdd_ref()
    starts, total = [], 0
    for d in names:
        starts.append(total)
        total += len(dims[d]) ** power
    return starts, total


def _locate(t, starts, power):
    _t, dims, names = osdd_ref()
    di = bisect.bisect_right(starts, t) - 1
    codes = dims[names[di]]
    n = len(codes)
    rem = t - starts[di]
    idx = []
    for _ in range(power):
        rem, r = divmod(rem, n)
        idx.append(codes[r])
    return idx[::-1]


def run_osdd_pairs(ctx, part, tier, shard, nshards):
    table, _dims, _names = osdd_ref()
    if shard == 0:
        for o, s, d in osdd_table_devs():
            ctx.eval_case(part, {'table': True})
            break
    starts, total = _layout(2)
    evals = nontriv = 0
    counts = {}
    for t in range(shard, total, nshards):
        c1, c2 = _locate(t, starts, 2)
        if osdd_pair_devs(c1, c2, VALUES):
            ctx.eval_case(part, {'codes': [c1, c2], 'values': VALUES})
            continue
        evals += 1
        nontriv += _nontrivial_pair(table, c1, c2)
        k = 'osdd-identity' if c1 == c2 else 'osdd-pair-' + pair_kind(*(_so(table, c1) + _so(table, c2)))
        counts[k] = counts.get(k, 0) + 1
    ctx.bulk(part, evals, nontriv)
    for k, v in counts.items():
        ctx.classes[k] = ctx.classes.get(k, 0) + v
    if shard == 0:
        U, sut = osdd_sut()
        ctx.add_sample(part.name, {'codes': ['degC', 'degF'], 'value': 100.0,
                                   'converted': U.convert(100.0, sut['degC'], sut['degF'])})
        ctx.note('osdd_pairs_total', total)


def check_osdd_pairs(case, cc):
    if case.get('table'):
        for o, s, d in osdd_table_devs():
            cc.dev(o, s, d)
        return
    table, _d, _n = osdd_ref()
    c1, c2 = case['codes']
    for o, s, d in osdd_pair_devs(c1, c2, case['values']):
        cc.dev(o, s, d)
    cc.nt(_nontrivial_pair(table, c1, c2))
    cc.cls('osdd-identity' if c1 == c2 else 'osdd-pair-' + pair_kind(*(_so(table, c1) + _so(table, c2))))


def run_osdd_triples(ctx, part, tier, shard, nshards):
    table, _dims, _names = osdd_ref()
    starts, total = _layout(3)
    if tier == 'quick':
        K = QUICK_TRIPLE_STRIDE
        rng = range((ctx.seed * 7919) % K + shard * K, total, K * nshards)
    else:
        rng = range(shard, total, nshards)
    evals = nontriv = 0
    for t in rng:
        c1, c2, c3 = _locate(t, starts, 3)
        if osdd_triple_devs(c1, c2, c3, TRIPLE_VALUES):
            ctx.eval_case(part, {'codes': [c1, c2, c3], 'values': TRIPLE_VALUES})
            continue
        evals += 1
        nontriv += _nontrivial_pair(table, c1, c2)
    ctx.bulk(part, evals, nontriv, 'osdd-triple')
    if shard == 0:
        ctx.note('osdd_triples_total', total)
        ctx.note('osdd_triples_complete', tier != 'quick')


def check_osdd_triples(case, cc):
    table, _d, _n = osdd_ref()
    c1, c2, c3 = case['codes']
    for o, s, d in osdd_triple_devs(c1, c2, c3, case['values']):
        cc.dev(o, s, d)
    cc.nt(_nontrivial_pair(table, c1, c2))
    cc.cls('osdd-triple')


def run_osdd_cross(ctx, part, tier, shard, nshards):
    _table, dims, names = osdd_ref()
    evals = 0
    idx = 0
    for i, d1 in enumerate(names):
        for j, d2 in enumerate(names):
            if i == j:
                continue
            idx += 1
            if idx % nshards != shard:
                continue
            c1 = dims[d1][(ctx.seed + j) % len(dims[d1])]
            c2 = dims[d2][(ctx.seed + i) % len(dims[d2])]
            if osdd_refusal_devs(c1, c2):
                ctx.eval_case(part, {'codes': [c1, c2], 'v': 1.0})
            else:
                evals += 1
    ctx.bulk(part, evals, evals, 'osdd-cross-dimension')


def check_osdd_cross(case, cc):
    table, _d, _n = osdd_ref()
    c1, c2 = case['codes']
    d1, d2 = table[c1][3], table[c2][3]
    if not d1 or not d2 or d1 == d2:
        raise engine.HarnessError('not a cross-dimension case: %r' % (case,))
    for o, s, d in osdd_refusal_devs(c1, c2, case['v']):
        cc.dev(o, s, d)
    cc.nt(True)
    cc.cls('osdd-cross-dimension')


# -- generated values ----------------------------------------------------------------------
def _values():
    pos = st.one_of(st.floats(min_value=1e-100, max_value=1e100, allow_nan=False),
                    st.floats(min_value=1e-3, max_value=1e5, allow_nan=False),
                    st.floats(min_value=1e-100, max_value=1e-12, allow_nan=False),
                    st.floats(min_value=1e12, max_value=1e100, allow_nan=False))
    return st.one_of(pos, pos.map(lambda x: -x), st.sampled_from([0.0, 1.0, -1.0, 273.15, -273.15, 459.67, 32.0, -40.0, 1e100, -1e100, 1e-100]))


VALUE = _values()


def osdd_random_cases():
    table, dims, names = osdd_ref()
    offset_dims = sorted({table[c][3] for c in table if table[c][5] != 0 and table[c][3]})

    @st.composite
    def cases(draw):
        if draw(st.integers(0, 2)) == 0:
            d = draw(st.sampled_from(offset_dims))
            pool = [c for c in dims[d] if table[c][5] != 0]
            first = draw(st.sampled_from(pool))
            codes = [first, draw(st.sampled_from(dims[d])), draw(st.sampled_from(dims[d]))]
            codes = draw(st.permutations(codes))
        else:
            d = draw(st.sampled_from(names))
            codes = [draw(st.sampled_from(dims[d])) for _ in range(3)]
        return {'codes': list(codes), 'values': draw(st.lists(VALUE, min_size=1, max_size=3))}
    return cases()


def check_osdd_random(case, cc):
    table, _d, _n = osdd_ref()
    c1, c2, c3 = case['codes']
    vals = case['values']
    devs = osdd_pair_devs(c1, c2, vals) + osdd_pair_devs(c3, c3, vals) + osdd_triple_devs(c1, c2, c3, vals)
    for o, s, d in devs:
        cc.dev(o, s, d)
    cc.nt(_nontrivial_pair(table, c1, c2))
    cc.cls('osdd-identity')
    cc.cls('osdd-triple')
    if c1 != c2:
        cc.cls('osdd-pair-' + pair_kind(*(_so(table, c1) + _so(table, c2))))
    cc.cls('osdd-random-value-large', any(abs(v) >= 1e50 for v in vals))
    cc.cls('osdd-random-value-tiny', any(0 < abs(v) <= 1e-50 for v in vals))


def osdd_cross_cases():
    _table, dims, names = osdd_ref()

    @st.composite
    def cases(draw):
        i = draw(st.integers(0, len(names) - 1))
        j = (i + draw(st.integers(1, len(names) - 1))) % len(names)
        return {'codes': [draw(st.sampled_from(dims[names[i]])), draw(st.sampled_from(dims[names[j]]))], 'v': draw(VALUE)}
    return cases()


# -- arrays ------------------------------------------------------------------------------
def osdd_array_cases():
    table, dims, names = osdd_ref()
    offset_dims = sorted({table[c][3] for c in table if table[c][5] != 0 and table[c][3]})

    @st.composite
    def cases(draw):
        if draw(st.booleans()):
            d = draw(st.sampled_from(offset_dims))
            pool = [c for c in dims[d] if table[c][5] != 0]
            codes = [draw(st.sampled_from(pool)), draw(st.sampled_from(dims[d]))]
            if draw(st.booleans()):
                codes.reverse()
        else:
            d = draw(st.sampled_from(names))
            codes = [draw(st.sampled_from(dims[d])), draw(st.sampled_from(dims[d]))]
        shape = draw(st.lists(st.integers(0, 4), min_size=0, max_size=3))
        size = 1
        for n in shape:
            size *= n
        values = draw(st.lists(VALUE, min_size=size, max_size=size))
        return {'codes': codes, 'shape': shape, 'values': values, 'view': draw(st.booleans())}
    return cases()


SENTINEL = -12345.678


def check_osdd_array(case, cc):
    import numpy as np
    table, _d, _n = osdd_ref()
    U, sut = osdd_sut()
    c1, c2 = case['codes']
    shape, values = tuple(case['shape']), case['values']
    u1, u2 = sut[c1], sut[c2]
    s1, o1 = _so(table, c1)
    s2, o2 = _so(table, c2)
    f = ref.ExactMap(s1, o1, s2, o2)
    kind = pair_kind(s1, o1, s2, o2)
    strided = bool(case.get('view')) and len(shape) >= 1

    def make():
        a = np.array(values, dtype=np.float64).reshape(shape)
        if not strided:
            return None, a
        base = np.full(shape[:-1] + (2 * shape[-1],), SENTINEL, dtype=np.float64)
        view = base[..., ::2]
        view[...] = a
        return base, view
    wants = [f(v) for v in values]
    bounds = [ref.bound(v, s1, o1, s2, o2) for v in values]

    def elements(arr, oracle, what):
        flat = [float(x) for x in np.asarray(arr).reshape(-1)]
        if getattr(arr, 'shape', None) != shape or getattr(arr, 'dtype', None) != np.float64:
            cc.dev(oracle, 'shape-or-dtype', '%s: shape %r dtype %r expected %r float64' % (
                what, getattr(arr, 'shape', None), getattr(arr, 'dtype', None), shape))
            return None
        for i, (g, w, b) in enumerate(zip(flat, wants, bounds)):
            if not ref.within(g, w, b):
                cc.dev(oracle, 'element:' + kind, '%s %r -> %r element %d of %r: %r -> %r exact %r bound %g' % (
                    what, c1, c2, i, shape, values[i], g, float(w), b))
                return None
        return flat
    # copying route
    base, a = make()
    before = a.tobytes()
    try:
        out = U.convert_array(a, u1, u2)
    except Exception as err:  # noqa
        cc.unexpected(err, oracle='array-copy==elementwise')
        out = None
    flat_copy = None
    if out is not None:
        if a.tobytes() != before:
            cc.dev('array-copy-leaves-input', 'input-modified', 'convert_array %r -> %r changed its argument' % (c1, c2))
        if isinstance(out, np.ndarray) and out.size and np.shares_memory(out, a):
            cc.dev('array-copy-leaves-input', 'shares-memory', 'convert_array result shares memory with the argument')
        flat_copy = elements(out, 'array-copy==elementwise', 'convert_array')
    # element-wise scalar route, compared directly as the statement does
    if flat_copy is not None:
        for i, v in enumerate(values):
            try:
                y = U.convert(v, u1, u2)
            except Exception as err:  # noqa
                cc.unexpected(err, oracle='array-copy==scalar')
                break
            if not abs(flat_copy[i] - y) <= 2 * bounds[i]:
                cc.dev('array-copy==scalar', 'element:' + kind, 'element %d: array %r scalar %r bound %g' % (
                    i, flat_copy[i], y, 2 * bounds[i]))
                break
    # in place route
    base, b_arr = make()
    try:
        ret = U.convert_array_inplace(b_arr, u1, u2)
    except Exception as err:  # noqa
        cc.unexpected(err, oracle='array-inplace==elementwise')
    else:
        if ret is not None:
            cc.dev('array-inplace==elementwise', 'returned-something', 'convert_array_inplace returned %r' % (ret,))
        flat_in = elements(b_arr, 'array-inplace==elementwise', 'convert_array_inplace')
        if flat_in is not None and flat_copy is not None:
            for i, (x, y) in enumerate(zip(flat_in, flat_copy)):
                if not abs(x - y) <= 2 * bounds[i]:
                    cc.dev('array-inplace==copy', 'element:' + kind, 'element %d: in place %r copy %r' % (i, x, y))
                    break
        if base is not None and not bool(np.all(base[..., 1::2] == SENTINEL)):
            cc.dev('array-inplace==elementwise', 'touched-outside-view', 'elements outside the strided view were changed')
    # in place, arrays that are not native float64: big-endian doubles (what a file reader maps) - same arithmetic, same
    # bounds - and float32 (frame arrays of single precision channels), where every operation rounds to 24 bits
    if values:
        from fractions import Fraction
        for dt in ('>f8', 'float32'):
            arr = np.array(values, dtype=np.float64).reshape(shape).astype(dt)
            src = [float(x) for x in arr.reshape(-1)]
            if not all(math.isfinite(x) for x in src):
                continue        # a value beyond the range of single precision
            if dt == 'float32' and not all(Fraction(1, 10 ** 37) < abs(Fraction(q)) < Fraction(10) ** 37
                                           for q in (s1, s2, Fraction(s1) / Fraction(s2))):
                continue        # a scale factor beyond the range of single precision (numpy applies it in the array's precision)
            try:
                U.convert_array_inplace(arr, u1, u2)
            except Exception as err:  # noqa
                cc.unexpected(err, oracle='array-inplace==elementwise')
                break
            if arr.dtype != np.dtype(dt) or arr.shape != shape:
                cc.dev('array-inplace==elementwise', 'shape-or-dtype', 'in place on %s: now %r %r' % (dt, arr.dtype, arr.shape))
                break
            cc.cls('array-inplace-' + dt)
            for i, (v, g) in enumerate(zip(src, [float(x) for x in arr.reshape(-1)])):
                w = f(v)
                b = ref.bound(v, s1, o1, s2, o2)
                if dt == 'float32':
                    ratio = abs(Fraction(s1) / Fraction(s2))
                    b = float(b + Fraction(8, 2 ** 23) * (abs(w) + abs(Fraction(v)) * ratio + abs(Fraction(o1)) * ratio + abs(Fraction(o2))))
                    big = Fraction(10) ** 37
                    if not (abs(w) < big and abs(Fraction(v)) * ratio < big and abs(Fraction(v) - Fraction(o1)) * Fraction(s1) < big):
                        continue    # an intermediate beyond the range of single precision
                    if w != 0 and abs(w) < Fraction(1, 10 ** 37):
                        continue    # sub-normal in single precision
                if not ref.within(g, w, b):
                    cc.dev('array-inplace==elementwise', 'element:%s:%s' % (dt, kind), 'convert_array_inplace on %s %r -> %r element %d: %r -> %r exact %r bound %g' % (
                        dt, c1, c2, i, v, g, float(w), b))
                    break
    # the copying route with arrays of whole numbers (integer dtypes, as integer channels of a frame array have): the result
    # equals the element-wise scalar conversion, it is not cut back to whole numbers
    if values:
        for dt, lo, hi in (('int32', -2 ** 31, 2 ** 31 - 1), ('uint16', 0, 65535), ('int64', -2 ** 62, 2 ** 62)):
            ints = [max(lo, min(hi, int(v))) if abs(v) < 1e18 else (hi if v > 0 else lo) for v in values]
            arr = np.array(ints, dtype=dt).reshape(shape)
            try:
                out = U.convert_array(arr, u1, u2)
            except Exception as err:  # noqa
                cc.unexpected(err, oracle='array-copy==elementwise')
                break
            cc.cls('array-copy-of-' + dt)
            got = [float(x) for x in np.asarray(out).reshape(-1)]
            if len(got) != len(ints) or [int(x) for x in arr.reshape(-1)] != ints:
                cc.dev('array-copy==elementwise', 'integer-array:shape-or-input-changed', 'convert_array on %s: %d results for %d values' % (dt, len(got), len(ints)))
                break
            for i, (v, g) in enumerate(zip(ints, got)):
                w = f(float(v))
                b = ref.bound(float(v), s1, o1, s2, o2)
                if not ref.within(g, w, b):
                    cc.dev('array-copy==elementwise', 'element:%s:%s' % (dt, kind), 'convert_array on %s %r -> %r element %d: %r -> %r exact %r bound %g' % (
                        dt, c1, c2, i, v, g, float(w), b))
                    break
            # in place an array of whole numbers cannot hold the converted values: the call either refuses (numpy's casting
            # error) or - when every converted value is a whole number in range - leaves exactly those; never other numbers
            arr2 = np.array(ints, dtype=dt).reshape(shape)
            try:
                U.convert_array_inplace(arr2, u1, u2)
            except Exception:  # noqa
                cc.cls('array-inplace-integer-refused')
            else:
                cc.cls('array-inplace-integer-accepted')
                for i, (v, g) in enumerate(zip(ints, [float(x) for x in arr2.reshape(-1)])):
                    w = f(float(v))
                    b = ref.bound(float(v), s1, o1, s2, o2)
                    if not ref.within(g, w, b):
                        cc.dev('array-inplace==elementwise', 'integer-array-holds-other-numbers', 'convert_array_inplace on %s %r -> %r element %d: %r -> %r, exact %r' % (
                            dt, c1, c2, i, v, g, float(w)))
                        break
    n = len(values)
    cc.nt(_nontrivial_pair(table, c1, c2) and n >= 2)
    cc.cls('array-offset-pair', kind == 'with-offset' and n >= 1)
    cc.cls('array-scale-pair', kind == 'scale-only' and n >= 1)
    cc.cls('array-empty', n == 0)
    cc.cls('array-0d', len(shape) == 0)
    cc.cls('array-3d', len(shape) == 3 and n >= 1)
    cc.cls('array-strided-view', strided and n >= 1)
    cc.sample({'codes': [c1, c2], 'shape': list(shape), 'values': values[:6]})


# --------------------------------------------------------------------------------------------
# LIS table
# --------------------------------------------------------------------------------------------
@functools.lru_cache(maxsize=1)
def lis():
    """(Units module, {category: [unit names]}, {unit: (mult, offset)}, {unit: category}) - names sorted."""
    from TotalDepth.LIS.core import Units
    cats, consts, cat_of = {}, {}, {}
    for c in sorted(Units.unitCategories()):
        cats[c] = sorted(Units.units(c))
        for u in cats[c]:
            uc = Units.retUnitConvert(u)
            consts[u] = (uc.mult, 0.0 if uc.offs is None else uc.offs)
            cat_of[u] = c
    return Units, cats, consts, cat_of


def lis_pair_devs(u1, u2, values):
    Units, _cats, consts, _c = lis()
    devs = []
    s1, o1 = consts[u1]
    s2, o2 = consts[u2]
    f = ref.ExactMap(s1, o1, s2, o2)
    kind = pair_kind(s1, o1, s2, o2)
    for v in values:
        b = ref.bound(v, s1, o1, s2, o2)
        try:
            y = Units.convert(v, u1, u2)
        except Exception as err:  # noqa
            _sut_exc(devs, 'lis-convert==exact', err, 'convert(%r, %r, %r)' % (v, u1, u2))
            break
        if not ref.within(y, f(v), b):
            devs.append(('lis-convert==exact', 'value:' + kind, 'convert(%r, %r -> %r)=%r exact %r bound %g' % (
                v, u1, u2, y, float(f(v)), b)))
            break
        try:
            z = Units.convert(y, u2, u1)
        except Exception as err:  # noqa
            _sut_exc(devs, 'lis-there-and-back', err, 'convert(%r, %r, %r)' % (y, u2, u1))
            break
        tb = ref.bound_there_and_back(v, y, s1, o1, s2, o2)
        if not (isinstance(z, float) and abs(z - v) <= tb):
            devs.append(('lis-there-and-back', 'identity' if u1 == u2 else 'value:' + kind,
                         '%r %r -> %r -> back = %r (via %r) bound %g' % (v, u1, u2, z, y, tb)))
            break
    return devs


def lis_triple_devs(u1, u2, u3, values):
    Units, _cats, consts, _c = lis()
    devs = []
    s1, o1 = consts[u1]
    s2, o2 = consts[u2]
    s3, o3 = consts[u3]
    for v in values:
        try:
            d = Units.convert(v, u1, u3)
            y = Units.convert(v, u1, u2)
            w = Units.convert(y, u2, u3)
        except Exception as err:  # noqa
            _sut_exc(devs, 'lis-via-third==direct', err, 'convert %r %r->%r->%r' % (v, u1, u2, u3))
            break
        b = ref.bound_via(v, y, s1, o1, s2, o2, s3, o3)
        if not (isinstance(w, float) and isinstance(d, float) and abs(w - d) <= b):
            devs.append(('lis-via-third==direct', 'value', '%r %r -> %r -> %r = %r, direct %r, bound %g' % (
                v, u1, u2, u3, w, d, b)))
            break
    return devs


def lis_refusal_devs(u1, u2, v=1.0):
    """Returns (devs, name of the exception class seen)."""
    Units, _cats, _consts, _c = lis()
    devs = []
    try:
        got = Units.convert(v, u1, u2)
    except Units.ExceptionUnits as err:
        return devs, type(err).__name__
    except Exception as err:  # noqa
        _sut_exc(devs, 'lis-refuses', err, 'convert(%r, %r, %r)' % (v, u1, u2))
        return devs, type(err).__name__
    devs.append(('lis-refuses', 'returned-a-value', 'convert(%r, %r, %r) returned %r' % (v, u1, u2, got)))
    return devs, None


def _lis_nontrivial(u1, u2):
    _U, _cats, consts, _c = lis()
    return u1 != u2 and consts[u1] != consts[u2]


def run_lis_enum(ctx, part, tier, shard, nshards):
    _Units, cats, consts, _c = lis()
    evals = nontriv = triples = 0
    counts = {}
    idx = 0
    for c in sorted(cats):
        us = cats[c]
        for u1 in us:
            for u2 in us:
                idx += 1
                if idx % nshards != shard:
                    continue
                devs = lis_pair_devs(u1, u2, VALUES)
                if not devs:
                    for u3 in us:
                        devs = lis_triple_devs(u1, u2, u3, TRIPLE_VALUES)
                        if devs:
                            ctx.eval_case(part, {'units': [u1, u2, u3], 'values': VALUES})
                            break
                        triples += 1
                else:
                    ctx.eval_case(part, {'units': [u1, u2, u2], 'values': VALUES})
                if devs:
                    continue
                evals += 1
                nontriv += _lis_nontrivial(u1, u2)
                k = 'lis-identity' if u1 == u2 else 'lis-pair-' + pair_kind(*(consts[u1] + consts[u2]))
                counts[k] = counts.get(k, 0) + 1
    ctx.bulk(part, evals, nontriv)
    for k, v in counts.items():
        ctx.classes[k] = ctx.classes.get(k, 0) + v
    ctx.classes['lis-triple'] = ctx.classes.get('lis-triple', 0) + triples
    if shard == 0:
        ctx.note('lis_units', sum(len(v) for v in cats.values()))


def check_lis_same(case, cc):
    _Units, _cats, consts, cat_of = lis()
    u1, u2, u3 = case['units']
    if not (cat_of.get(u1) == cat_of.get(u2) == cat_of.get(u3)) or u1 not in cat_of:
        raise engine.HarnessError('not a same-category case: %r' % (case,))
    vals = case['values']
    for o, s, d in lis_pair_devs(u1, u2, vals) + lis_pair_devs(u3, u3, vals) + lis_triple_devs(u1, u2, u3, vals[:3]):
        cc.dev(o, s, d)
    cc.nt(_lis_nontrivial(u1, u2))
    cc.cls('lis-triple')
    cc.cls('lis-identity')
    if u1 != u2:
        cc.cls('lis-pair-' + pair_kind(*(consts[u1] + consts[u2])))


def run_lis_cross(ctx, part, tier, shard, nshards):
    _Units, cats, _consts, cat_of = lis()
    units = sorted(cat_of)
    evals = 0
    seen = {}
    idx = 0
    for u1 in units:
        for u2 in units:
            if cat_of[u1] == cat_of[u2]:
                continue
            idx += 1
            if idx % nshards != shard:
                continue
            devs, name = lis_refusal_devs(u1, u2)
            if devs:
                ctx.eval_case(part, {'units': [u1, u2], 'v': 1.0})
            else:
                evals += 1
                seen[name] = seen.get(name, 0) + 1
    ctx.bulk(part, evals, evals, 'lis-cross-category')
    for k, v in seen.items():
        ctx.classes['lis-refusal-raised-' + k] = ctx.classes.get('lis-refusal-raised-' + k, 0) + v


def check_lis_refusal(case, cc):
    _Units, _cats, _consts, cat_of = lis()
    u1, u2 = case['units']
    known = u1 in cat_of and u2 in cat_of
    if known and cat_of[u1] == cat_of[u2]:
        raise engine.HarnessError('not a refusal case: %r' % (case,))
    devs, name = lis_refusal_devs(u1, u2, case['v'])
    for o, s, d in devs:
        cc.dev(o, s, d)
    cc.nt(True)
    cc.cls('lis-cross-category', known)
    cc.cls('lis-unknown-unit', not known)
    cc.cls('lis-unknown-both', u1 not in cat_of and u2 not in cat_of)
    if name:
        cc.cls('lis-refusal-raised-' + name)


def lis_unknown_cases():
    _Units, _cats, _consts, cat_of = lis()
    known = sorted(cat_of)
    alphabet = b'ABCDEFGHIJKLMNOPQRSTUVWXYZ0123456789 ./-%'
    raw = st.one_of(
        st.lists(st.sampled_from(list(alphabet)), min_size=4, max_size=4).map(bytes),
        st.binary(min_size=0, max_size=6),
        st.sampled_from(known).map(lambda u: u.lower()),
        st.sampled_from(known).map(lambda u: u.rstrip()),
        st.sampled_from(known).map(lambda u: u[:3] + b'\x00'),
    )

    @st.composite
    def cases(draw):
        unk = draw(raw)
        if unk in cat_of:  # made unknown by construction
            unk = unk + b'?'
        other = draw(st.sampled_from(known)) if draw(st.integers(0, 2)) else draw(raw)  # (one_of would flatten raw)
        if other in cat_of and draw(st.integers(0, 5)) == 0:
            other = unk  # the same unknown name twice
        pair = [unk, other]
        if draw(st.booleans()):
            pair.reverse()
        return {'units': pair, 'v': draw(VALUE)}
    return cases()


def lis_cross_cases():
    _Units, cats, _consts, _cat_of = lis()
    names = sorted(cats)

    @st.composite
    def cases(draw):
        i = draw(st.integers(0, len(names) - 1))
        j = (i + draw(st.integers(1, len(names) - 1))) % len(names)
        return {'units': [draw(st.sampled_from(cats[names[i]])), draw(st.sampled_from(cats[names[j]]))], 'v': draw(VALUE)}
    return cases()


def lis_same_cases():
    _Units, cats, consts, _cat_of = lis()
    names = sorted(cats)
    offset_cats = sorted(c for c in names if any(consts[u][1] != 0 for u in cats[c]))

    @st.composite
    def cases(draw):
        c = draw(st.sampled_from(offset_cats if draw(st.integers(0, 2)) == 0 else names))
        return {'units': [draw(st.sampled_from(cats[c])) for _ in range(3)],
                'values': draw(st.lists(VALUE, min_size=1, max_size=3))}
    return cases()


# --------------------------------------------------------------------------------------------
# EngVal
# --------------------------------------------------------------------------------------------
ARITH = ['add', 'sub', 'iadd', 'isub', 'div']
COMPARE = ['lt', 'le', 'gt', 'ge', 'eq', 'ne']
CONVERT = ['getInUnits', 'convert', 'newEngValInUnits']
PY_COMPARE = {'lt': lambda a, c: a < c, 'le': lambda a, c: a <= c, 'gt': lambda a, c: a > c,
              'ge': lambda a, c: a >= c, 'eq': lambda a, c: a == c, 'ne': lambda a, c: a != c}


def engval_cases():
    _Units, cats, consts, cat_of = lis()
    names = sorted(cats)
    known = sorted(cat_of)
    offset_cats = sorted(c for c in names if any(consts[u][1] != 0 for u in cats[c]))

    @st.composite
    def cases(draw):
        mode = draw(st.integers(0, 9))
        if mode <= 6:
            c = draw(st.sampled_from(offset_cats if draw(st.integers(0, 2)) == 0 else names))
            ua, ub = draw(st.sampled_from(cats[c])), draw(st.sampled_from(cats[c]))
        elif mode <= 8:
            i = draw(st.integers(0, len(names) - 1))
            j = (i + draw(st.integers(1, len(names) - 1))) % len(names)
            ua, ub = draw(st.sampled_from(cats[names[i]])), draw(st.sampled_from(cats[names[j]]))
        else:
            ua = draw(st.sampled_from(known))
            ub = bytes(draw(st.lists(st.sampled_from(list(b'QXZJ_')), min_size=4, max_size=4)))
            if draw(st.booleans()):
                ua, ub = ub, ua
        op = draw(st.sampled_from(ARITH + COMPARE + CONVERT))
        case = {'op': op, 'ua': ua, 'ub': ub, 'b': draw(VALUE)}
        if draw(st.integers(0, 2)) == 0:
            case['a'] = None  # a is placed next to the converted b
            case['a_rel'] = draw(st.sampled_from([0.0, 1e-9, -1e-9, 1e-6, -1e-6, 1e-3, -0.5]))
        else:
            case['a'] = draw(VALUE)
        return case
    return cases()


def check_engval(case, cc):
    from TotalDepth.LIS.core import EngVal as EV
    Units, _cats, consts, cat_of = lis()
    op, ua, ub, b = case['op'], case['ua'], case['ub'], case['b']
    same_cat = ua in cat_of and ub in cat_of and cat_of[ua] == cat_of[ub]
    if not same_cat and ua == ub:
        raise engine.HarnessError('equal unknown units are not a refusal case')
    if same_cat:
        sb, ob = consts[ub]
        sa, oa = consts[ua]
        c = ref.ExactMap(sb, ob, sa, oa)(b)      # b expressed in the units of a, exact
        B = ref.bound(b, sb, ob, sa, oa)
        a = case['a'] if case.get('a') is not None else float(c) * (1.0 + case.get('a_rel', 0.0))
    else:
        c = B = None
        a = case['a'] if case.get('a') is not None else 1.0
    if op == 'div' and ub == b'    ':
        # documented: a DIMENSIONLESS denominator is treated as a real number and the units of x are kept - no
        # conversion and no refusal whatever the category of x
        cc.cls('engval-div-by-dimensionless-skipped')
        return
    if same_cat and op == 'div':
        # x / y divides by the converted value of y: outside the statement when that is zero or lost in rounding
        if abs(c) <= 8 * B or a == 0.0:
            cc.cls('engval-div-near-zero-skipped')
            return
    x, y = EV.EngVal(a, ua), EV.EngVal(b, ub)
    what = 'EngVal(%r, %r) %s EngVal(%r, %r)' % (a, ua, op, b, ub)

    def run():
        if op == 'add':
            return x + y
        if op == 'sub':
            return x - y
        if op == 'iadd':
            z = x
            z += y
            return z
        if op == 'isub':
            z = x
            z -= y
            return z
        if op == 'div':
            return x / y
        if op in PY_COMPARE:
            return PY_COMPARE[op](x, y)
        if op == 'getInUnits':
            return y.getInUnits(ua)
        if op == 'convert':
            return y.convert(ua)
        return y.newEngValInUnits(ua)
    try:
        got = run()
        raised = None
    except Units.ExceptionUnits as err:
        got, raised = None, err
    except Exception as err:  # noqa
        cc.unexpected(err, oracle='engval-' + ('refuses' if not same_cat else 'operation'))
        return
    cc.cls('engval-refusal', not same_cat)
    cc.cls('engval-converted', same_cat and ua != ub)
    cc.cls('engval-op-' + op)
    cc.nt(not same_cat or consts[ua] != consts[ub])
    if not same_cat:
        if raised is None:
            cc.dev('engval-refuses', 'returned-a-value', '%s returned %r' % (what, got))
        elif (x.value, x.uom, y.value, y.uom) != (a, ua, b, ub):
            cc.dev('engval-refuses', 'operand-changed-by-refused-operation', what)
        return
    if raised is not None:
        cc.dev('engval-operation', 'refused-same-category', '%s raised %r' % (what, raised))
        return
    fa = ref.Fraction(a)
    if op in ('add', 'sub', 'iadd', 'isub'):
        want = fa + c if op in ('add', 'iadd') else fa - c
        tol = B + ref.EPS * (abs(a) + abs(float(c)))
        if not isinstance(got, EV.EngVal) or got.uom != ua or not ref.within(got.value, want, tol):
            cc.dev('engval-sum==exact', op, '%s = %s expected %r (%r) tol %g' % (what, got, float(want), ua, tol))
        if op in ('iadd', 'isub') and got is not x:
            cc.dev('engval-sum==exact', op + '-not-in-place', what)
        if op in ('add', 'sub') and (x.value, x.uom) != (a, ua):
            cc.dev('engval-sum==exact', op + '-changed-left-operand', what)
        if (y.value, y.uom) != (b, ub):
            cc.dev('engval-sum==exact', op + '-changed-right-operand', what)
    elif op == 'div':
        want = fa / c
        ac = abs(float(c))
        tol = abs(a) * B / (ac * (ac - B)) + 2 * ref.EPS * abs(float(want)) + ref.TINY
        if not isinstance(got, EV.EngVal) or not (got.uom == EV.DIMENSIONLESS) or not ref.within(got.value, want, tol):
            cc.dev('engval-ratio==exact', 'div', '%s = %s expected %r dimensionless tol %g' % (what, got, float(want), tol))
    elif op in PY_COMPARE:
        if not isinstance(got, bool):
            cc.dev('engval-compare==exact-order', 'not-bool', '%s = %r' % (what, got))
        elif abs(fa - c) > ref.Fraction(B):
            cc.cls('engval-compare-decided')
            if got != PY_COMPARE[op](fa, c):
                cc.dev('engval-compare==exact-order', op, '%s = %r but a - b_converted = %r, bound %g' % (
                    what, got, float(fa - c), B))
        else:
            cc.cls('engval-compare-within-rounding')
    else:
        if op == 'getInUnits':
            val, ok = got, True
        elif op == 'convert':
            val, ok = y.value, got is None and y.uom == ua
        else:
            val = getattr(got, 'value', None)
            ok = isinstance(got, EV.EngVal) and got.uom == ua and (y.value, y.uom) == (b, ub) and got is not y
        if not ok or not ref.within(val if isinstance(val, float) else None, c, B):
            cc.dev('engval-convert==exact', op, '%s gave %r expected %r (%r) bound %g' % (what, val, float(c), ua, B))


# --------------------------------------------------------------------------------------------
# --------------------------------------------------------------------------------------------
# EngVal histories: one object, a sequence of conversions and in-place changes; after every step the object (and what
# it returns) must agree with a model that keeps (value, unit) and converts with the exact affine reference
def engval_histories():
    _Units, cats, consts, _cat_of = lis()
    names = sorted(c for c in cats if len(cats[c]) >= 2)

    @st.composite
    def cases(draw):
        c = draw(st.sampled_from(names))
        units = cats[c]
        ops = []
        for _ in range(draw(st.integers(2, 8))):
            k = draw(st.sampled_from(['get', 'get', 'iadd', 'isub', 'imul', 'set', 'convert', 'new', 'cmp']))
            if k in ('get', 'convert', 'new', 'cmp'):
                ops.append({'k': k, 'u': draw(st.sampled_from(units))})
            elif k == 'imul':
                ops.append({'k': k, 'x': draw(st.sampled_from([2.0, 0.5, -1.0, 10.0]))})
            else:
                ops.append({'k': k, 'x': draw(st.sampled_from([1.0, -2.5, 100.0, 0.125]))})
        return {'cat': c, 'u0': draw(st.sampled_from(units)), 'v0': draw(st.sampled_from([0.0, 1.0, -3.5, 12.0, 1000.0])), 'ops': ops}
    return cases()


def check_engval_history(case, cc):
    from fractions import Fraction
    from TotalDepth.LIS.core import EngVal as EV
    _Units, _cats, consts, _cat_of = lis()

    def conv(v, u1, u2):
        (s1, o1), (s2, o2) = consts[u1], consts[u2]
        return float((Fraction(v) - Fraction(o1)) * Fraction(s1) / Fraction(s2) + Fraction(o2)) if u1 != u2 else v

    def close(a, b):
        return abs(a - b) <= 1e-9 * (abs(a) + abs(b)) + 1e-9

    ev = EV.EngVal(case['v0'], case['u0'])
    mv, mu = case['v0'], case['u0']
    mutated_after_get = False
    got_units = set()
    for i, op in enumerate(case['ops']):
        k = op['k']
        if k == 'get':
            r = ev.getInUnits(op['u'])
            e = conv(mv, mu, op['u'])
            if not close(r, e):
                cc.dev('engval-history', 'getInUnits-after-history', 'step %d of %r: getInUnits(%r)=%r, model %r (value %r %r)' % (i, case['ops'], op['u'], r, e, mv, mu))
                return
            if op['u'] in got_units and mutated_after_get:
                cc.nt(True)
                cc.cls('engval-history:get-mutate-get')
            got_units.add(op['u'])
        elif k == 'new':
            r = ev.newEngValInUnits(op['u'])
            if not close(r.value, conv(mv, mu, op['u'])) or r.uom != op['u']:
                cc.dev('engval-history', 'newEngValInUnits-after-history', 'step %d of %r' % (i, case['ops']))
                return
        elif k == 'cmp':
            other = EV.EngVal(conv(mv, mu, op['u']) + 1.0 + abs(conv(mv, mu, op['u'])) * 1e-3, op['u'])
            same = EV.EngVal(conv(mv, mu, op['u']), op['u'])
            if not (ev < other) or (ev > other):
                cc.dev('engval-history', 'comparison-after-history', 'step %d of %r: %r < %r is False' % (i, case['ops'], (mv, mu), (other.value, other.uom)))
                return
        elif k == 'convert':
            ev.convert(op['u'])
            mv, mu = conv(mv, mu, op['u']), op['u']
            got_units = set()
        elif k == 'iadd':
            ev += op['x']
            mv += op['x']
            mutated_after_get = bool(got_units)
        elif k == 'isub':
            ev -= op['x']
            mv -= op['x']
            mutated_after_get = bool(got_units)
        elif k == 'imul':
            ev *= op['x']
            mv *= op['x']
            mutated_after_get = bool(got_units)
        elif k == 'set':
            ev.value = op['x']
            mv = op['x']
            mutated_after_get = bool(got_units)
        if not close(ev.value, mv) or ev.uom != mu:
            cc.dev('engval-history', 'state-after-history', 'step %d of %r: object holds (%r, %r), model (%r, %r)' % (i, case['ops'], ev.value, ev.uom, mv, mu))
            return
    cc.cls('engval-history')


def parts(tier):
    return [
        HypPart('engval-history', engval_histories(), check_engval_history, 1200, 24000),
        EnumPart('osdd-pairs', run_osdd_pairs, check_osdd_pairs),
        EnumPart('osdd-triples', run_osdd_triples, check_osdd_triples),
        EnumPart('osdd-cross-dimension', run_osdd_cross, check_osdd_cross),
        EnumPart('lis-exhaustive', run_lis_enum, check_lis_same),
        EnumPart('lis-cross-category', run_lis_cross, check_lis_refusal),
        HypPart('osdd-random', osdd_random_cases(), check_osdd_random, 2400, 60000),
        HypPart('osdd-cross-random', osdd_cross_cases(), check_osdd_cross, 800, 16000),
        HypPart('osdd-arrays', osdd_array_cases(), check_osdd_array, 2000, 48000),
        HypPart('lis-random', lis_same_cases(), check_lis_same, 1600, 32000),
        HypPart('lis-cross-random', lis_cross_cases(), check_lis_refusal, 400, 8000),
        HypPart('lis-unknown', lis_unknown_cases(), check_lis_refusal, 1200, 24000),
        HypPart('engval', engval_cases(), check_engval, 3200, 64000),
    ]


def exhaustive_note(tier, total):
    subs = ['OSDD: every ordered unit pair within each of the named dimensions (77 225 pairs) x %d values' % len(VALUES),
            'OSDD: one unit pair for every ordered pair of distinct named dimensions (refusal)',
            'LIS: every ordered pair and triple of units within each category; every ordered pair of units of different categories']
    if tier != 'quick':
        subs.append('OSDD: every ordered unit triple within each named dimension (5.6 M) x %d values' % len(TRIPLE_VALUES))
    return {'exhaustive': False, 'exhaustive_subdomains': subs}


RULE += '  Added after the seeding rounds: part engval-history (convert / change in place / convert again on one EngVal); in-place conversion of big-endian double and float32 arrays; the refusal clause is asserted for convert_array and convert_array_inplace too.'
