"""C20 - file type identification recognises every supported format and never crashes.

(a) every valid file produced by the generators of the other properties is identified as its own format;
(b) for arbitrary byte strings (random, truncations, mutations and splices of valid files) identification terminates,
returns a documented code or '', raises nothing and leaves the file readable from the start;
(c) thorough tier: coverage guided fuzzing of binary_file_type with atheris/libFuzzer (vt/fuzz/c20_atheris.py).
"""
import io
import os
import signal
import subprocess
import sys
import time

from hypothesis import strategies as st

from vt import engine
from vt.engine import EnumPart, HypPart
from vt.gen import bit as GB
from vt.gen import dat as GD
from vt.gen import dlis as GR
from vt.gen import dlis_logical as GRL
from vt.gen import las as GA
from vt.gen import lis as GL

PID = 'C20'
LEVEL = 'exploration'
NEEDS_LIS_EXT = True
ENGINE = 'hypothesis + atheris'
TECHNIQUE = 'property-based testing (Hypothesis) with valid-file generators and fault injection (truncation / mutation / splice) + coverage guided fuzzing (atheris/libFuzzer) of the totality contract'
LEVEL_TEXT = ('valid files of every format from the independent generators must be identified as their own format; arbitrary, '
              'truncated, mutated and spliced inputs must give a documented code or the empty string without an exception, '
              'within a watchdog, leaving the file object at offset 0 with its content intact; the thorough tier adds a '
              'coverage guided campaign from an empty corpus and from a corpus of small valid files')
RULE = ('valid: RP66V1 (vt.gen.dlis, any label/layout), LIS plain / TIF / reversed TIF (vt.gen.lis, first record a reel, tape or file '
        'header), LAS 1.2 / 2.0 in any layout (vt.gen.las), BIT (vt.gen.bit), DAT with >= 1 row (vt.gen.dat); arbitrary: st.binary up '
        'to 4 KiB (64 KiB in thorough), truncations at every structural boundary +-1 and at random offsets, 1..16 byte/bit mutations, '
        'splices of two formats.  Non-trivial valid case: >= 2 logical records / >= 2 frames; non-trivial arbitrary case: >= 80 bytes or a '
        'mutation of a valid file.  Distinct = distinct input bytes.')
ASSUMPTIONS = ['TIF-marked LIS files whose first record is exactly 276 bytes share the BIT signature (stated in the property) and reversed-TIF files '
               'whose first next-word is ambiguous (0x100, 0x10000) are excluded and counted',
               'DAT files without a data row are excluded (the recogniser is a trial parse of one row)',
               'the watchdog is 60 s for inputs whose normal cost is milliseconds']
SHARDS = {'quick': 4, 'thorough': 16}
REQUIRED_CLASSES = {'valid-RP66V1': 1, 'valid-LIS': 1, 'valid-LISt': 1, 'valid-LIStr': 1, 'valid-LAS1.2': 1, 'valid-LAS2.0': 1, 'valid-BIT': 1,
                    'valid-DAT': 1, 'arbitrary-truncation': 1, 'arbitrary-mutation': 1, 'arbitrary-splice': 1, 'arbitrary-random': 1, 'arbitrary-text-token': 1, 'arbitrary-digit-run': 1,
                    'valid-DAT-first-row-beyond-4KiB': 1, 'valid-file>8KiB': 1, 'arbitrary-ebcdic': 1, 'valid-BIT-20-channels': 1, 'valid-BIT-first-pass-without-frames': 1, 'valid-LIS-over-100-even-records-then-odd': 1, 'valid-file-from-path': 1, 'valid-LIS-padded-records': 1, 'valid-LIS-of-one-physical-record': 1, 'valid-LAS-with-preamble>=64-lines': 1, 'valid-LIS-TIF-padded-by>=12': 1}


class Timeout(Exception):
    pass


def _alarm(_sig, _frm):
    raise Timeout()


def identify(data, limit_s=60):
    """Returns (result, exception, tell_after, content_after, seconds)."""
    from TotalDepth.util import bin_file_type
    fobj = engine.handle(data)      # positioned wherever an earlier reader left it: start, end, middle, byte 1
    t0 = time.time()
    old = None
    try:
        old = signal.signal(signal.SIGALRM, _alarm)
        signal.setitimer(signal.ITIMER_REAL, limit_s)
    except ValueError:
        old = None
    res, exc = None, None
    try:
        res = bin_file_type.binary_file_type(fobj)
    except Timeout as err:
        exc = err
    except Exception as err:  # noqa
        exc = err
    finally:
        if old is not None:
            signal.setitimer(signal.ITIMER_REAL, 0)
            signal.signal(signal.SIGALRM, old)
    dt = time.time() - t0
    try:
        tell = fobj.tell()
        fobj.seek(0)
        content = fobj.read()
    except ValueError:
        tell, content = None, None
    return res, exc, tell, content, dt


def totality(cc, data, res, exc, tell, content, dt, what):
    from TotalDepth.util import bin_file_type
    if isinstance(exc, Timeout):
        cc.dev('terminates', 'timeout', '%s: no answer after %.0f s on %d bytes %s' % (what, dt, len(data), data[:40].hex()))
        return False
    if exc is not None:
        cc.dev('raises-nothing', engine.exc_sig(exc), '%s: %r on %d bytes %s...' % (what, exc, len(data), data[:48].hex()))
        return False
    if not isinstance(res, str) or (res != '' and res not in bin_file_type.BINARY_FILE_TYPES_SUPPORTED):
        cc.dev('documented-code', 'undocumented-result', '%s: returned %r' % (what, res))
    if tell != 0:
        cc.dev('file-left-at-start', 'tell-not-zero', '%s: tell()=%r after identification' % (what, tell))
    if content != data:
        cc.dev('file-left-readable', 'content-changed', '%s: file object no longer yields its content' % what)
    return True


# -------------------------------------------------------------------------------------------------
# valid files
# -------------------------------------------------------------------------------------------------
def lis_with_many_records(case, many):
    """More than 100 Physical Records of even length (comment records after the first file header, each in one Physical
    Record), then records of odd length: identification samples only the head of a file so what it settles there must
    hold for the rest.  Built at rendering time to keep the Hypothesis example small."""
    items = list(case['items'])
    at = next(i for i, it in enumerate(items) if it == ('delim', GL.LR_FILE_HEAD)) + 1
    fill = [('misc', (232, bytes((k + j) & 0x7F or 0x20 for j in range(many['len'])))) for k in range(many['n'])]
    odd = [('misc', (232, bytes(0x41 + (j % 26) for j in range(n)))) for n in many['odd']]
    cfg = dict(case['cfg'], pr_len=max(case['cfg']['pr_len'], 600))
    if many.get('pad2'):
        cfg['pad'] = ['mod', 2]
    return {'cfg': cfg, 'items': items[:at] + fill + odd + items[at:]}


def lis_expected(case):
    """Expected code or None when the case is excluded."""
    if case.get('many'):
        case = lis_with_many_records(case, case['many'])
    data, model = GL.build_lis_file(case)
    tif = case['cfg']['tif']
    first_pr_len = model['phys']['prs'][0][0][4]
    pad = case['cfg'].get('pad')
    if pad:     # what the first TIF marker spans: the record and its padding
        first_pr_len += max(0, pad[1] - first_pr_len) if pad[0] == 'min' else (-first_pr_len) % pad[1]
    if tif != 'none' and first_pr_len == 276:
        return data, None, 'excluded-lis-first-record-276'
    if tif == 'reversed' and GL.TIF_LEN + first_pr_len in (0x100, 0x10000):
        return data, None, 'excluded-reversed-ambiguous'
    return data, {'none': 'LIS', 'normal': 'LISt', 'reversed': 'LIStr'}[tif], None


@st.composite
def valid_cases(draw):
    fmt = draw(st.sampled_from(['RP66V1', 'RP66V1L', 'LIS', 'LIS', 'LAS', 'BIT', 'DAT']))
    if fmt == 'RP66V1L':   # complete logical files (FILE-HEADER, ORIGIN, CHANNEL / FRAME sets, frame data)
        return {'fmt': fmt, 'model': draw(GRL.log_pass_files(max_frame_types=2, max_channels=4, max_frames=8, max_sets=1))}
    if fmt == 'RP66V1':
        return {'fmt': fmt, 'model': draw(GR.physical_files(max_records=6, max_payload=800))}
    if fmt == 'LIS':
        if draw(st.integers(0, 4)) == 0:   # > 100 even-length Physical Records, then odd-length ones (see lis_with_many_records)
            many = {'n': draw(st.integers(90, 140)), 'len': 2 * draw(st.integers(1, 20)),
                    'odd': draw(st.lists(st.integers(0, 20).map(lambda k: 2 * k + 1), min_size=1, max_size=6)),
                    'pad2': draw(st.integers(0, 3)) == 0}     # ... every record padded to an even length with a null byte
            return {'fmt': fmt, 'model': dict(draw(GL.lis_files(max_passes=1, max_frames=4, tables=False, allow_dipmeter=False)), many=many)}
        if draw(st.integers(0, 2)) == 0:
            # physical records followed by null padding: to a multiple of 2 or 4 bytes (any file), or to a minimum record
            # length (LIS-79 2.3.1.1; only TIF-marked files, where the marker says where the next record starts)
            m = draw(GL.lis_files(max_passes=1, max_frames=8))
            pad = draw(st.sampled_from([('mod', 2), ('mod', 4)] + ([('min', 32), ('min', 64), ('min', 80), ('min', 100), ('min', 160), ('min', 256)] * 2 if m['cfg']['tif'] != 'none' else [])))
            return {'fmt': fmt, 'model': dict(m, cfg=dict(m['cfg'], pad=list(pad)))}
        if draw(st.integers(0, 4)) == 0:   # nothing but the first record: a reel, tape or file header in one physical record
            cfg = dict(draw(GL.phys_cfgs()), pr_len=1024)
            return {'fmt': fmt, 'model': {'cfg': cfg, 'items': [('delim', draw(st.sampled_from([GL.LR_FILE_HEAD, GL.LR_REEL_HEAD, GL.LR_TAPE_HEAD])))]}}
        if draw(st.integers(0, 3)) == 0:   # the smallest conformant files: header, one log pass, trailer
            return {'fmt': fmt, 'model': draw(GL.lis_files(max_passes=1, max_frames=4, tables=False, allow_dipmeter=False))}
        return {'fmt': fmt, 'model': draw(GL.lis_files(max_passes=2, max_frames=20))}
    if fmt == 'LAS':
        return {'fmt': fmt, 'model': draw(GA.las_models(max_curves=5, max_frames=12, min_curves=2)), 'layout': draw(GA.layouts())}
    if fmt == 'BIT':
        if draw(st.integers(0, 5)) == 0:   # log passes without any frame (the description block is followed by the end-of-pass mark)
            return {'fmt': fmt, 'model': draw(GB.bit_models(max_passes=2, max_channels=6, max_frames=3, min_frames=0))}
        if draw(st.integers(0, 2)) == 0:   # up to the largest legal channel count (20 names fit the header block)
            # (the channels beyond the drawn ones are added at rendering time: Hypothesis silently drops examples that need too many draws)
            return {'fmt': fmt, 'model': draw(GB.bit_models(max_passes=1, max_channels=4, max_frames=6)), 'to20': True}
        return {'fmt': fmt, 'model': draw(GB.bit_models(max_passes=2, max_channels=6, max_frames=30))}
    # 'extra_decls': declared channels that the header line does not use (legal), added at rendering time so that the
    # declarations + header + first row reach well beyond 4 KiB without a huge Hypothesis example
    extra = draw(st.sampled_from([0, 0, 0, 0, 150, 400]))
    return {'fmt': fmt, 'model': draw(GD.dat_models(max_channels=6, max_rows=8, min_rows=1)), 'extra_decls': extra}


def render(case):
    """Returns (bytes, expected code | None, exclusion class | None, non-trivial)."""
    fmt = case['fmt']
    if fmt == 'RP66V1L':
        data, _m = GRL.build_logical(case['model'])
        return data, 'RP66V1', None, True
    if fmt == 'RP66V1':
        data, _m = GR.build(case['model'])
        return data, 'RP66V1', None, len(case['model']['records']) >= 2
    if fmt == 'LIS':
        data, exp, excl = lis_expected(case['model'])
        return data, exp, excl, True
    if fmt == 'LAS':
        text = GA.render_las(case['model'], case['layout'])
        vers = str(case['model'].get('version', ''))
        exp = 'LAS1.2' if text.find('1.2') != -1 and vers.startswith('1.2') else 'LAS2.0'
        return text.encode('ascii'), exp, None, True
    if fmt == 'BIT':
        # the header block of a BIT file is 276 bytes (ReadBIT docstring): an 8 byte tail after the five range floats
        model = dict(case['model'], passes=[dict(p, tail=bytes(p['tail'][:8]).ljust(8)) for p in case['model']['passes']])
        if case.get('to20'):
            p0 = dict(model['passes'][0])
            have = len(p0['channels'])
            names = [nm for nm in ('C%02d ' % i for i in range(40)) if nm not in p0['channels']][:20 - have]
            p0['channels'] = list(p0['channels']) + names
            p0['data'] = [list(c) for c in p0['data']] + [list(p0['data'][i % have]) for i in range(20 - have)]
            if p0.get('filler') is not None:
                p0['filler'] = b''
            model = dict(model, passes=[p0] + list(model['passes'][1:]))
            case['model'] = model           # the classes below describe what was written
        return GB.encode_bit_file(model), 'BIT', None, True
    model = case['model']
    if case.get('extra_decls'):
        used = {d['name'] for d in model['decls']}
        more = [{'name': 'X%03d' % i, 'desc': ['Unused', 'channel', 'number', str(i), 'with', 'a', 'long', 'description'], 'units': 'm',
                 'seps': [' '] * 9, 'trail': ''} for i in range(case['extra_decls']) if 'X%03d' % i not in used]
        model = dict(model, decls=list(model['decls']) + more)
    text = GD.render_dat(model)
    return text.encode('ascii'), 'DAT', None, len(case['model'].get('rows', [])) >= 2


def las_version_of(model):
    for k in ('version', 'vers', 'VERS'):
        if k in model:
            return str(model[k])
    return None


def _dat_first_row_end(data):
    import re
    m = re.search(rb'^UTIM[ \t]+DATE[ \t]+TIME[^\n]*\n[^\n]*\n?', data, re.M)
    return m.end() if m else 0


def check_valid(case, cc):
    data, exp, excl, nt = render(case)
    if case['fmt'] == 'LAS':
        # the expected code comes from the model's version line, read back from the rendered text independently
        import re
        m = re.search(r'^\s*VERS\s*\.\s+([0-9.]+)', data.decode('ascii'), re.M)
        exp = 'LAS' + m.group(1)[:3] if m else None
        if exp not in ('LAS1.2', 'LAS2.0'):
            raise engine.HarnessError('LAS generator produced version line %r' % (m and m.group(0)))
    if excl:
        cc.cls(excl)
    res, exc, tell, content, dt = identify(data)
    what = 'valid %s file (%d bytes)' % (case['fmt'], len(data))
    cc.sample({'fmt': case['fmt'], 'bytes': len(data), 'head': data[:24], 'expected': exp})
    if not totality(cc, data, res, exc, tell, content, dt, what):
        return
    if exp is None:
        return
    cc.cls('valid-' + exp)
    cc.cls('valid-file>8KiB', len(data) > 8192)
    cc.cls('valid-LIS-over-100-even-records-then-odd', case['fmt'] == 'LIS' and bool(case['model'].get('many')) and case['model']['many']['n'] > 100)
    cc.cls('valid-LAS-with-preamble>=64-lines', case['fmt'] == 'LAS' and int(case['layout'].get('preamble') or 0) >= 64)
    cc.cls('valid-LIS-of-one-physical-record', case['fmt'] == 'LIS' and len(case['model']['items']) == 1)
    cc.cls('valid-LIS-padded-records', case['fmt'] == 'LIS' and bool(case['model']['cfg'].get('pad')))
    cc.cls('valid-LIS-TIF-padded-by>=12', case['fmt'] == 'LIS' and (case['model']['cfg'].get('pad') or [''])[0] == 'min' and case['model']['cfg']['pad'][1] >= 64)
    cc.cls('valid-BIT-first-pass-without-frames', exp == 'BIT' and not any(case['model']['passes'][0]['data'][0:1] and case['model']['passes'][0]['data'][0]))
    cc.cls('valid-BIT-20-channels', exp == 'BIT' and any(len(p['channels']) == 20 for p in case['model']['passes']))
    cc.cls('valid-DAT-first-row-beyond-4KiB', exp == 'DAT' and _dat_first_row_end(data) > 4096)
    cc.nt(nt)
    late_pad = False
    if case['fmt'] == 'LIS' and (case['model'].get('many') or {}).get('pad2'):
        # the situation of the known finding: the first physical record of odd length (the first that is padded) is not among the first 100
        _d, m_ = GL.build_lis_file(lis_with_many_records(case['model'], case['model']['many']))
        lens = [pr[4] for prs in m_['phys']['prs'] for pr in prs]
        first_odd = next((i for i, n_ in enumerate(lens) if n_ % 2), None)
        late_pad = first_odd is not None and first_odd >= 99       # the padding after the 100th record is the first the scan of 100 records does not see
    cc.cls('valid-LIS-first-padded-record-after-the-100th', late_pad)
    if res != exp and late_pad and not res and case['model']['cfg']['tif'] == 'none':
        # known form: the padding option is settled on the first 100 physical records (all of even length here: every option
        # ties, "no padding" wins) and the whole file is then indexed with it
        cc.dev('valid-file-identified-as-own-format', 'misidentified:LIS-as-nothing:padding-first-needed-after-the-100th-record',
               '%s: > 100 physical records of even length, then records padded to even length with a null: identified as %r' % (what, res))
        return
    if res != exp:
        cc.dev('valid-file-identified-as-own-format', 'misidentified:%s-as-%s' % (exp, res or 'nothing'),
               '%s identified as %r, expected %r; head %s' % (what, res, exp, data[:32].hex()))
        return
    # the same bytes on disk, under a name that says nothing - or something else - about the format (one case in four)
    if (len(data) + data[len(data) // 2]) % 4 == 0:
        import tempfile
        from TotalDepth.util import bin_file_type
        ext = ['.bin', '', '.las', '.dlis', '.LIS', '.dat', '.bit', '.txt'][(len(data) // 4) % 8]
        with tempfile.TemporaryDirectory(prefix='vt_c20_') as d:
            path = os.path.join(d, 'file' + ext)
            with open(path, 'wb') as f:
                f.write(data)
            try:
                res2 = bin_file_type.binary_file_type_from_path(path)
            except Exception as err:  # noqa
                cc.unexpected(err)
                return
        cc.cls('valid-file-from-path')
        if res2 != exp:
            cc.dev('valid-file-identified-as-own-format', 'from-path-misidentified:%s-as-%s' % (exp, res2 or 'nothing'),
                   '%s stored as %r: binary_file_type_from_path gives %r, the file object gave %r' % (what, 'file' + ext, res2, res))


# -------------------------------------------------------------------------------------------------
# arbitrary bytes
# -------------------------------------------------------------------------------------------------
MAGIC = [b'\x00' * 8 + b'\x20\x01\x00\x00', b'\x00' * 8 + b'\x00\x00\x01\x20', b'   1V1.00RECORD 8192' + b' ' * 60, b'~V\nVERS. 2.0 : x\n',
         b'~Version\n VERS.   1.2: \n', b'UTIM UTIM sec\nDATE DATE ddmmyy\nTIME TIME hhmmss\n', b'\x00\x3e\x00\x00\x80\x00', b'\x00\x00\x00\x00\x00\x00\x00\x00\x4a\x00\x00\x00\x00\x3e\x00\x00\x80\x00',
         b'%PDF-', b'PK\x03\x04', b'<?xml ', b'II*\x00', b'\x04\x00\x00\x00\x01\x00\x00\x00\x04\x00\x00\x00', b'=LIS VERIFICATION by PETROLOG rev ',
         b'\x00\x07\x84\x00\x06\x8c\x30\x44\x00\x00\xbe']


@st.composite
def arbitrary_cases(draw, max_len=4096):
    kind = draw(st.sampled_from(['random', 'random', 'magic', 'truncation', 'truncation', 'mutation', 'mutation', 'splice', 'text-token', 'ebcdic',
                                 'digit-run', 'digit-run']))
    if kind == 'ebcdic':
        # 3200 bytes of printable EBCDIC in 80 column cards (what the SEG-Y recogniser looks for), the first k cards
        # numbered 'Cnn' correctly, the rest arbitrary printable EBCDIC
        alpha = [0x40, 0x4B, 0x60, 0x61, 0x7A] + list(range(0xC1, 0xCA)) + list(range(0xD1, 0xDA)) + list(range(0xE2, 0xEA)) + list(range(0xF0, 0xFA))
        k = draw(st.integers(0, 40))
        body = bytearray(draw(st.lists(st.sampled_from(alpha), min_size=3200, max_size=3200)))
        for i in range(k):
            body[80 * i:80 * i + 3] = bytes([0xC3, 0xF0 + (i + 1) // 10, 0xF0 + (i + 1) % 10])
        if k < 40 and draw(st.booleans()):
            body[80 * k] = 0xC3
        return {'kind': 'ebcdic', 'data': bytes(body) + draw(st.binary(max_size=40))}
    if kind == 'random':
        data = draw(st.one_of(st.binary(max_size=64), st.binary(max_size=max_len)))
        return {'kind': kind, 'data': data}
    if kind == 'magic':
        head = draw(st.sampled_from(MAGIC))
        return {'kind': 'random', 'data': head + draw(st.binary(max_size=600))}
    if kind == 'text-token':
        # a text format with one token replaced by something extreme (huge number, long run, odd characters)
        base = draw(valid_cases().filter(lambda c: c['fmt'] in ('LAS', 'DAT')))
        text = render(base)[0].decode('ascii')
        import re as _re
        toks = [m.span() for m in _re.finditer(r'[^\s]+', text)]
        if not toks:
            return {'kind': 'random', 'data': text.encode()}
        if base['fmt'] == 'DAT' and draw(st.booleans()):
            # the recogniser parses up to the first data row: aim at that row
            m = _re.search(r'^UTIM[ \t]+DATE[ \t]+TIME[^\n]*\n([^\n]*)', text, _re.M)
            if m:
                first = [t for t in toks if m.start(1) <= t[0] < m.end(1)]
                toks = first[:3] * 3 + first if first else toks
        a, b = toks[draw(st.integers(0, len(toks) - 1))]
        rep = draw(st.sampled_from(['9' * 20, '9' * 400, '-' + '9' * 30, '1e999', '-1e999', 'nan', 'inf', '0x10', '1_0', '99999999999', '4294967296',
                                    '-1', '', '\x00', '\xff', 'A' * 5000, '32Dec99', '99-99-99', '24-00-00', '~A', ':', '.', '#']))
        out = (text[:a] + rep + text[b:]).encode('latin-1')
        return {'kind': 'text-token', 'data': out, 'fmt': base['fmt']}
    base = draw(valid_cases())
    data = render(base)[0]
    if kind == 'digit-run':
        # a numeric field (storage unit label numbers, LAS / DAT numbers, dates, times) damaged the way fields get damaged:
        # stretched by a stuck key, a blank or a sign inside, emptied - aimed at the part of the file a recogniser reads
        import re as _re
        runs = [m.span() for m in _re.finditer(rb'[0-9]+', data[:4096])]
        if not runs:
            return {'kind': 'random', 'data': data[:64]}
        a, b = runs[draw(st.integers(0, min(len(runs) - 1, 12)))] if draw(st.booleans()) else runs[draw(st.integers(0, len(runs) - 1))]
        run = data[a:b]
        how = draw(st.integers(0, 5))
        if how == 0:
            rep = run + b'9' * draw(st.integers(6, 30))
        elif how == 1:
            rep = draw(st.sampled_from([b'3', b'9', b'1'])) * draw(st.integers(10, 30)) + run
        elif how == 2 and len(run) >= 2:
            k = draw(st.integers(1, len(run) - 1))
            rep = run[:k] + draw(st.sampled_from([b' ', b'-', b'+', b'.', b'\x00', b'_'])) + run[k + 1:]
        elif how == 3:
            rep = b' ' * len(run)
        elif how == 4:
            rep = b''
        else:
            rep = b'0' * len(run)
        return {'kind': kind, 'data': data[:a] + rep + data[b:], 'fmt': base['fmt']}
    if kind == 'truncation':
        n = len(data)
        cut = draw(st.one_of(st.integers(0, min(n, 400)), st.integers(0, n), st.sampled_from([12, 80, 84, 0x114, 0x120, 256, n - 1, n - 12, n - 24]).map(lambda v: max(0, min(n, v)))))
        return {'kind': kind, 'data': data[:cut], 'fmt': base['fmt']}
    if kind == 'mutation':
        b = bytearray(data)
        if not b:
            return {'kind': 'random', 'data': b''}
        for _ in range(draw(st.integers(1, 16))):
            pos = draw(st.one_of(st.integers(0, min(len(b) - 1, 127)), st.integers(0, len(b) - 1)))
            if draw(st.booleans()):
                b[pos] ^= 1 << draw(st.integers(0, 7))
            else:
                b[pos] = draw(st.integers(0, 255))
        return {'kind': kind, 'data': bytes(b), 'fmt': base['fmt']}
    other = render(draw(valid_cases()))[0]
    a = draw(st.integers(0, len(data)))
    b2 = draw(st.integers(0, len(other)))
    return {'kind': 'splice', 'data': data[:a] + other[b2:], 'fmt': base['fmt']}


def check_arbitrary(case, cc):
    data = case['data']
    cc.cls('arbitrary-' + case['kind'])
    cc.cls('arbitrary-from-' + case.get('fmt', 'nothing'), 'fmt' in case)
    cc.nt(len(data) >= 80 or case['kind'] in ('mutation',))
    res, exc, tell, content, dt = identify(data)
    cc.cls('arbitrary-identified-as-' + (res or 'nothing'), exc is None)
    cc.sample({'kind': case['kind'], 'bytes': len(data), 'head': data[:24], 'result': res})
    totality(cc, data, res, exc, tell, content, dt, '%s input' % case['kind'])


def check_bytes(case, cc):
    """Replay form of the inputs found by the fuzzer: raw bytes."""
    data = case['data']
    cc.nt(True)
    res, exc, tell, content, dt = identify(data)
    totality(cc, data, res, exc, tell, content, dt, 'fuzzer input')


# -------------------------------------------------------------------------------------------------
# bundled example files
# -------------------------------------------------------------------------------------------------
def run_bundled(ctx, part, tier, shard, nshards):
    if shard != 0:
        return
    root = os.path.join(engine.REPO, 'example_data')
    expect = {'.dlis': 'RP66V1', '.DLIS': 'RP66V1', '.LIS': 'LIS', '.las': 'LAS', '.bit': 'BIT', '.dat': 'DAT'}
    for d, _dirs, files in sorted(os.walk(root)):
        for f in sorted(files):
            ext = os.path.splitext(f)[1]
            if ext in expect:
                ctx.eval_case(part, {'path': os.path.relpath(os.path.join(d, f), engine.REPO), 'family': expect[ext]})


def check_bundled(case, cc):
    with open(os.path.join(engine.REPO, case['path']), 'rb') as f:
        data = f.read()
    res, exc, tell, content, dt = identify(data)
    cc.nt(True)
    cc.cls('bundled-file')
    if not totality(cc, data, res, exc, tell, content, dt, case['path']):
        return
    if not (res or '').startswith(case['family']):
        cc.dev('valid-file-identified-as-own-format', 'bundled-misidentified:%s-as-%s' % (case['family'], res or 'nothing'), '%s identified as %r' % (case['path'], res))


# -------------------------------------------------------------------------------------------------
# atheris campaign (thorough)
# -------------------------------------------------------------------------------------------------
def run_fuzz(ctx, part, tier, shard, nshards):
    if tier != 'thorough' or shard >= 8:
        return
    try:
        import atheris  # noqa
    except ImportError:
        ctx.notes['atheris'] = 'not installed: campaign skipped'
        return
    import tempfile
    import glob
    budget = int(os.environ.get('VERIF_C20_FUZZ_SECONDS', '300'))
    with tempfile.TemporaryDirectory(prefix='vt_c20_fuzz_') as tmp:
        corpus = os.path.join(tmp, 'corpus')
        crashes = os.path.join(tmp, 'crashes')
        os.makedirs(corpus)
        os.makedirs(crashes)
        seeded = shard % 2 == 1
        if seeded:
            for p in glob.glob(os.path.join(engine.VERIF, 'corpus', 'c20', '*')):
                with open(p, 'rb') as f, open(os.path.join(corpus, os.path.basename(p)), 'wb') as g:
                    g.write(f.read())
        cmd = [sys.executable, os.path.join(engine.VERIF, 'vt', 'fuzz', 'c20_atheris.py'), corpus,
               '-max_len=65536', '-seed=%d' % (ctx.seed * 100 + shard + 1), '-max_total_time=%d' % budget, '-artifact_prefix=' + crashes + '/',
               '-print_final_stats=1', '-timeout=60']
        env = dict(os.environ, VERIF_C20_CRASH_DIR=crashes)
        p = subprocess.run(cmd, cwd=engine.VERIF, env=env, stdout=subprocess.PIPE, stderr=subprocess.STDOUT, text=True)
        execs = 0
        for line in p.stdout.splitlines():
            if 'number_of_executed_units' in line:
                execs = int(line.split()[-1])
        ctx.notes.setdefault('fuzz_campaigns', []).append({'shard': shard, 'seeded_corpus': seeded, 'seconds': budget, 'executions': execs,
                                                           'corpus_files': len(os.listdir(corpus))})
        ctx.bulk(part, execs, 0)
        found = sorted(glob.glob(os.path.join(crashes, 'dev-*')))
        for path in found[:50]:
            with open(path, 'rb') as f:
                ctx.eval_case(part, {'data': f.read()})
        if p.returncode not in (0,) and not found:
            ctx.notes.setdefault('fuzz_errors', []).append(p.stdout[-800:])


def parts(tier):
    big = 65536 if tier == 'thorough' else 4096
    return [
        EnumPart('bundled-files', run_bundled, check_bundled),
        HypPart('valid-files', valid_cases(), check_valid, 1200, 30000),
        HypPart('arbitrary-bytes', arbitrary_cases(max_len=big), check_arbitrary, 4000, 120000),
        EnumPart('atheris-campaign', run_fuzz, check_bytes),
    ]


RULE += '  Added after the seeding rounds: LIS files with > 100 even-length physical records before the first odd one, padded physical records (multiples of 2 / 4; minimum record lengths for TIF files), the same bytes through binary_file_type_from_path under neutral / misleading names, digit-run damage of numeric header fields, labels with mixed zero / blank padding, BIT head bytes with foreign magic values.'
