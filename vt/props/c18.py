"""C18 - generated XML, XHTML and SVG are well-formed and carry the data unchanged.

Parts (``parts(tier)`` is a flat list; the parts that need generated DLIS / LIS binary files are added by appending
to it - see ``EXTRA_PARTS`` at the end of the module):

  xml-writer      element trees (depth <= 5) with hostile attribute / text strings written through
                  ``XmlWrite.XmlStream`` / ``XhtmlStream`` / ``Element`` (characters, charactersWithBr, literal,
                  xmlSpacePreserve, an exception raised midway) into ``io.StringIO``
  las-html        LAS texts of ``vt.gen.las`` with hostile mnemonics / units / values / descriptions / ~O lines and
                  user defined sections -> ``LASToHTML.las_file_to_html``
  bundled-files   the example files shipped with the repository through ``LisToHtml.processFile``,
                  ``ScanHTML.html_scan_RP66V1_file_data_content``, ``IndexXML.write_logical_file_sequence_to_xml`` and
                  ``LASToHTML.las_file_to_html``

Oracles
  document-parses        expat (``xml.etree.ElementTree.XMLParser``) accepts the document; the external DTD is never
                         fetched; for documents that carry the XHTML 1.0 DOCTYPE the parser's entity table is
                         pre-loaded with the names that DTD declares (``html.entities``), so ``&nbsp;`` is legal there
  tree-structure         (xml-writer) element names, nesting and child order == the model
  attributes-recovered   (xml-writer) attribute names == model; every value made of XML 1.0 ``Char``s only is equal,
                         character for character (the writer has to escape tab / LF / CR, because a parser replaces the
                         literal ones by spaces: XML 1.0 section 3.3.3)
  text-recovered         (xml-writer) a text slot (between two tags) that received user text made of ``Char``s only is
                         equal to the concatenation of that text; a slot that received none holds white space only
  las-text-recovered     (las-html) the lines of ~O and of user defined sections appear, in order, as the text of the
                         ``pre`` elements of the page
  no-unexpected-exception  the HTML / XML writers do not raise on a file their reader accepted
"""
import glob
import html.entities
import io
import locale
import logging
import os
import re
import tempfile
import xml.etree.ElementTree as ET
from xml.parsers import expat

from hypothesis import strategies as st

from vt import engine
from vt.engine import EnumPart, HypPart
from vt.gen import las as genlas
from vt.ref import lasfmt

PID = 'C18'
LEVEL = 'exploration'
NEEDS_LIS_EXT = True  # LisToHtml imports TotalDepth.LIS.core.*; XmlWrite imports TotalDepth.LIS
TECHNIQUE = 'property-based testing (Hypothesis): model trees / generated LAS files -> writers -> expat parse -> model comparison'
RULE = ('xml-writer: element trees of depth <= 5 (0..3 attributes, 0..4 content items per element: child element, '
        'characters(), charactersWithBr(), literal() of a well-formed fragment, xmlSpacePreserve(), and in ~1/8 of the '
        'cases an exception raised midway) with names that are valid XML 1.0 names (ASCII and non-ASCII letters) and '
        'attribute values / text drawn piecewise from: markup characters & < > " \', tab LF CR, printable ASCII, '
        'U+0080..U+D7FF, U+E000..U+FFFD, non-BMP, markup look-alikes (]]> &amp; &#0; <!-- --> <![CDATA[ </a> &nbsp;), '
        'and - in about 30 % of the cases - characters XML 1.0 cannot represent (C0 controls, U+FFFE, U+FFFF, lone '
        'surrogates); both XmlStream and XhtmlStream.  las-html: content models of vt.gen.las (<= 5 curves, <= 6 frames) '
        'rendered in a drawn layout, with descriptions / units / text values / mnemonics / ~O lines replaced by hostile '
        'strings (as far as the LAS line syntax can carry them: no line breaks, no colon in a description, no blank in '
        'units, no blank / dot / colon in a mnemonic) and 0..2 user defined sections whose type character is hostile '
        '(" \' < & > non-ASCII).  bundled-files: every file under example_data/{LIS,RP66V1,LAS}/data.  Non-trivial: a '
        'case with at least one written string that contains both a markup character and a non-ASCII or control '
        'character (bundled files: the file is converted at all).  Distinct = distinct case (tree / model+layout / file+route).')
ASSUMPTIONS = [
    'element and attribute names are generated valid (XML 1.0 4th edition names, which is what expat implements); no '
    'namespace prefixes; names do not begin with "xml"; comments and processing instructions are not part of the statement',
    '"characters XML can represent" = XML 1.0 Char: tab, LF, CR, U+0020..U+D7FF, U+E000..U+FFFD, U+10000..U+10FFFF; strings '
    'containing anything else are only required to leave the document parseable, their content is not compared',
    '"recovered unchanged" is exact equality after parsing: attribute value normalisation and line end normalisation are '
    'the parser\'s business, a writer that wants tab/LF/CR to survive has to write character references (XmlWrite does)',
    'charactersWithBr() is modelled as documented: every LF becomes an empty br element, the pieces between are text',
    'literal() is only given well-formed fragments (it is documented as "without encoding")',
    'white space that the pretty printer adds is tolerated only in text slots that received no user text',
    'XHTML documents are parsed with the entity names of the XHTML 1.0 DTD pre-declared (the DTD itself is not fetched)',
    'las-html: a LAS text that the LAS reader itself rejects (no page written) is counted, not judged (reader behaviour is C09); '
    'mnemonic / unit / description strings that the reader would re-type as numbers or yes/no (finding F09 of C09) are not generated',
    'las-html: the file is written in the locale encoding that LASRead opens it with (UTF-8 here); expected text is what that '
    'decoding yields',
]
LEVEL_TEXT = ('generated trees and LAS files plus the bundled example files; every produced document parsed by expat; content '
              'compared with an independent tree model for the writer itself; counts and samples in the evidence file')
SHARDS = {'quick': 4, 'thorough': 16}
REQUIRED_CLASSES = {
    'writer:content-compared': 1, 'writer:has-non-char': 1, 'writer:clean': 1, 'writer:xhtml-stream': 1,
    'writer:xml-stream': 1, 'writer:attr-tab-lf-cr': 1, 'writer:attr-markup': 1, 'writer:text-markup': 1,
    'writer:depth>=4': 1, 'writer:charactersWithBr-with-LF': 1, 'writer:literal': 1, 'writer:raise-midway': 1,
    'writer:mixed-content': 1, 'writer:non-bmp': 1,
    'las:page-parsed-or-known': 1, 'las:custom-section': 1, 'las:hostile-markup': 1,
    'bundled:lis-html': 1, 'bundled:rp66v1-html': 1, 'bundled:las-html': 1, 'bundled:rp66v1-index-xml': 1,
}

# logging.error() & co. call basicConfig() when the root logger has no handler, which would start printing
logging.getLogger().addHandler(logging.NullHandler())

ORACLE_PARSES = 'document-parses'
#: the one signature of finding F18a, shared by every route
SIG_BAD_CHAR_REF = 'unparseable:illegal-character-reference'

XHTML_NS = '{http://www.w3.org/1999/xhtml}'
XML_NS = '{http://www.w3.org/XML/1998/namespace}'
XML_WS = ' \t\r\n'


def _a(s, n=200):
    """ASCII-safe, bounded rendering for details (lone surrogates cannot be printed)."""
    r = ascii(s)
    return r if len(r) <= n else r[:n] + '...<%d>' % len(r)


# ---------------------------------------------------------------------------------------------
# Reusable: XML 1.0 Char, parsing a produced document, judging it
# ---------------------------------------------------------------------------------------------
def is_xml_char(c: str) -> bool:
    o = ord(c)
    return o in (0x9, 0xA, 0xD) or 0x20 <= o <= 0xD7FF or 0xE000 <= o <= 0xFFFD or 0x10000 <= o <= 0x10FFFF


def char_only(s: str) -> bool:
    """True when the string consists of XML 1.0 ``Char``s only."""
    return all(is_xml_char(c) for c in s)


_XHTML_ENTITIES = {k: chr(v) for k, v in html.entities.name2codepoint.items()}
_RE_XHTML_DOCTYPE = re.compile(rb'<!DOCTYPE\s+html\s+PUBLIC\s+"-//W3C//DTD XHTML 1\.[01]')
_RE_CHAR_REF = re.compile(rb'&#(x[0-9A-Fa-f]+|[0-9]+);')


def as_bytes(data) -> bytes:
    if isinstance(data, str):
        return data.encode('utf-8', 'surrogatepass')
    return bytes(data)


def parse_error_signature(err) -> str:
    """Stable bucket key of an expat error: the error *kind*, no position."""
    code = getattr(err, 'code', None)
    if code == 14:  # XML_ERROR_BAD_CHAR_REF "reference to invalid character number"
        return SIG_BAD_CHAR_REF
    msg = expat.errors.messages.get(code) if code is not None else None
    if not msg:
        msg = str(err).split(':')[0]
    return 'unparseable:' + re.sub(r'[^a-z0-9]+', '-', msg.lower()).strip('-')


def illegal_char_refs(data: bytes, limit=5):
    """The numeric character references of the document that denote something that is not an XML 1.0 Char."""
    ret = []
    for m in _RE_CHAR_REF.finditer(data):
        t = m.group(1)
        try:
            cp = int(t[1:], 16) if t[:1] == b'x' else int(t)
        except ValueError:
            continue
        if cp > 0x10FFFF or not is_xml_char(chr(cp)):
            ret.append(m.group(0).decode('ascii'))
            if len(ret) >= limit:
                break
    return ret


def parse_document(data):
    """Parses a document that TotalDepth wrote.  ``data``: bytes, or str (encoded as UTF-8, which is what every
    writer declares).  Returns (root, None) or (None, (signature, detail)).  XHTML 1.0 documents get the entity names
    of their DTD pre-declared; nothing is ever fetched."""
    raw = as_bytes(data)
    parser = ET.XMLParser()
    if _RE_XHTML_DOCTYPE.search(raw[:600]):
        parser.entity.update(_XHTML_ENTITIES)
    try:
        parser.feed(raw)
        return parser.close(), None
    except ET.ParseError as err:
        sig = parse_error_signature(err)
        line, col = getattr(err, 'position', (1, 0))
        lines = raw.split(b'\n')
        ctx = b''
        if 1 <= line <= len(lines):
            ctx = lines[line - 1][max(0, col - 40):col + 40]
        detail = '%s; near %s' % (err, _a(ctx.decode('utf-8', 'replace'), 160))
        if sig == SIG_BAD_CHAR_REF:
            detail += '; illegal references in the document: %s' % ', '.join(illegal_char_refs(raw))
        return None, (sig, detail)


def without_illegal_char_refs(data):
    """The document with every numeric character reference that denotes a non-Char replaced by U+FFFD: what is left of the
    document once the known finding C18-illegal-character-reference is set aside."""
    def sub(m):
        t = m.group(1)
        try:
            cp = int(t[1:], 16) if t[:1] == b'x' else int(t)
        except ValueError:
            return m.group(0)
        return '\ufffd'.encode('utf-8') if (cp > 0x10FFFF or not is_xml_char(chr(cp))) else m.group(0)
    return _RE_CHAR_REF.sub(sub, as_bytes(data))


def check_document(cc, data, route, what=''):
    """Reports a document-parses deviation for an unparseable document; returns the root element or None."""
    root, bad = parse_document(data)
    if bad is not None:
        cc.dev(ORACLE_PARSES, bad[0], 'route %s %s: %s' % (route, what, bad[1]))
    return root


def release_exception_frames(err):
    """The writers hand ``open(path, 'w')`` to the stream and rely on garbage collection to close it: after an exception
    the traceback keeps the file object alive and unflushed.  Drop the frame locals (file names and line numbers of the
    traceback survive) so that what is read back is what a caller sees once the exception has been handled."""
    import gc
    import traceback
    if err is not None and err.__traceback__ is not None:
        try:
            traceback.clear_frames(err.__traceback__)
        except RuntimeError:
            pass
    gc.collect()


def check_output_files(cc, directory, route, suffixes=('.html', '.xml', '.svg', '.xhtml')):
    """Parses every document below ``directory``; returns {relative path: root or None}."""
    ret = {}
    for base, _dirs, files in sorted(os.walk(directory)):
        for name in sorted(files):
            if name.lower().endswith(suffixes):
                p = os.path.join(base, name)
                with open(p, 'rb') as f:
                    raw = f.read()
                ret[os.path.relpath(p, directory)] = check_document(cc, raw, route, name)
    return ret


# ---------------------------------------------------------------------------------------------
# Part xml-writer: strategies
# ---------------------------------------------------------------------------------------------
MARKUP = '&<>"\''
_NAME_START = 'abcdefghijklmnopqrstuvwxyzABCDEFGHIJKLMNOPQRSTUVWXYZ_' + '\xe9\u03a9\u0436\u540d'
_NAME_REST = _NAME_START + '0123456789-.' + '\xb7'
_C0 = ''.join(chr(c) for c in range(0x20) if c not in (9, 10, 13))
_NON_CHARS = '\ufffe\uffff\ud800\udbff\udc00\udfff\ud83d'
_LOOKALIKES = (']]>', '&amp;', '&#0;', '&#x41;', '&#1;', '<!--', '-->', '<?x y?>', '<![CDATA[', '</a>', '<a>', '&nbsp;', '\r\n',
               ' ', '  ', '\n ', ' \n', '\xa0', '\x7f', '\x85', '\u2028', '\ufffd', '\ud7ff', '\ue000', '\ufdd0', '\U00010000',
               '\U0010ffff', '\U0001f600', '="', "='", '/>', '&', '&&', '&;', '&#;', '%', '\\', 'x', 'A-1')

_CLEAN_PIECES = st.one_of(
    st.sampled_from(MARKUP),
    st.sampled_from(MARKUP),
    st.sampled_from('\t\n\r'),
    st.text(alphabet=st.characters(min_codepoint=0x20, max_codepoint=0x7e), min_size=1, max_size=6),
    st.characters(min_codepoint=0x80, max_codepoint=0xd7ff),
    st.characters(min_codepoint=0xe000, max_codepoint=0xfffd),
    st.characters(min_codepoint=0x10000, max_codepoint=0x10ffff),
    st.sampled_from(_LOOKALIKES),
)
_HOSTILE_PIECES = st.one_of(
    st.sampled_from(_C0),
    st.sampled_from(_NON_CHARS),
    st.characters(min_codepoint=0xd800, max_codepoint=0xdfff, categories=('Cs',)),
    st.just('\x00'),
)


@st.composite
def hostile_texts(draw, clean=True, max_pieces=6):
    n = draw(st.integers(0, max_pieces))
    pieces = [draw(_CLEAN_PIECES) for _ in range(n)]
    if not clean and draw(st.integers(0, 2)) != 0:
        for _ in range(draw(st.integers(1, 2))):
            pieces.insert(draw(st.integers(0, len(pieces))), draw(_HOSTILE_PIECES))
    return ''.join(pieces)


@st.composite
def xml_names(draw):
    s = draw(st.sampled_from(_NAME_START)) + draw(st.text(alphabet=_NAME_REST, max_size=6))
    if s.lower().startswith('xml'):
        s = '_' + s
    return s


#: (literal text, expected content); expected content items: str (text) or (tag, {attr}, [content])
LITERALS_XML = (
    ('&amp;', ['&']),
    ('&#8364;', ['\u20ac']),
    ('<lit k="v">x</lit>', [('lit', {'k': 'v'}, ['x'])]),
    ('<![CDATA[<&>]]>', ['<&>']),
    ('<!-- c -->', []),
    ('', []),
    ('plain', ['plain']),
    ('&lt;&gt;&quot;&apos;', ['<>"\'']),
    ('<e1/><e2 a=\'1\'/>', [('e1', {}, []), ('e2', {'a': '1'}, [])]),
)
LITERALS_XHTML = LITERALS_XML + (('&nbsp;', ['\xa0']), ('&nbsp;' * 3 + '&eacute;', ['\xa0\xa0\xa0\xe9']))

MAX_DEPTH = 5


@st.composite
def _nodes(draw, depth, clean, xhtml, budget):
    name = draw(xml_names())
    attrs = {}
    for _ in range(draw(st.sampled_from((0, 0, 1, 1, 2, 3)))):
        attrs[draw(xml_names())] = draw(hostile_texts(clean, 4))
    items = []
    for _ in range(draw(st.integers(0, 4 if depth < 4 else 2))):
        k = draw(st.integers(0, 11))
        if k <= 4 and depth < MAX_DEPTH and budget[0] > 0:
            budget[0] -= 1
            items.append(draw(_nodes(depth + 1, clean, xhtml, budget)))
        elif k <= 7:
            items.append({'t': draw(hostile_texts(clean))})
        elif k == 8:
            if xhtml and draw(st.integers(0, 4)) == 0:
                # text with the line ends of another platform (CR LF, lone CR): every character is data
                items.append({'br': draw(st.sampled_from(['one\r\ntwo', 'a\r\n', '\r\nb', 'x\r\n\r\ny', 'p\rq\nr', '\r\n']))})
            else:
                items.append({'br': draw(hostile_texts(clean))} if xhtml else {'t': draw(hostile_texts(clean))})
        elif k == 9:
            items.append({'lit': draw(st.integers(0, len(LITERALS_XHTML if xhtml else LITERALS_XML) - 1))})
        elif k == 10:
            items.append({'sp': 1} if draw(st.booleans()) else
                         {'cmt': draw(st.one_of(hostile_texts(clean), st.sampled_from(['--', 'a--b', 'ends with -', '-', '-->', 'x -- y -- z', '<!-- -->', ' plain ', '---', '----', 'A---B', '== ----- ==', '-- ---', '-' * 9])))})
        elif budget[1] > 0 and draw(st.integers(0, 2)) == 0:
            budget[1] = 0
            items.append({'raise': 1})
    node = {'n': name, 'a': [[k, attrs[k]] for k in attrs], 'c': items, 'none': draw(st.booleans())}
    if depth >= 2 and len(budget) > 2 and budget[2] > 0 and draw(st.integers(0, 3)) == 0 and not any('raise' in it for it in items):
        # a keep-going writer: something raises inside this element (directly, or inside one of its children), the caller
        # catches it around the element's `with` block and goes on writing the siblings
        budget[2] -= 1
        kids = [it for it in items if 'n' in it and not it.get('catch') and not any('raise' in c or 'raise_c' in c for c in it['c'])]
        target = draw(st.sampled_from(kids))['c'] if kids and draw(st.booleans()) else items
        target.insert(draw(st.integers(0, len(target))), {'raise_c': 1})
        node['catch'] = True
    return node


@st.composite
def writer_cases(draw):
    xhtml = draw(st.booleans())
    clean = draw(st.integers(0, 9)) >= 3
    budget = [draw(st.sampled_from((2, 6, 12, 20))), 1 if draw(st.integers(0, 3)) == 0 else 0, draw(st.sampled_from((0, 0, 1, 2)))]
    if xhtml:
        n = draw(st.integers(0, 3))
        body = [draw(_nodes(2, clean, True, budget)) for _ in range(n)]
        if draw(st.integers(0, 3)) == 0:
            body.insert(draw(st.integers(0, len(body))), {'t': draw(hostile_texts(clean))})
        return {'stream': 'xhtml', 'body': body}
    return {'stream': 'xml', 'body': [draw(_nodes(1, clean, False, budget))]}


# ---------------------------------------------------------------------------------------------
# Part xml-writer: driver, model, comparison
# ---------------------------------------------------------------------------------------------
class _Boom(Exception):
    """Raised by the harness inside nested elements ("the writer's caller raised midway")."""


class _Caught(Exception):
    """Raised by the harness inside an element and caught by the harness around that element (a keep-going loop)."""


def _write_items(XmlWrite, xs, items, literals):
    for it in items:
        if 'n' in it:
            attrs = {k: v for k, v in it['a']}
            arg = None if (not attrs and it.get('none')) else attrs
            if it.get('catch'):
                try:
                    with XmlWrite.Element(xs, it['n'], arg):
                        _write_items(XmlWrite, xs, it['c'], literals)
                except _Caught:
                    pass
            else:
                with XmlWrite.Element(xs, it['n'], arg):
                    _write_items(XmlWrite, xs, it['c'], literals)
        elif 't' in it:
            xs.characters(it['t'])
        elif 'br' in it:
            xs.charactersWithBr(it['br'])
        elif 'lit' in it:
            xs.literal(literals[it['lit'] % len(literals)][0])
        elif 'sp' in it:
            xs.xmlSpacePreserve()
        elif 'cmt' in it:
            xs.comment(it['cmt'])
        elif 'raise' in it:
            raise _Boom()
        elif 'raise_c' in it:
            raise _Caught()


def write_tree(case):
    """Writes the case through the stream classes; returns (document text, raised midway?)."""
    from TotalDepth.util import XmlWrite
    out = io.StringIO()
    xhtml = case['stream'] == 'xhtml'
    cls = XmlWrite.XhtmlStream if xhtml else XmlWrite.XmlStream
    literals = LITERALS_XHTML if xhtml else LITERALS_XML
    boom = False
    try:
        with cls(out) as xs:
            _write_items(XmlWrite, xs, case['body'], literals)
    except _Boom:
        boom = True
    return out.getvalue(), boom


def _lit_content(content, ns):
    ret = []
    for c in content:
        if isinstance(c, str):
            ret.append(c)
        else:
            ret.append({'tag': ns + c[0], 'attrs': dict(c[1]), 'content': _lit_content(c[2], ns)})
    return ret


def _expected_content(items, ns, literals, state):
    """The model: what a parser has to see.  Content = list of str (user text) and element dicts."""
    content = []
    for it in items:
        if state['stop'] or state.get('unwinding'):
            break
        if 'n' in it:
            node = {'tag': ns + it['n'], 'attrs': {k: v for k, v in it['a']}, 'content': []}
            content.append(node)  # the start tag is out before anything inside can raise
            node['content'] = _expected_content(it['c'], ns, literals, state)
            if it.get('catch') and not state['stop']:
                state['unwinding'] = False      # caught around this element, which is closed like any other
        elif 'raise_c' in it:
            state['unwinding'] = True
        elif 't' in it:
            content.append(it['t'])
        elif 'br' in it:
            for i, piece in enumerate(it['br'].split('\n')):
                if i:
                    content.append({'tag': ns + 'br', 'attrs': {}, 'content': []})
                content.append(piece)
        elif 'lit' in it:
            content.extend(_lit_content(literals[it['lit'] % len(literals)][1], ns))
        elif 'raise' in it:
            state['stop'] = True
    return content


def expected_root(case):
    state = {'stop': False}
    if case['stream'] == 'xhtml':
        content = _expected_content(case['body'], XHTML_NS, LITERALS_XHTML, state)
        return {'tag': XHTML_NS + 'html', 'attrs': {XML_NS + 'lang': 'en', 'lang': 'en'}, 'content': content}
    return _expected_content(case['body'], '', LITERALS_XML, state)[0]


def _slots(content):
    """Splits model content into (children, slots): slots[i] = user text pieces before child i (last: after all)."""
    children, slots, cur = [], [], []
    for c in content:
        if isinstance(c, str):
            cur.append(c)
        else:
            slots.append(cur)
            cur = []
            children.append(c)
    slots.append(cur)
    return children, slots


def compare_element(cc, elem, exp, path='/', frozen=False):
    """Compares a parsed element with the model; reports deviations; returns the number of strings compared exactly.
    ``frozen``: text has already been written into an ancestor before this element was started.  XmlStream documents
    that indentation is suspended for an element and its descendants once it holds text (mixed content), so from
    then on no layout white space may appear in any slot of the subtree."""
    compared = 0
    here = path + exp['tag'].split('}')[-1]
    if elem.tag != exp['tag']:
        cc.dev('tree-structure', 'element-name-differs', 'at %s: parsed %s, model %s' % (_a(here), _a(elem.tag), _a(exp['tag'])))
        return compared
    # attributes, both directions
    got = dict(elem.attrib)
    if sorted(got) != sorted(exp['attrs']):
        cc.dev('attributes-recovered', 'attribute-names-differ',
               'at %s: parsed %s, model %s' % (_a(here), _a(sorted(got)), _a(sorted(exp['attrs']))))
    for k, v in exp['attrs'].items():
        if k not in got:
            continue
        if not char_only(v):
            cc.cls('writer:non-char-string-not-compared')
            continue
        compared += 1
        if got[k] != v:
            norm = v.replace('\r\n', '\n').replace('\t', ' ').replace('\n', ' ').replace('\r', ' ')
            sig = 'attribute-value:white-space-normalised-away' if got[k] == norm else 'attribute-value-changed'
            cc.dev('attributes-recovered', sig, 'at %s/@%s: wrote %s, parsed %s' % (_a(here), _a(k), _a(v), _a(got[k])))
    # children and text slots
    children, slots = _slots(exp['content'])
    kids = list(elem)
    if len(kids) != len(children):
        cc.dev('tree-structure', 'child-count-differs', 'at %s: parsed %d children %s, model %d %s' % (
            _a(here), len(kids), _a([k.tag for k in kids][:8]), len(children), _a([c['tag'] for c in children][:8])))
        return compared
    texts = [elem.text or ''] + [k.tail or '' for k in kids]
    suspended = frozen
    frozen_for_child = []
    for i, (pieces, text) in enumerate(zip(slots, texts)):
        user = ''.join(pieces)
        if user == '':
            if text.strip(XML_WS) != '':
                cc.dev('text-recovered', 'text-invented-in-empty-slot', 'at %s slot %d: parsed %s, nothing written' % (
                    _a(here), i, _a(text)))
            elif suspended and text != '':
                cc.cls('writer:mixed-content-descendant-slot-checked')
                cc.dev('text-recovered', 'layout-white-space-inside-mixed-content', 'at %s slot %d: %s inserted although text was '
                       'written earlier in this element or an ancestor (indentation is documented as suspended there)' % (_a(here), i, _a(text)))
            elif suspended:
                cc.cls('writer:mixed-content-descendant-slot-checked')
            frozen_for_child.append(suspended)
            continue
        suspended = True
        frozen_for_child.append(True)
        if not char_only(user):
            cc.cls('writer:non-char-string-not-compared')
            continue
        compared += 1
        if text != user:
            if text.strip(XML_WS) == user.strip(XML_WS) and text != user:
                sig = 'text:white-space-differs'
            elif text.replace('\r\n', '\n').replace('\r', '\n') == user.replace('\r\n', '\n').replace('\r', '\n'):
                sig = 'text:line-ends-normalised-away'
            else:
                sig = 'text-changed'
            cc.dev('text-recovered', sig, 'at %s slot %d: wrote %s, parsed %s' % (_a(here), i, _a(user), _a(text)))
    for n, (k, c) in enumerate(zip(kids, children)):
        compared += compare_element(cc, k, c, here + '/', frozen_for_child[n] if n < len(frozen_for_child) else suspended)
    return compared


def _case_strings(items, out, depth=1, stats=None):
    for it in items:
        if 'n' in it:
            stats['depth'] = max(stats['depth'], depth)
            kids = 0
            texts = 0
            for _k, v in it['a']:
                out.append(('a', v))
            _case_strings(it['c'], out, depth + 1, stats)
            for c in it['c']:
                kids += 'n' in c
                texts += ('t' in c and c['t'] != '') or ('br' in c and c['br'] != '')
            if kids and texts:
                stats['mixed'] = True
        elif 't' in it:
            out.append(('t', it['t']))
        elif 'br' in it:
            out.append(('b', it['br']))
            if '\n' in it['br']:
                stats['br_lf'] = True
        elif 'lit' in it:
            stats['lit'] = True
        elif 'raise' in it:
            stats['raise'] = True
        elif 'raise_c' in it:
            stats['caught'] = True
        elif 'cmt' in it:
            stats['comment'] = True
            if '--' in it['cmt'] or it['cmt'].endswith('-'):
                stats['comment_hyphens'] = True
        elif 'sp' in it:
            stats['sp'] = True


def _is_nontrivial_string(s):
    return any(c in MARKUP for c in s) and any(ord(c) > 0x7e or ord(c) < 0x20 for c in s)


def check_tree(case, cc):
    strings, stats = [], {'depth': 0, 'mixed': False, 'br_lf': False, 'lit': False, 'raise': False, 'sp': False}
    _case_strings(case['body'], strings, 2 if case['stream'] == 'xhtml' else 1, stats)
    has_non_char = any(not char_only(s) for _k, s in strings)
    cc.cls('writer:xhtml-stream', case['stream'] == 'xhtml')
    cc.cls('writer:xml-stream', case['stream'] == 'xml')
    cc.cls('writer:has-non-char', has_non_char)
    cc.cls('writer:clean', not has_non_char)
    cc.cls('writer:depth>=4', stats['depth'] >= 4)
    cc.cls('writer:depth==5', stats['depth'] >= 5)
    cc.cls('writer:mixed-content', stats['mixed'])
    cc.cls('writer:charactersWithBr-with-LF', stats['br_lf'])
    cc.cls('writer:literal', stats['lit'])
    cc.cls('writer:raise-midway', stats['raise'])
    cc.cls('writer:exception-caught-around-an-element', bool(stats.get('caught')))
    cc.cls('writer:comment', bool(stats.get('comment')))
    cc.cls('writer:comment-with-double-hyphen', bool(stats.get('comment_hyphens')))
    cc.cls('writer:xmlSpacePreserve', stats['sp'])
    cc.cls('writer:attr-tab-lf-cr', any(k == 'a' and any(c in s for c in '\t\n\r') for k, s in strings))
    cc.cls('writer:attr-markup', any(k == 'a' and any(c in s for c in MARKUP) for k, s in strings))
    cc.cls('writer:attr-quote', any(k == 'a' and '"' in s for k, s in strings))
    cc.cls('writer:text-markup', any(k != 'a' and any(c in s for c in MARKUP) for k, s in strings))
    cc.cls('writer:text-cr', any(k != 'a' and '\r' in s for k, s in strings))
    cc.cls('writer:non-bmp', any(any(ord(c) > 0xffff for c in s) for _k, s in strings))
    cc.cls('writer:lone-surrogate', any(any(0xd800 <= ord(c) <= 0xdfff for c in s) for _k, s in strings))
    cc.cls('writer:c0-control', any(any(c in _C0 for c in s) for _k, s in strings))
    cc.cls('writer:fffe-ffff', any(any(c in '\ufffe\uffff' for c in s) for _k, s in strings))
    cc.nt(any(_is_nontrivial_string(s) for _k, s in strings))
    try:
        doc, boom = write_tree(case)
    except Exception as err:  # noqa
        cc.unexpected(err)
        return
    st_ = {'stop': False}
    _expected_content(case['body'], '', LITERALS_XHTML if case['stream'] == 'xhtml' else LITERALS_XML, st_)
    if boom != st_['stop']:
        raise engine.HarnessError('the midway exception was %s' % ('not raised' if st_['stop'] else 'raised, the model says it is skipped'))
    cc.sample({'stream': case['stream'], 'document': _a(doc, 400)})
    root, bad = parse_document(doc)
    if bad is not None:
        sig, detail = bad
        if sig == SIG_BAD_CHAR_REF and not has_non_char:
            sig = SIG_BAD_CHAR_REF + ':for-legal-input'
        cc.dev(ORACLE_PARSES, sig, 'route xml-writer (%s%s): %s' % (case['stream'], ', exception midway' if boom else '', detail))
        return
    cc.cls('writer:parsed-with-non-char', has_non_char)
    n = compare_element(cc, root, expected_root(case))
    cc.cls('writer:content-compared', n > 0)


# ---------------------------------------------------------------------------------------------
# Part las-html
# ---------------------------------------------------------------------------------------------
_LAS_CLEAN = st.one_of(
    st.sampled_from(MARKUP), st.sampled_from(MARKUP),
    st.text(alphabet=st.characters(min_codepoint=0x21, max_codepoint=0x7e, exclude_characters=':'), min_size=1, max_size=5),
    st.characters(min_codepoint=0xa1, max_codepoint=0xd7ff, exclude_categories=('Zs', 'Zl', 'Zp', 'Cs')),
    st.characters(min_codepoint=0x10000, max_codepoint=0x10ffff),
    st.sampled_from((']]>', '&amp;', '&#0;', '<!--', '-->', '<b>', '</td>', '&nbsp;', '"', "'", '\x7f', '\ufffd', '\x9f', '=">')),
)
_LAS_HOSTILE = st.sampled_from([chr(c) for c in range(0x20) if c not in (9, 10, 13, 0xb, 0xc, 0x1c, 0x1d, 0x1e, 0x1f)]
                               + ['\ufffe', '\uffff', '\x00', '\x01'])


def _python_retypes(s: str) -> bool:
    """What LASRead.string_to_value documents: int, else float, else yes/no."""
    for fn in (int, float):
        try:
            fn(s)
            return True
        except ValueError:
            pass
    return s.strip().lower() in ('yes', 'no') or lasfmt.retypeable(s)


@st.composite
def las_strings(draw, clean, blanks=True, dots=True, min_pieces=1):
    """A hostile string for a LAS field: no line break, no colon; optionally no blank / no dot; never empty, first and
    last character not white space, does not start with # or ~, not something the typing rule would change."""
    n = draw(st.integers(min_pieces, 4))
    pieces = []
    for i in range(n):
        pieces.append(draw(_LAS_CLEAN))
        if blanks and i + 1 < n and draw(st.booleans()):
            pieces.append(draw(st.sampled_from((' ', '  ', '\t'))))
    if not clean and draw(st.integers(0, 1)) == 0:
        pieces.insert(draw(st.integers(1, len(pieces))), draw(_LAS_HOSTILE))
        pieces.append('z')
    s = ''.join(pieces).replace(':', ';')
    if not dots:
        s = s.replace('.', ',')
    if not blanks:
        s = ''.join(c for c in s if not c.isspace())
    if not s or s[0].isspace() or s[0] in '#~' or s[-1].isspace() or _python_retypes(s):
        s = 'h' + s.strip() + 'h'
    return s


_SECT_TYPE_CHARS = ('"', "'", '<', '&', '>', '\xe9', 'Z', '1', 'x', '%', '\u20ac', '\U0001f600', '=', '/', '\x01', '\ufffe')
_REQUIRED_W = ('STRT', 'STOP', 'STEP', 'NULL')


@st.composite
def las_html_cases(draw):
    model = draw(genlas.las_models(max_curves=5, max_frames=6, max_lines=4, bad_pct=3))
    layout = draw(genlas.layouts())
    clean = draw(st.integers(0, 3)) != 0
    used = {s: set(line['mnem'] for line in model.get(s, [])) for s in 'WCP'}
    for sect in 'WCP':
        for i, line in enumerate(model.get(sect, [])):
            fixed = (sect == 'W' and line['mnem'] in _REQUIRED_W) or (sect == 'C' and i == 0)
            k = draw(st.integers(0, 7))
            if k == 0:
                line['desc'] = draw(las_strings(clean))
            elif k == 1 and not fixed:
                line['unit'] = draw(las_strings(clean, blanks=False))
            elif k == 2 and not fixed and sect != 'C':
                line['value'], line['kind'] = draw(las_strings(clean)), 'text'
            elif k == 3 and not fixed:
                m = draw(las_strings(clean, blanks=False, dots=False))
                if m not in used[sect]:
                    used[sect].add(m)
                    line['mnem'] = m
    if 'O' in model:
        model['O'] = [draw(las_strings(clean)) if draw(st.booleans()) else t for t in model['O']]
    custom = []
    for ch in draw(st.lists(st.sampled_from(_SECT_TYPE_CHARS if not clean else _SECT_TYPE_CHARS[:-2]), max_size=2, unique=True)):
        custom.append({'type': ch, 'title': draw(st.sampled_from(('', ' user section', '_X <b>&'))),
                       'lines': [draw(las_strings(clean)) for _ in range(draw(st.integers(0, 3)))]})
    return {'model': model, 'layout': layout, 'custom': custom}


def render_las_case(case) -> str:
    text = genlas.render_las(case['model'], case['layout'])
    if case['custom']:
        lines = text.split('\n')
        at = [i for i, l in enumerate(lines) if l.startswith('~A')]
        if len(at) != 1:
            raise engine.HarnessError('cannot locate the ~A title line')
        extra = []
        for c in case['custom']:
            extra.append('~' + c['type'] + c['title'])
            extra.extend(c['lines'])
        lines[at[0]:at[0]] = extra
        text = '\n'.join(lines)
    return text


def las_to_html(las_path, html_path):
    """Calls LASToHTML.las_file_to_html the way scan_a_single_file does.  Returns None or the exception raised."""
    from TotalDepth.LAS import LASToHTML
    from TotalDepth.common import Slice
    try:
        LASToHTML.las_file_to_html(las_path, html_path, 'LAS2.0', True, False, Slice.Slice())
    except Exception as err:  # noqa - judged by the caller
        return err
    return None


def check_las_html(case, cc):
    model = case['model']
    text = render_las_case(case)
    enc = locale.getpreferredencoding(False)
    raw = text.encode(enc, 'replace')
    seen = raw.decode(enc, 'replace')  # what LASRead's open(path, 'r', errors='replace') yields
    strings = [line[k] for s in 'WCP' for line in model.get(s, []) for k in ('mnem', 'unit', 'value', 'desc')]
    strings += list(model.get('O', [])) + [x for c in case['custom'] for x in [c['type'], c['title']] + c['lines']]
    has_non_char = not char_only(seen)
    cc.cls('las:has-non-char', has_non_char)
    cc.cls('las:clean', not has_non_char)
    cc.cls('las:custom-section', bool(case['custom']))
    cc.cls('las:custom-section-type-is-markup', any(c['type'] in MARKUP for c in case['custom']))
    cc.cls('las:hostile-markup', any(any(ch in '<&' for ch in s) for s in strings))
    cc.cls('las:non-ascii', any(ord(ch) > 0x7f for ch in seen))
    cc.nt(any(_is_nontrivial_string(s) for s in strings))
    with tempfile.TemporaryDirectory(prefix='vt_c18_') as d:
        las_path = os.path.join(d, 'case.las')
        html_path = os.path.join(d, 'case.las.html')
        with open(las_path, 'wb') as f:
            f.write(raw)
        logging.disable(logging.CRITICAL)
        try:
            err = las_to_html(las_path, html_path)
        finally:
            logging.disable(logging.NOTSET)
        release_exception_frames(err)
        if not os.path.exists(html_path):
            # the reader refused the text before anything was written: not a document, not C18's business
            cc.cls('las:reader-rejected')
            cc.cls('las:reader-rejected:%s' % type(err).__name__, err is not None)
            if err is None:
                cc.dev('las-page-written', 'no-page-and-no-error', 'las_file_to_html returned without writing %s' % html_path)
            return
        with open(html_path, 'rb') as f:
            page = f.read()
    cc.sample({'las': _a(text, 500)})
    if err is not None:
        cc.cls('las:writer-raised-midway')
        cc.unexpected(err)
    root, bad = parse_document(page)
    if bad is not None:
        sig, detail = bad
        if sig == SIG_BAD_CHAR_REF and not has_non_char:
            sig = SIG_BAD_CHAR_REF + ':for-legal-input'
        cc.dev(ORACLE_PARSES, sig, 'route las-html: %s' % detail)
        cc.cls('las:page-parsed-or-known', sig == SIG_BAD_CHAR_REF)
        return
    cc.cls('las:page-parsed-or-known')
    cc.cls('las:page-parsed')
    if err is not None:
        return
    # ~O and user defined sections are written line by line as <pre class="las">
    expect = []
    for sect in model['order']:
        if sect == 'O':
            expect.extend(model['O'])
    for c in case['custom']:
        expect.extend(c['lines'])
    expect = [s.encode(enc, 'replace').decode(enc, 'replace') for s in expect]
    got = [''.join(e.itertext()) for e in root.iter(XHTML_NS + 'pre') if e.get('class') == 'las']
    if all(char_only(s) for s in expect):
        if got != expect:
            sig = 'pre-lines-reordered' if sorted(got) == sorted(expect) else 'pre-lines-differ'
            cc.dev('las-text-recovered', sig, 'expected %s got %s' % (_a(expect), _a(got)))
        cc.cls('las:text-lines-compared', bool(expect))
    # the anchors of the sections carry the section type as an attribute value
    types = ['V'] + list(model['order']) + [c['type'] for c in case['custom']] + ['A']
    names = [e.get('name') for e in root.iter(XHTML_NS + 'a') if e.get('name') is not None]
    want = ['Top'] + [t.encode(enc, 'replace').decode(enc, 'replace') for t in types]
    if all(char_only(t) for t in want) and names != want:
        cc.dev('attributes-recovered', 'section-anchor-names-differ', 'expected %s got %s' % (_a(want), _a(names)))


# ---------------------------------------------------------------------------------------------
# Part bundled-files
# ---------------------------------------------------------------------------------------------
def lis_to_html(path_in, out_dir):
    """LisToHtml.processFile as the command line tool calls it; returns the exception or None."""
    from TotalDepth.LIS import LisToHtml
    try:
        LisToHtml.processFile(path_in, os.path.join(out_dir, os.path.basename(path_in)), True)
    except Exception as err:  # noqa
        return err
    return None


def rp66v1_to_html(path_in, out_dir):
    from TotalDepth.RP66V1 import ScanHTML
    from TotalDepth.common import Slice
    out = os.path.join(out_dir, os.path.basename(path_in) + '.html')
    try:
        with open(out, 'w') as fout:
            ScanHTML.html_scan_RP66V1_file_data_content(path_in, fout, False, Slice.Slice(), False)
    except Exception as err:  # noqa
        return err
    return None


def rp66v1_to_index_xml(path_in, out_dir):
    from TotalDepth.RP66V1 import IndexXML
    from TotalDepth.RP66V1.core import LogicalFile
    out = os.path.join(out_dir, os.path.basename(path_in) + '.xml')
    try:
        with LogicalFile.LogicalIndex(path_in) as logical_index:
            with open(out, 'w') as fout:
                IndexXML.write_logical_file_sequence_to_xml(logical_index, fout, False)
    except Exception as err:  # noqa
        return err
    return None


def _las_bundled(path_in, out_dir):
    return las_to_html(path_in, os.path.join(out_dir, os.path.basename(path_in) + '.html'))


ROUTES = {
    'lis-html': ('LIS', lis_to_html),
    'rp66v1-html': ('RP66V1', rp66v1_to_html),
    'rp66v1-index-xml': ('RP66V1', rp66v1_to_index_xml),
    'las-html': ('LAS', _las_bundled),
}


def bundled_cases():
    ret = []
    for route in sorted(ROUTES):
        sub = ROUTES[route][0]
        for p in sorted(glob.glob(os.path.join(engine.REPO, 'example_data', sub, 'data', '*'))):
            if os.path.isfile(p):
                ret.append({'route': route, 'file': os.path.join(sub, 'data', os.path.basename(p))})
    return ret


def check_bundled(case, cc):
    route = case['route']
    path_in = os.path.join(engine.REPO, 'example_data', case['file'])
    if not os.path.isfile(path_in):
        raise engine.HarnessError('bundled file missing: %s' % path_in)
    cc.cls('bundled:' + route)
    with tempfile.TemporaryDirectory(prefix='vt_c18_') as d:
        logging.disable(logging.CRITICAL)
        try:
            err = ROUTES[route][1](path_in, d)
        finally:
            logging.disable(logging.NOTSET)
        release_exception_frames(err)
        docs = check_output_files(cc, d, route)
    cc.nt(bool(docs), key=[route, case['file']])
    cc.sample({'route': route, 'file': case['file'], 'documents': sorted(docs)})
    if err is not None:
        cc.unexpected(err)
    if not docs:
        cc.dev('document-written', 'no-document', 'route %s wrote nothing for %s' % (route, case['file']))
    cc.cls('bundled:all-documents-parse', bool(docs) and all(r is not None for r in docs.values()))


def run_bundled(ctx, part, tier, shard, nshards):
    for i, case in enumerate(bundled_cases()):
        if i % nshards == shard:
            ctx.eval_case(part, case)


# ---------------------------------------------------------------------------------------------
#: parts that other modules plug in (generated DLIS / LIS files): callables tier -> list of parts
EXTRA_PARTS = []


def parts(tier):
    ret = [
        HypPart('xml-writer', writer_cases(), check_tree, 5000, 80000),
        HypPart('las-html', las_html_cases(), check_las_html, 400, 6000),
        EnumPart('bundled-files', run_bundled, check_bundled),
    ]
    for fn in EXTRA_PARTS:
        ret.extend(fn(tier))
    from vt.props import c18_files   # parts that need generated RP66V1 / LIS files
    ret.extend(c18_files.parts(tier))
    from vt.props import c18_svg     # the element classes of SVGWriter with attribute dictionaries the caller reuses
    ret.append(HypPart('svg-writer', c18_svg.documents(), c18_svg.check_svg_writer, 1200, 20000))
    return ret


RULE += "  Added after the seeding rounds: comments (also with -- and a trailing -) and exceptions caught around an element in the xml-writer documents; rp66v1-xml-index with private record types 128..255 and both settings of the writer's private option; attribute values compared."
RULE += '  Part svg-writer: 2..12 elements of the SVGWriter element classes (groups nested to depth 2), attributes from a pool of 1..3 dictionaries that several elements share.'
RULE += '  Round 17: rp66v1-xml-index compares the index also when the document holds illegal character references (replaced by U+FFFD first).'
