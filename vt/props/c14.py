"""C14 - DAT mud-log files parse to their declared channels and values.

Oracles
  * valid: a model (declarations, header, rows) rendered to text by the independent ``vt.gen.dat`` must parse to the
    model: one channel per header name in header order, description / units of its declaration, one frame per row,
    numeric columns == ``float(token)``, UTIM / DATE / TIME columns == the date-time objects the tokens denote
    (computed from the model's integers, not from the text); ``can_parse_file`` is true when there is >= 1 row.
  * corrupted: exactly one line of a valid text is damaged (a data row with a column dropped / added, a header name
    renamed to an undeclared one / duplicated, a numeric token replaced by text that is not a number, a mangled
    date or time token); ``parse_file`` must raise ``ExceptionDAT`` - no other exception and no frame array - and
    ``can_parse_file`` must say False when the damage is at or before the first data row.
  * the bundled example file through an independent reader.
"""
import datetime
import io
import os

from hypothesis import strategies as st  # noqa: F401

from vt.engine import EnumPart, HarnessError, HypPart, REPO
from vt.gen import dat

PID = 'C14'
LEVEL = 'exploration'
TECHNIQUE = 'property-based testing (Hypothesis) with an independent DAT renderer; fault injection by single-line corruption'
LEVEL_TEXT = ('generated DAT texts and single-line corruptions of them checked against a model; counts, classes and samples '
              'in the evidence file; no claim beyond the cases explored')
RULE = ('valid: Hypothesis draws a model - UTIM/DATE/TIME + 1..9 numeric declarations (names [A-Z0-9]{2,6}, 1..4 word '
        'descriptions, one word units) in any order with space / tab / multi-character separators, a header UTIM DATE TIME + a '
        'non-empty subset of the numeric channels in any order, 0..20 rows (UTIM 0..2^31-1, dates 1951..2050 in both spellings '
        'with padded or bare day, times hh-mm-ss, numbers as integers / decimals / exponents), LF or CRLF, trailing blanks - '
        'rendered by vt.gen.dat.  Non-trivial: >= 2 rows and (the header omits a declared channel or the declarations are not in '
        'header order).  corrupted: such a model (>= 1 row for row corruptions) + one corruption of one line; every case is '
        'non-trivial.  Distinct = distinct model (+ corruption).')
ASSUMPTIONS = [
    'UTIM, DATE, TIME are declared with units sec, ddmmyy, hhmmss (the keys of NAME_VALUE_CONVERSION_MAP); other units for '
    'these names are outside the documented domain',
    'declarations are unique, descriptions have >= 1 word, no blank lines, no leading whitespace (the docstring promises '
    'tolerance of trailing spaces only)',
    'replacement text for a numeric token is restricted to strings Python float() and int() reject (nan, inf, 1e5, 1_0 are '
    'numbers, hence not corruptions); date mangles exclude all-digit spellings (ddmmyy / dd-mm-yy) and ISO dates, time '
    'mangles exclude hhmmss without separators and second 60/61, which another reader could legitimately accept',
    'can_parse_file on a file without data rows is not asserted (the property says nothing; the implementation says False)',
    'description is compared after joining its words with single spaces (free text, whitespace separated)',
]
SHARDS = {'quick': 4, 'thorough': 16}
REQUIRED_CLASSES = {'valid-nontrivial': 1, 'rows==0': 1, 'rows>=2': 1, 'header-omits-declared': 1,
                    'decl-order!=header-order': 1, 'date-style-A': 1, 'date-style-B': 1, 'date-bare-day': 1,
                    'date-year-50': 1, 'date-year-51': 1, 'sep-tab': 1, 'sep-multi': 1, 'crlf': 1, 'number-exponent': 1,
                    'time-hour>=12': 1, 'bundled-file': 1,
                    'corrupt:row-drop-col': 1, 'corrupt:row-add-col': 1, 'corrupt:header-rename': 1,
                    'corrupt:header-dup-replace': 1, 'corrupt:header-dup-insert': 1, 'corrupt:row-text': 1,
                    'corrupt:row-date': 1, 'corrupt:row-time': 1, 'corrupt:row-text-utim': 1, 'corrupt:last-row': 1,
                    'corrupt:date:trailing-junk': 1, 'corrupt:time:hour-too-big': 1, 'corrupt:row-utim-overlong': 1, 'process-time-zone:JST-9': 1, 'process-time-zone:NST3:30': 1}
EXAMPLE = 'example_data/DAT/data/example.dat'


def _mods():
    from TotalDepth.DAT import DAT_parser
    return DAT_parser


# --------------------------------------------------------------------------------------------
def classify(model, cc):
    rows = model['rows']
    declared_numeric = [d['name'] for d in model['decls'] if d['name'] not in dat.RESERVED]
    decl_order = [d['name'] for d in model['decls'] if d['name'] in model['header']]
    omits = len(model['header']) - 3 < len(declared_numeric)
    disorder = decl_order != list(model['header'])
    seps = [s for d in model['decls'] for s in d['seps']] + list(model['header_seps']) + [s for r in rows for s in r['seps']]
    cc.cls('rows==0', not rows)
    cc.cls('rows==1', len(rows) == 1)
    cc.cls('rows>=2', len(rows) >= 2)
    cc.cls('header-omits-declared', omits)
    cc.cls('decl-order!=header-order', disorder)
    cc.cls('sep-tab', any('\t' in s for s in seps))
    cc.cls('sep-multi', any(len(s) > 1 for s in seps))
    cc.cls('crlf', model['eol'] == '\r\n')
    cc.cls('no-final-eol', not model['final_eol'])
    cc.cls('row-trailing-blank', any(r['trail'] for r in rows))
    cc.cls('date-style-A', any(r['date']['style'] == 'A' for r in rows))
    cc.cls('date-style-B', any(r['date']['style'] == 'B' for r in rows))
    cc.cls('date-bare-day', any(r['date']['d'] < 10 and not r['date']['pad'] for r in rows))
    cc.cls('date-year-50', any(r['date']['y'] == 2050 for r in rows))
    cc.cls('date-year-51', any(r['date']['y'] == 1951 for r in rows))
    cc.cls('date-19xx', any(r['date']['y'] < 2000 for r in rows))
    cc.cls('time-hour>=12', any(r['time'][0] >= 12 for r in rows))
    cc.cls('number-exponent', any('e' in t.lower() for r in rows for t in r['nums']))
    cc.cls('channels>=6', len(model['header']) >= 9)
    return len(rows) >= 2 and (omits or disorder)


def parse_devs(model, text, cc, fobj=None):
    """The valid-file oracles.  Returns False when the text was rejected."""
    DAT_parser = _mods()
    # the Unix time column denotes the same instant on every machine: the process time zone is varied (POSIX TZ strings, no
    # zone database needed); the expected date/time objects are UTC as the bundled file and its DATE / TIME columns show
    import time as _time
    tz = ('UTC0', 'JST-9', 'NST3:30', 'XXX-12:45')[len(text) % 4]
    os.environ['TZ'] = tz
    _time.tzset()
    cc.cls('process-time-zone:' + tz)
    try:
        fa = DAT_parser.parse_file(io.StringIO(text) if fobj is None else fobj)
    except DAT_parser.ExceptionDAT as err:
        cc.dev('accepts-valid', 'rejected-valid', 'valid text rejected: %s\n%s' % (err, text[:600]))
        return False
    except Exception as err:  # noqa
        cc.unexpected(err)
        return False
    exp = dat.expected_channels(model)
    got_names = [c.ident for c in fa.channels]
    if got_names != [e[0] for e in exp]:
        cc.dev('channels==header', 'channel-names', 'channels %r, header %r' % (got_names, [e[0] for e in exp]))
        return True
    nrows = len(model['rows'])
    for (name, desc, units, kind, vals), ch in zip(exp, fa.channels):
        if ch.long_name != desc:
            cc.dev('declaration-fields', 'description', 'channel %s: description %r, declared %r' % (name, ch.long_name, desc))
        if ch.units != units:
            cc.dev('declaration-fields', 'units', 'channel %s: units %r, declared %r' % (name, ch.units, units))
        shape = tuple(ch.array.shape)
        if shape != (nrows, 1):
            cc.dev('frames==rows', 'frame-count', 'channel %s: array shape %r for %d data rows' % (name, shape, nrows))
            continue
        got = [ch.array[j][0] for j in range(nrows)]
        if kind == 'float':
            if str(ch.array.dtype) != 'float64':
                cc.dev('values==model', 'numeric-dtype', 'channel %s: dtype %s' % (name, ch.array.dtype))
            if not all(isinstance(g, (int, float)) or type(g).__module__ == 'numpy' and hasattr(g, '__float__') for g in got):
                cc.dev('values==model', 'numeric-column-not-numbers', 'channel %s (units %r): values of type %s' % (
                    name, units, sorted({type(g).__name__ for g in got})))
                continue
            bad = [j for j in range(nrows) if not (float(got[j]) == vals[j])]
            if bad:
                j = bad[0]
                col = model['header'].index(name)
                elsewhere = any(float(got[j]) == float(t) for r in model['rows'] for t in r['nums'])
                cc.dev('values==model', 'numeric-misplaced' if elsewhere else 'numeric-value',
                       'channel %s row %d: %r, token %r (column %d) is %r' % (
                           name, j, got[j], model['rows'][j]['nums'][col - 3], col, vals[j]))
        else:
            want_type = {'utim': datetime.datetime, 'date': datetime.date, 'time': datetime.time}[kind]
            bad = [j for j in range(nrows) if type(got[j]) is not want_type or got[j] != vals[j]]
            if bad:
                j = bad[0]
                tok = dat.row_tokens(model['rows'][j])[{'utim': 0, 'date': 1, 'time': 2}[kind]]
                cc.dev('values==model', kind + '-value', 'channel %s row %d: %r, token %r denotes %r' % (
                    name, j, got[j], tok, vals[j]))
    try:
        can = DAT_parser.can_parse_file(io.StringIO(text))
    except Exception as err:  # noqa
        cc.unexpected(err, 'can_parse_file')
        return True
    if nrows >= 1 and can is not True:
        cc.dev('can_parse_file', 'false-on-valid', 'can_parse_file gave %r for a valid text with %d rows' % (can, nrows))
    return True


def check_valid(case, cc):
    dat.self_check()
    model = case
    try:
        text = dat.render_dat(model)
    except dat.DatModelError as err:
        raise HarnessError('generator produced an invalid model: %s' % err)
    nt = classify(model, cc)
    cc.nt(nt)
    cc.cls('valid-nontrivial', nt)
    cc.sample({'text': text})
    parse_devs(model, text, cc)


def check_corrupted(case, cc):
    dat.self_check()
    DAT_parser = _mods()
    model, c = case['model'], case['corruption']
    try:
        good = dat.render_dat(model)
        text = dat.render_dat(model, c)
        line = dat.corruption_line(model, c)
        first_row_line = len(model['decls']) + 1
    except dat.DatModelError as err:
        raise HarnessError('generator produced an invalid model / corruption: %s' % err)
    if text == good:
        raise HarnessError('corruption %r leaves the text unchanged' % (c,))
    gl, tl = good.split(model['eol']), text.split(model['eol'])
    if len(gl) != len(tl) or [i for i in range(len(gl)) if gl[i] != tl[i]] != [line]:
        raise HarnessError('corruption %r changes other lines than %d' % (c, line))
    what = dat.describe_corruption(c)
    # the uncorrupted text must be acceptable, otherwise the rejection proves nothing (the valid part reports that)
    try:
        DAT_parser.parse_file(io.StringIO(good))
    except Exception:  # noqa
        cc.cls('corrupt:base-text-rejected')
        return
    cc.nt(True)
    cc.cls('corrupt:' + c['kind'])
    if c['kind'] in ('row-date', 'row-time'):
        cc.cls('corrupt:%s:%s' % (c['kind'][4:], c['how']))
    cc.cls('corrupt:row-text-utim', c['kind'] == 'row-text' and c['col'] == 0)
    cc.cls('corrupt:first-row', 'row' in c and c['row'] == 0)
    cc.cls('corrupt:last-row', 'row' in c and c['row'] == len(model['rows']) - 1 and c['row'] > 0)
    cc.cls('corrupt:model-has-no-rows', not model['rows'])
    cc.sample({'corruption': what, 'line': line + 1, 'good_line': gl[line], 'corrupted_line': tl[line]})
    where = '%s on line %d: %r -> %r' % (what, line + 1, gl[line], tl[line])
    try:
        fa = DAT_parser.parse_file(io.StringIO(text))
    except DAT_parser.ExceptionDAT:
        pass
    except Exception as err:  # noqa
        cc.dev('rejects-with-ExceptionDAT', 'other-exception:%s:%s' % (type(err).__name__, c['kind']),
               '%s raised %r instead of ExceptionDAT' % (where, err))
    else:
        cc.dev('rejects-corrupt', 'accepted:' + what, '%s accepted: channels %r, frames %r' % (
            where, [ch.ident for ch in fa.channels], [len(ch.array) for ch in fa.channels][:6]))
    try:
        can = DAT_parser.can_parse_file(io.StringIO(text))
    except Exception as err:  # noqa
        cc.dev('can_parse_file', 'raises:%s' % type(err).__name__, '%s: can_parse_file raised %r' % (where, err))
        return
    if line <= first_row_line and can is not False:
        cc.dev('can_parse_file', 'true-on-corrupt:' + c['kind'], '%s: can_parse_file gave %r' % (where, can))


def check_bundled(case, cc):
    path = os.path.join(REPO, case['path'])
    try:
        model = dat.self_check(path)
    except dat.DatModelError as err:
        raise HarnessError('independent reader cannot read the bundled file: %s' % err)
    with open(path, newline='') as f:
        text = f.read()
    cc.cls('bundled-file')
    classify(model, cc)
    cc.nt(True)
    cc.sample({'path': case['path'], 'channels': len(model['header']), 'rows': len(model['rows'])})
    parse_devs(model, text, cc)


@st.composite
def handle_histories(draw):
    model = draw(dat.dat_models(max_channels=4, max_rows=4))
    ops = draw(st.lists(st.sampled_from(['can', 'parse']), min_size=2, max_size=4))
    return {'model': model, 'ops': ops}


def check_handle_history(case, cc):
    """The library's own calls on ONE open file object, in any order: identification (can_parse_file) then parsing, parsing
    twice.  Each parse must give what a parse of a fresh object gives (the full valid-file oracle)."""
    DAT_parser = _mods()
    model, ops = case['model'], case['ops']
    try:
        text = dat.render_dat(model)
    except dat.DatModelError as err:
        raise HarnessError('generator produced an invalid model: %s' % err)
    if not model['rows']:
        return
    cc.nt('parse' in ops[1:])
    cc.cls('handle-history:parse-after-identify', any(a == 'can' and b == 'parse' for a, b in zip(ops, ops[1:])))
    cc.cls('handle-history:parse-twice', ops.count('parse') >= 2)
    fobj = io.StringIO(text)
    for i, op in enumerate(ops):
        if op == 'can':
            try:
                ok = DAT_parser.can_parse_file(fobj)
            except Exception as err:  # noqa
                cc.unexpected(err)
                return
            if not ok:
                cc.dev('handle-history', 'identify-says-no', 'step %d of %r: can_parse_file() is False for valid text\n%s' % (i, ops, text[:400]))
                return
        elif not parse_devs(model, text, cc, fobj):
            return


def run_bundled(ctx, part, tier, shard, nshards):
    if shard == 0:
        ctx.eval_case(part, {'path': EXAMPLE})


def parts(tier):
    return [
        EnumPart('bundled-file', run_bundled, check_bundled),
        HypPart('valid', dat.dat_models(), check_valid, 1600, 16000),
        HypPart('valid-small', dat.dat_models(max_channels=3, max_rows=3), check_valid, 800, 8000),
        HypPart('corrupted', dat.dat_corrupted(), check_corrupted, 2400, 32000),
        HypPart('handle-history', handle_histories(), check_handle_history, 600, 6000),
    ]


RULE += '  Added after the seeding rounds: part handle-history (can_parse_file / parse_file on one file object); corruptions: over-long UTIM, day, year; blank / NUL-only data line; the process time zone is varied per case (UTC0, JST-9, NST3:30, XXX-12:45).'
