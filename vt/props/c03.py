"""C03 - DLIS logical files and their tables decode to what was encoded.

Oracle: round trip through the independent logical-layer encoder vt.gen.dlis_logical.  The model table of every set is
computed from the case by the standard's defaulting rules (object characteristic, else template, else global default;
invariant attribute = template cell; absent attribute = no cell) with values decoded by the reference decoders of
vt.ref.repcodes.  Two routes are compared with it: (A) every explicitly formatted record read sequentially and decoded
on its own, so that one table the reader cannot digest does not hide the others, (B) LogicalIndex: the split into
logical files, the table sequence of each (encrypted records skipped) and every table cell by cell.
"""
import io
import math
from fractions import Fraction

from hypothesis import strategies as st

from vt import engine
from vt.engine import EnumPart, HypPart
from vt.gen import dlis_logical as L

PID = 'C03'
LEVEL = 'exploration'
TECHNIQUE = 'property-based testing (Hypothesis): round trip through an independent RP66V1 logical-layer encoder; exhaustive characteristic subsets'
LEVEL_TEXT = ('generated storage units of 1..4 logical files (FILE-HEADER, ORIGIN, 0..6 further sets of public and private types, '
              'redundant / replacement sets, encrypted records anywhere, one logical file in five with CHANNEL + FRAME + frame data) x '
              'templates of 1..6 ordinary / invariant attributes with any characteristic subset x objects with overriding '
              'characteristics, absent attributes, trailing omission x values of all 19 supported representation codes with counts '
              '0..4 x physical layouts as C01; every table compared cell by cell with the model, through the index and record by record')
RULE = ('file: 1..4 logical files; logical file: FILE-HEADER (3 in 4 in the conventional two attribute form), ORIGIN or WELL-REFERENCE, '
        '0..6 further sets (type from the public list or X-private; one in eight followed by a redundant copy or a replacement set), '
        '0..3 encrypted records at any position; set: optional name, 1..6 uniquely labelled template attributes (label / count / code / '
        'units / value each present or not, count 0..4, code from 2,5,6,7,12-24,26,27), 0..5 uniquely named objects whose attribute '
        'components are absent (1 in 6), descriptor-only, or override any subset of count / code / units / value (a value always '
        'accompanies an overriding count or code when the template carries a value), with the tail omitted in half the objects; one '
        'file in four may also contain invariant attributes and objects without any attribute component.  Part characteristic-subsets '
        'enumerates all 32 x 32 template x object characteristic subsets of one attribute for four representation codes.  '
        'Non-trivial: some table has >= 2 objects and uses an absent attribute, trailing omission, an overriding count or code, or '
        'an invariant attribute.  Distinct = distinct case.')
ASSUMPTIONS = ['object names unique within a set (except in the part repeated-object-names, where only what every duplicate strategy but RAISE guarantees is judged), attribute labels unique within a template (the duplicate strategies are configuration, not under test)',
               'at most one CHANNEL and one FRAME set per logical file, and only in well-formed pairs (LogicalFile documents multiple CHANNEL sets as unsupported)',
               'an object that overrides the representation code (or sets a count of 0) on an attribute whose template carries a value also carries a value (otherwise the cell is ambiguous); a count alone may be overridden without a value: the cell states the object count and the template value',
               'a cell of count 0 may present its value as an empty list or as no value; a set without name may present the name as empty or as None',
               'VSINGL reserved operands (exponent 0, sign 1), STATUS values other than 0/1, DTIME fields outside their calendar range and non-minimal UVARI encodings are not generated',
               'the role of a set (SET / RDSET / RSET) is not exposed by the reader and is not compared',
               'the physical layer (C01) is trusted: a file whose sequential read does not return the encoded payloads is reported under physical-layer and not analysed further']
SHARDS = {'quick': 4, 'thorough': 16}
VALUE_CODE_CLASSES = ['value-code-%d' % c for c in L.CODES]
REQUIRED_CLASSES = dict({'cell-count>=128': 1, 'absent-attribute': 1, 'trailing-omission': 1, 'override-count-or-code': 1, 'invariant-attribute': 1,
                         'table-spans>=2-segments': 1, '>=2-logical-files': 1, 'encrypted-eflr': 1,
                         'index-route-compared': 1}, **{c: 1 for c in VALUE_CODE_CLASSES})

ORACLE = 'table==encoded'
SIG_INVARIANT = 'invariant-attribute:objects-misparsed'
SIG_NO_ATTR = 'object-without-attribute-components:crash'
SIG_ABSENT = 'absent-attribute:takes-template-default'
SIG_VSINGL = 'value:VSINGL-scale'


def _quiet():
    import logging
    import warnings
    logging.disable(logging.ERROR)
    warnings.filterwarnings('ignore', category=RuntimeWarning)    # numpy: float32 overflow in frame arrays of ISINGL channels


# ---------------------------------------------------------------------------------------------------------
# what the reader presents -> model form
# ---------------------------------------------------------------------------------------------------------
def got_value(code, v):
    """A value object of the reader in the model's form (by the representation code the reader itself reports)."""
    if code == 21:
        return {'year': v.year, 'tz': v.tz, 'month': v.month, 'day': v.day, 'hour': v.hour, 'minute': v.minute,
                'second': v.second, 'millisecond': v.millisecond}
    if code == 23:
        return (v.O, v.C, bytes(v.I))
    if code == 24:
        return (bytes(v.T), (v.N.O, v.N.C, bytes(v.N.I)))
    if isinstance(v, (bytes, bytearray)):
        return bytes(v)
    return v


def vsingl_wrong(correct):
    """What the known defect C07-vsingl-scale makes of a VAX F word whose value is ``correct``:
    (0.5 + M/2^23) 2^(E-128) instead of (0.5 + M/2^24) 2^(E-128), i.e. 2|x| - 2^(E-129), where 2^(E-129) is the
    leading power of two of |x|."""
    if correct == 0 or not math.isfinite(correct):
        return correct
    _m, ex = math.frexp(abs(correct))
    w = 2 * Fraction(abs(correct)) - Fraction(2) ** (ex - 1)
    return -float(w) if correct < 0 else float(w)


def same_bytes(a, b):
    return isinstance(a, (bytes, bytearray)) and bytes(a) == b


def compare_values(exp_cell, code, got, out, tag):
    """exp_cell['values'] against the reader's value list."""
    exp = exp_cell['values']
    if exp_cell['count'] == 0:
        if got is not None and list(got) != []:
            out.append(('cell-value:count-0-has-values' + tag, 'count 0 but value %r' % (got,)))
        return
    if exp is None:
        if got is not None:
            out.append(('cell-value:invented' + tag, 'no value encoded, reader presents %s' % engine.short(got, 200)))
        return
    if got is None:
        out.append(('cell-value:missing' + tag, 'value %s encoded, reader presents None' % engine.short(exp, 200)))
        return
    if len(got) != len(exp):
        out.append(('cell-value:length' + tag, 'encoded %d elements, reader presents %d' % (len(exp), len(got))))
        return
    for k, (e, g) in enumerate(zip(exp, got)):
        try:
            g = got_value(code, g)
        except AttributeError:
            out.append(('cell-value:type' + tag, 'element %d: %r for code %d' % (k, g, code)))
            continue
        if L.same_value(e, g):
            continue
        if code == 6 and isinstance(g, float) and g == vsingl_wrong(e):
            out.append((SIG_VSINGL, 'VSINGL element %d: reader %r, standard value %r' % (k, g, e)))
            continue
        out.append(('cell-value:code-%d%s' % (code, tag), 'element %d: encoded %s, reader presents %s' % (k, engine.short(e, 120), engine.short(g, 120))))


def compare_attr(exp, got, out, tag, what):
    """Count, representation code, units, values of one cell (exp: model cell, got: reader's attribute object)."""
    if got.count != exp['count']:
        out.append(('%s-count%s' % (what, tag), 'count %r, encoded %r' % (got.count, exp['count'])))
    if got.rep_code != exp['rep_code']:
        out.append(('%s-rep-code%s' % (what, tag), 'representation code %r, encoded %r' % (got.rep_code, exp['rep_code'])))
    if not same_bytes(got.units, exp['units']):
        out.append(('%s-units%s' % (what, tag), 'units %r, encoded %r' % (got.units, exp['units'])))
    if got.count == exp['count'] and got.rep_code == exp['rep_code']:
        compare_values(exp, exp['rep_code'], got.value, out, tag if what == 'cell' else ':template')


def compare_table(t, eflr):
    """Deviations [(signature, detail)] of the reader's table from the model table."""
    out = []
    if not same_bytes(eflr.set.type, t['type']):
        out.append(('set-type', 'type %r, encoded %r' % (eflr.set.type, t['type'])))
    if not (same_bytes(eflr.set.name, t['name']) if t['name'] is not None else eflr.set.name in (None, b'')):
        out.append(('set-name', 'name %r, encoded %r' % (eflr.set.name, t['name'])))
    if eflr.lr_type != t['lr_type']:
        out.append(('set-lr-type', 'logical record type %r, written %r' % (eflr.lr_type, t['lr_type'])))
    attrs = eflr.template.attrs
    if len(attrs) != len(t['template']):
        out.append(('template-length', 'template has %d attributes, encoded %d' % (len(attrs), len(t['template']))))
        return out
    for j, (e, g) in enumerate(zip(t['template'], attrs)):
        sub = []
        if not same_bytes(g.label, e['label']):
            sub.append(('template-label', 'label %r, encoded %r' % (g.label, e['label'])))
        compare_attr(e, g, sub, '', 'template')
        out += [(s, 'template attribute %d (%r, present %s): %s' % (j, e['label'], e['present'], d)) for s, d in sub]
    if len(eflr.objects) != len(t['objects']):
        out.append(('object-count', 'table has %d objects, encoded %d' % (len(eflr.objects), len(t['objects']))))
        return out
    for i, (eo, go) in enumerate(zip(t['objects'], eflr.objects)):
        sub = []
        nm = (go.name.O, go.name.C, bytes(go.name.I))
        if nm != eo['name']:
            sub.append(('object-name', 'name %r, encoded %r' % (nm, eo['name'])))
        if len(go.attrs) != len(eo['cells']):
            sub.append(('object-row-length', 'row has %d cells, template %d' % (len(go.attrs), len(eo['cells']))))
        else:
            for j, (ec, gc) in enumerate(zip(eo['cells'], go.attrs)):
                te = t['template'][j]
                cell = []
                if ec is None:
                    if gc is not None:
                        tc = dict(te, present='')
                        probe = []
                        compare_attr(tc, gc, probe, '', 'cell')
                        if all(s == SIG_VSINGL for s, _d in probe):    # (a VSINGL template value is reported with the template)
                            cell.append((SIG_ABSENT, 'absent attribute presented with the template default (count %r code %r units %r value %s)' % (
                                gc.count, gc.rep_code, gc.units, engine.short(gc.value, 100))))
                        else:
                            cell.append(('absent-attribute:not-marked-absent', 'absent attribute presented as count %r code %r units %r value %s' % (
                                gc.count, gc.rep_code, gc.units, engine.short(gc.value, 100))))
                elif gc is None:
                    cell.append(('cell-marked-absent:' + ec['how'], 'cell is None but the attribute is %s' % ec['how']))
                else:
                    tag = ':' + ec['how']
                    if not same_bytes(gc.label, te['label']):
                        cell.append(('cell-label' + tag, 'label %r, template %r' % (gc.label, te['label'])))
                    compare_attr(ec, gc, cell, tag, 'cell')
                sub += [(s, 'attribute %d (%r, object characteristics %s): %s' % (j, te['label'], '-' if ec is None else (ec['present'] or 'none'), d))
                        for s, d in cell]
            # the same cells by label (how LogPass, ToLAS and the summaries fetch CHANNEL, FRAME, PARAMETER attributes)
            labels = [te['label'] for te in t['template']]
            for j, lab in enumerate(labels):
                if lab and labels.count(lab) == 1:
                    try:
                        by_label = go[bytes(lab)]
                    except Exception as err:  # noqa
                        sub.append(('lookup-by-label', 'object[%r] raises %r' % (lab, err)))
                        break
                    if by_label is not go.attrs[j]:
                        sub.append(('lookup-by-label', 'object[%r] is not the cell of column %d' % (lab, j)))
                        break
        out += [(s, 'object %d %r: %s' % (i, eo['name'], d)) for s, d in sub]
    names = [tuple(o['name']) for o in t['objects']]
    for i, go in enumerate(eflr.objects):
        if names.count(names[i]) == 1:
            try:
                if eflr[go.name] is not go:
                    out.append(('lookup-by-name', 'table[%r] is not object %d' % (go.name, i)))
            except Exception as err:  # noqa
                out.append(('lookup-by-name', 'table[%r] raises %r' % (go.name, err)))
    return out


def crash_shape(t):
    shapes = L.table_shapes(t)
    if 'invariant-attribute' in shapes and t['objects']:
        return 'invariant'
    if 'object-without-attribute-components' in shapes:
        return 'no-attr'
    return None


def report_table(cc, t, devs, route):
    """Files the deviations of one table; in a table with invariant attributes and objects every deviation is the
    consequence of one thing (the reader consumes a component per object for attributes that objects do not carry)."""
    inv = crash_shape(t) == 'invariant'
    for sig, detail in devs:
        if inv and sig not in (SIG_VSINGL, SIG_ABSENT) and not sig.startswith(('set-', 'template-')):
            sig = SIG_INVARIANT
        cc.dev(ORACLE, sig, '[%s] set %r record %d: %s' % (route, t['type'], t['record'], detail))


def report_crash(cc, t, err, route, EFLR):
    shape = crash_shape(t)
    where = '[%s] set %r record %d (template %s, %d objects): %r' % (
        route, t['type'], t['record'], [(a['label'], a['present'], 'inv' if a['invariant'] else '') for a in t['template']][:6], len(t['objects']), err)
    if shape == 'invariant':
        cc.dev(ORACLE, SIG_INVARIANT, where)
        return True
    if shape == 'no-attr' and isinstance(err, (IndexError, EFLR.ExceptionEFLRObject)):
        cc.dev(ORACLE, SIG_NO_ATTR, where)
        return True
    cc.unexpected(err)
    return False


# ---------------------------------------------------------------------------------------------------------
def classify(cc, case, model):
    tables = model['tables']
    shapes = set()
    nt = False
    for t in tables:
        s = L.table_shapes(t)
        shapes |= s
        for c in L.table_value_codes(t):
            cc.cls('value-code-%d' % c)
        if len(t['objects']) >= 2 and s & {'absent-attribute', 'trailing-omission', 'override-count-or-code', 'invariant-attribute'}:
            nt = True
        rec = model['records'][t['record']]
        cc.cls('table-spans>=2-segments', rec['segments'] >= 2)
        cc.cls('table-spans>=2-visible-records', rec['visible_records'] >= 2)
        cc.cls('redundant-set', t['role'] == 'RDSET')
        cc.cls('replacement-set', t['role'] == 'RSET')
        cc.cls('set-without-name', t['name'] is None)
        cc.cls('private-set-type', t['type'].startswith(b'X-'))
        cc.cls('table-without-objects', not t['objects'])
        cc.cls('template-attribute-without-label', any('L' not in a['present'] for a in t['template']))
        cc.cls('template-value-with-default-code-or-count', any('V' in a['present'] and ('R' not in a['present'] or 'C' not in a['present']) for a in t['template']))
        cc.cls('cell-count-0', any(c is not None and c['count'] == 0 for o in t['objects'] for c in o['cells']))
        cc.cls('cell-count>=128', any(c is not None and c['count'] >= 128 for o in t['objects'] for c in o['cells']))
        cc.cls('object-attribute-with-label', any(c is not None and 'L' in c['present'] for o in t['objects'] for c in o['cells']))
        cc.cls('payload>16KiB', len(model['payloads'][t['record']]) > 16384)
    for s in shapes:
        cc.cls(s)
    cc.cls('>=2-logical-files', len(model['logical_files']) >= 2)
    cc.cls('>=3-logical-files', len(model['logical_files']) >= 3)
    cc.cls('encrypted-eflr', any(r['encrypted'] and r['eflr'] for r in model['records']))
    cc.cls('encrypted-record-before-first-file-header', bool(model['records']) and model['records'][0]['encrypted'])
    cc.cls('logical-file-with-log-pass', any(lf['log_pass'] is not None for lf in model['logical_files']))
    cc.cls('file-with-crash-shape', any(crash_shape(t) for t in tables))
    cc.nt(nt)


def check_file(case, cc):
    _quiet()
    from TotalDepth.RP66V1.core import File, LogicalFile
    from TotalDepth.RP66V1.core.LogicalRecord import EFLR
    data, model = L.build_logical(case)
    classify(cc, case, model)
    cc.sample(L.summary(case, model))
    recs, tables = model['records'], model['tables']
    # ---- route A: record by record
    with File.FileRead(engine.handle(data)) as fr:
        flds = list(fr.iter_logical_records())
    if len(flds) != len(recs) or any(
            (bool(f.lr_is_eflr), f.lr_type, bool(f.lr_is_encrypted)) != (r['eflr'], r['lr_type'], r['encrypted']) or
            (not r['encrypted'] and bytes(f.logical_data.bytes) != model['payloads'][k]) for k, (f, r) in enumerate(zip(flds, recs))):
        cc.dev('physical-layer', 'sequential-read-differs', 'the sequential read does not return the encoded records (C01)')
        return
    crashed = {}
    for t in tables:
        fld = flds[t['record']]
        try:
            eflr = EFLR.ExplicitlyFormattedLogicalRecord(fld.lr_type, fld.logical_data)
        except Exception as err:  # noqa
            if report_crash(cc, t, err, 'record', EFLR):
                crashed[t['record']] = engine.exc_sig(err)
            continue
        report_table(cc, t, compare_table(t, eflr), 'record')
    # ---- route B: the logical index
    try:
        index_obj = LogicalFile.LogicalIndex(engine.handle(data))
        with index_obj as index:
            compare_index(cc, model, index)
            cc.cls('index-route-compared')
        # the same index object entered again (a tool that indexes, closes and comes back): the same logical files, once
        with index_obj as index:
            if len(index.logical_files) != len(model['logical_files']):
                cc.dev('logical-file-split', 'logical-file-count:index-entered-again', 'entered a second time the index holds %d logical files, the file has %d' % (
                    len(index.logical_files), len(model['logical_files'])))
            cc.cls('index-entered-twice')
    except engine.HarnessError:
        raise
    except Exception as err:  # noqa
        if crashed and engine.exc_sig(err) == crashed[min(crashed)]:
            # the table already reported above stops the indexer: nothing new
            cc.cls('index-route-blocked-by-reported-table')
        else:
            cc.unexpected(err)


def compare_index(cc, model, index):
    tables, recs = model['tables'], model['records']
    lfs = index.logical_files
    if len(lfs) != len(model['logical_files']):
        cc.dev('logical-file-split', 'logical-file-count', 'index has %d logical files, %d FILE-HEADER sets were written' % (
            len(lfs), len(model['logical_files'])))
        return
    for n, (lf, mlf) in enumerate(zip(lfs, model['logical_files'])):
        got_pos = [(pe.lrsh_position.vr_position, pe.lrsh_position.lrsh_position) for pe in lf.eflrs]
        exp_pos = [(recs[tables[i]['record']]['vr_pos'], recs[tables[i]['record']]['lrsh_pos']) for i in mlf['tables']]
        if got_pos != exp_pos:
            sig = 'table-count' if len(got_pos) != len(exp_pos) else 'table-positions'
            cc.dev('logical-file-split', sig, 'logical file %d: tables at %r, sets written at %r' % (n, got_pos[:12], exp_pos[:12]))
            continue
        for pe, i in zip(lf.eflrs, mlf['tables']):
            report_table(cc, tables[i], compare_table(tables[i], pe.eflr), 'index')


# ---------------------------------------------------------------------------------------------------------
# exhaustive: every template x object characteristic subset of one attribute
# ---------------------------------------------------------------------------------------------------------
SUBSET_CODES = (20, 17, 23, 2)
SUBSET_VALUES = {20: [b'abc', b'', b'Zq'], 17: [b'\x00\x00\x01\x02', b'\xff\xff\xff\xfe', b'\x80\x00\x00\x00'], 23: [[5, 1, b'OB'], [200, 0, b''], [0, 255, b'X1']],
                 2: [b'\x43\x19\x00\x00', b'\xc0\x00\x00\x00', b'\x00\x00\x00\x00'], 19: [b'ID', b'', b'K-9']}


def subset_case(tmask, omask, variant):
    """A one-set file whose first attribute uses the template characteristics tmask and the object characteristics
    omask (bits L C R U V = 16 8 4 2 1), followed by a second, fully specified attribute that detects misalignment."""
    code_t, code_o = SUBSET_CODES[variant % 4], SUBSET_CODES[(variant + 1) % 4]
    t_count = 2 if tmask & 8 else None
    t_code = code_t if tmask & 4 else None
    t = {'inv': False, 'label': b'FIRST' if tmask & 16 else None, 'count': t_count, 'code': t_code,
         'units': b'ft' if tmask & 2 else None,
         'values': SUBSET_VALUES[t_code or 19][:t_count or 1] if tmask & 1 else None}
    o_count = 3 if omask & 8 else None
    o_code = code_o if omask & 4 else None
    eff_code = o_code or t_code or 19
    eff_count = o_count or t_count or 1
    o = {'k': 'attr', 'label': (t['label'] if t['label'] is not None else b'') if omask & 16 else None, 'count': o_count, 'code': o_code,
         'units': b'0.1 in' if omask & 2 else None, 'values': SUBSET_VALUES[eff_code][:eff_count] if omask & 1 else None}
    second_t = {'inv': False, 'label': b'SECOND', 'count': 1, 'code': 16, 'units': b'm', 'values': None}
    second_o = {'k': 'attr', 'label': None, 'count': None, 'code': None, 'units': None, 'values': [b'\x12\x34']}
    objs = [{'name': [1, 0, b'A'], 'attrs': [o, second_o]}, {'name': [1, 0, b'B'], 'attrs': [dict(o), dict(second_o, values=[b'\xab\xcd'])]}]
    if variant >= 4:
        objs.append({'name': [1, 1, b'A'], 'attrs': [dict(o)]})       # trailing omission after the attribute under test
    fh = {'kind': 'set', 'lr_type': 0, 'encrypted': False, 'set': {
        'role': 'SET', 'type': b'FILE-HEADER', 'name': None, 'template': [L._plain_attr(b'SEQUENCE-NUMBER', 20), L._plain_attr(b'ID', 20)],
        'objects': [{'name': [1, 0, b'0'], 'attrs': [L._obj_attr([b'         1']), L._obj_attr([b'X'.ljust(65)])]}]}}
    org = {'kind': 'set', 'lr_type': 1, 'encrypted': False, 'set': {
        'role': 'SET', 'type': b'ORIGIN', 'name': None, 'template': [L._plain_attr(b'FILE-ID', 20)], 'objects': [{'name': [1, 0, b'0'], 'attrs': [L._obj_attr([b'f'])]}]}}
    par = {'kind': 'set', 'lr_type': 5, 'encrypted': False, 'set': {'role': 'SET', 'type': b'PARAMETER', 'name': b'p', 'template': [t, second_t], 'objects': objs}}
    records = [fh, org, par]
    layouts = []
    for r in records:
        n = len(L.payload_of(r))
        need = max(0, 16 - 4 - n)
        need += (4 + n + need) % 2
        layouts.append([{'n': n, 'pad': need, 'checksum': False, 'trailing': False}])
    return {'sul': {'seq': 1, 'seq_pad': ' ', 'version': b'V1.00', 'max_len': 8192, 'max_pad': '0', 'ident': b'subsets'.ljust(60)},
            'records': records, 'layouts': layouts, 'vr_caps': [8192]}


def subset_valid(tmask, omask):
    # the ambiguity excluded by construction: count / code overridden, no value, but the template has a value
    return not ((omask & 12) and not (omask & 1) and (tmask & 1))


def check_subset(case, cc):
    full = subset_case(case['template'], case['object'], case['variant'])
    check_file(full, cc)
    cc.cls('characteristic-subset-case')
    cc.nt(True, key=case)


def run_subsets(ctx, part, tier, shard, nshards):
    k = 0
    for variant in range(8 if tier == 'thorough' else 2):
        for tmask in range(32):
            for omask in range(32):
                if not subset_valid(tmask, omask):
                    continue
                k += 1
                if k % nshards != shard:
                    continue
                ctx.eval_case(part, {'template': tmask, 'object': omask, 'variant': variant})
    if shard == 0:
        ctx.note('characteristic_subsets', 'all 32 x 32 template x object subsets (minus the ambiguous ones) x %d variants' % (8 if tier == 'thorough' else 2))


# ---------------------------------------------------------------------------------------------------------
# "all scalar and compound representation codes": the codes of RP66V1 Appendix B that the package's RepCode module does not
# list (FSHORT, FSING1, FSING2, FDOUB1, FDOUB2, CSINGL, CDOUBL, ORIGIN).  One table with one attribute of the code; judged:
# the file indexes and the table presents the cell with its code and count (the value is not modelled).
# ---------------------------------------------------------------------------------------------------------
EXTRA_CODES = {1: ('FSHORT', 2), 3: ('FSING1', 8), 4: ('FSING2', 12), 8: ('FDOUB1', 16), 9: ('FDOUB2', 24), 10: ('CSINGL', 8),
               11: ('CDOUBL', 16), 25: ('ORIGIN', 1)}
L.FIXED_SIZE.update({c: n for c, (_nm, n) in EXTRA_CODES.items()})     # the encoder writes these as opaque bytes of the right length


@st.composite
def extra_code_cases(draw):
    code = draw(st.sampled_from(sorted(EXTRA_CODES)))
    recs = L._logical_file_records(draw, max_sets=0, allow_encrypted=False)
    size = EXTRA_CODES[code][1]
    value = bytes([5]) if code == 25 else bytes([0x3C, 0x00] * (size // 2))      # ORIGIN 5; small positive numbers elsewhere
    where = draw(st.sampled_from(['template', 'object', 'object-code-only']))
    tmpl = [L._plain_attr(b'VAL', code if where == 'template' else 19), L._plain_attr(b'NOTE', 20)]
    if where == 'object-code-only':     # the code is stated, no value follows: nothing of that code has to be decoded
        obj = {'name': [1, 0, b'OBJ'], 'attrs': [L._obj_attr(None, code=code), L._obj_attr([b'x'])]}
    else:
        obj = {'name': [1, 0, b'OBJ'], 'attrs': [L._obj_attr([value], code=None if where == 'template' else code), L._obj_attr([b'x'])]}
    recs.append({'kind': 'set', 'lr_type': 5, 'encrypted': False,
                 'set': {'role': 'SET', 'type': b'PARAMETER', 'name': None, 'template': tmpl, 'objects': [obj]}})
    return dict(L._finish_case(draw, recs), extra_code=code, where=where)


def check_extra_code(case, cc):
    from TotalDepth.RP66V1.core import LogicalFile
    code = case['extra_code']
    phys = [L.physical_record(r) for r in case['records']]
    data, _pm = L.G.encode_file(case['sul'], phys, case['layouts'], case['vr_caps'])
    cc.nt(True)
    cc.cls('extra-code-%d-%s' % (code, EXTRA_CODES[code][0]))
    try:
        with LogicalFile.LogicalIndex(engine.handle(data)) as index:
            lfs = index.logical_files
            tables = [e.eflr for lf in lfs for e in lf.eflrs]
    except Exception as err:  # noqa
        if not engine.sut_frames(err):
            raise
        if case.get('where') == 'object-code-only':
            cc.dev('table==encoded', 'code-without-value-not-readable', 'an object attribute that states code %d (%s) and carries no value: indexing raises %r' % (
                code, EXTRA_CODES[code][0], err))
            return
        cc.dev('table==encoded', 'representation-code-not-readable', 'a PARAMETER set with an attribute of code %d (%s): indexing raises %r' % (
            code, EXTRA_CODES[code][0], err))
        return
    mine = [t for t in tables if bytes(t.set.type) == b'PARAMETER']
    if len(lfs) != 1 or len(mine) != 1 or len(mine[0].objects) != 1:
        cc.dev('table==encoded', 'representation-code-not-readable', 'code %d: the table is not presented (%d logical files, %d PARAMETER tables)' % (
            code, len(lfs), len(mine)))
        return
    attr = mine[0].objects[0].attrs[0]
    cc.cls('extra-code-stated-without-value', case.get('where') == 'object-code-only')
    if attr.rep_code != code or attr.count != 1:
        cc.dev('table==encoded', 'cell-code-or-count', 'code %d: cell presented with code %r count %r' % (code, attr.rep_code, attr.count))


# ---------------------------------------------------------------------------------------------------------
# Part repeated-object-names: a set that writes an object name more than once (a producer updating a parameter).  Which
# occurrence the table shows is the package's configuration (replace by default) and is not judged; what is judged: an
# object written once is in the table with its value, a name written several times has one row holding the value of one of
# its occurrences, nothing else is in the table.
# ---------------------------------------------------------------------------------------------------------
NAME_POOL = [(1, 0, b'P1'), (1, 0, b'P2'), (1, 0, b'P3'), (2, 0, b'P1'), (1, 1, b'P1')]


@st.composite
def repeated_name_cases(draw):
    recs = L._logical_file_records(draw, max_sets=0, allow_encrypted=False)
    pool = NAME_POOL[:draw(st.integers(2, len(NAME_POOL)))]
    seq = draw(st.lists(st.sampled_from(pool), min_size=3, max_size=8))
    tmpl = [L._plain_attr(b'VAL', 20)]
    objs = [{'name': [nm[0], nm[1], nm[2]], 'attrs': [L._obj_attr([b'v%d' % i])]} for i, nm in enumerate(seq)]
    recs.append({'kind': 'set', 'lr_type': 5, 'encrypted': False,
                 'set': {'role': 'SET', 'type': b'PARAMETER', 'name': None, 'template': tmpl, 'objects': objs}})
    return dict(L._finish_case(draw, recs), names=[list(nm) for nm in seq])


def check_repeated_names(case, cc):
    from TotalDepth.RP66V1.core import LogicalFile
    seq = [(nm[0], nm[1], bytes(nm[2])) for nm in case['names']]
    phys = [L.physical_record(r) for r in case['records']]
    data, _pm = L.G.encode_file(case['sul'], phys, case['layouts'], case['vr_caps'])
    written = {}
    for i, nm in enumerate(seq):
        written.setdefault(nm, []).append(b'v%d' % i)
    most = max(len(v) for v in written.values())
    cc.nt(most >= 2 and len(written) >= 2)
    cc.cls('object-name-written>=3-times', most >= 3)
    cc.cls('object-name-written-twice', most == 2)
    cc.cls('object-names-all-distinct', most == 1)
    cc.sample({'names': [(o, c, i.decode()) for o, c, i in seq]})
    with LogicalFile.LogicalIndex(engine.handle(data)) as index:
        tables = [e.eflr for lf in index.logical_files for e in lf.eflrs]
    mine = [t for t in tables if bytes(t.set.type) == b'PARAMETER']
    if len(mine) != 1:
        cc.dev('table==encoded', 'table-count', '%d PARAMETER tables for one set' % len(mine))
        return
    rows = {}
    for o in mine[0].objects:
        v = o.attrs[0].value
        rows.setdefault((o.name.O, o.name.C, bytes(o.name.I)), []).append(None if v is None else [bytes(x) for x in v])
    what = 'objects written %r' % ([(nm, b'v%d' % i) for i, nm in enumerate(seq)],)
    for nm, vals in written.items():
        got = rows.get(nm)
        if got is None:
            cc.dev('table==encoded', 'object-missing:%s' % ('written-once' if len(vals) == 1 else 'written-several-times'),
                   '%s: no row %r in the table %r' % (what, nm, rows))
        elif len(got) != 1:
            cc.dev('table==encoded', 'object-name-on-several-rows', '%s: %d rows named %r' % (what, len(got), nm))
        elif got[0] is None or len(got[0]) != 1 or got[0][0] not in vals:
            cc.dev('table==encoded', 'object-value:%s' % ('written-once' if len(vals) == 1 else 'written-several-times'),
                   '%s: row %r holds %r' % (what, nm, got[0]))
    extra = [nm for nm in rows if nm not in written]
    if extra:
        cc.dev('table==encoded', 'object-invented', '%s: rows %r were never written' % (what, extra))
    # ... and by name, as the table is used
    for nm, vals in written.items():
        try:
            o = mine[0][RepCodeObjectName(nm)]
        except Exception as err:  # noqa
            cc.dev('table==encoded', 'lookup-by-name', '%s: table[%r] raises %r' % (what, nm, err))
            continue
        v = o.attrs[0].value
        if v is None or [bytes(x) for x in v][0] not in vals:
            cc.dev('table==encoded', 'lookup-by-name', '%s: table[%r] holds %r' % (what, nm, v))


def RepCodeObjectName(nm):
    from TotalDepth.RP66V1.core import RepCode
    return RepCode.ObjectName(nm[0], nm[1], nm[2])


def parts(tier):
    return [EnumPart('characteristic-subsets', run_subsets, check_subset),
            HypPart('repeated-object-names', repeated_name_cases(), check_repeated_names, 300, 4000),
            HypPart('logical-files', L.logical_files(), check_file, 2200, 60000),
            HypPart('codes-of-the-standard-not-in-the-package', extra_code_cases(), check_extra_code, 80, 800)]


def exhaustive_note(tier, total):
    return {'exhaustive': False,
            'exhaustive_subdomains': ['template x object characteristic subsets (L C R U V) of one attribute, two objects + second attribute']}
RULE += '  Round 17: part repeated-object-names (a set that writes an object name up to several times).'
