"""C11 - conversion to LAS keeps exactly the selected frames, channels and values.

A source file of one of the three formats comes from the independent encoders (vt.gen.dlis_tolas on top of vt.gen.dlis_logical,
vt.gen.lis, vt.gen.bit), is written into a temporary directory and converted by the format's converter with a generated frame
selection (Slice with None / negative bounds and step >= 1, or Sample), channel subset, array reduction, field width and float
format.  Every produced LAS file is split by a small reader written for this check (sections, ~W lines, ~C lines, ~A rows) and is
also parsed with TotalDepth's LASRead.

Oracles
  result-says-converted      the result tuple is not an exception / ignored; the cause (captured from the converter's log) is the signature
  one-las-per-log-pass       the LAS files that hold a data section are, in order, the log passes of the source model (RP66V1: at the
                             documented name <stem>_<logical file>_<frame ident>.las; LIS <path>_<k>.las; BIT <path>_<kkkk>.las)
  rows==selection            number of data rows == len(range(n)[start:stop:step]) (Slice) or <= N (Sample)
  columns==x+requested       ~C names and, where written, ~A heading names == X axis + the requested channels present in the pass
  value-within-print-precision  every token (exact decimal, vt.ref.lasfmt) within half a unit of its last digit of the exact reduction
                             of the source values of the selected frame (tolerance logic of C10); for Sample: the rows map to a
                             strictly increasing index list starting at frame 0
  well-section==written-rows STRT / STOP == X of the first / last expected row and STEP == (last - first) / (rows - 1), in the units the
                             well section states, within print precision; the step is stated under the mnemonic STEP
  las-readable               LASRead reads the file: same columns, same number of rows, every value the correctly rounded token
"""
import contextlib
import io
import logging
import os
import re
import tempfile
from fractions import Fraction

from hypothesis import strategies as st

from vt import engine
from vt.engine import HarnessError, HypPart
from vt.gen import bit as GB
from vt.gen import dlis_logical as L
from vt.gen import dlis_tolas as GT
from vt.gen import lis as GL
from vt.props import c10
from vt.ref import ibm
from vt.ref import lasfmt
from vt.ref import repcodes as R

PID = 'C11'
LEVEL = 'exploration'
NEEDS_LIS_EXT = True
TECHNIQUE = ('property-based testing (Hypothesis): generated source files of three formats x selection x channel subset x formatting, '
             'converted to LAS and compared with a reference selection of the source model through an independent LAS splitter and LASRead')
LEVEL_TEXT = ('generated RP66V1 / LIS / BIT files converted with generated options; every produced LAS compared row by row, column by '
              'column and token by token with the reference selection of the source model (exact rational reduction, half a unit of the '
              'last printed digit), the well section with the X axis of the rows written')
RULE = ('RP66V1: 1..2 logical files (one in eight of a multi-file unit without log pass) of 1..3 frame types interleaved, 1..5 channels of '
        'codes 2,5,6,7,12..17 with dimensions up to 12 elements, index channel regular (never VSINGL), ORIGIN with the attributes the well '
        'section maps; LIS: vt.gen.lis files of 1..2 log passes (explicit or implied X, up/down, samples and bursts, every code, no '
        'dipmeter), CONS and other tables; BIT: 1..3 passes, 1..6 channels, arbitrary IBM words.  1..24 frames per pass (thorough 1..60).  '
        'Selection: Slice(start, stop, step) with start/stop None, non-negative or negative and step None or 1..6, selecting at least one '
        'frame of every pass, or Sample(1..n+3); channels: all, or a subset by name (sometimes with the X axis, sometimes with an unknown '
        'name); reduction first/mean/median/min/max; width 4..24; format .0f-.6f, .2e-.6e, .3g-.9g.  Non-trivial: step > 1 or a negative '
        'bound or a Sample smaller than the pass, together with a channel subset that omits a channel or a source with >= 2 log passes.  '
        'Distinct = distinct case.')
ASSUMPTIONS = [
    'the selection selects at least one frame of every log pass of the file (init_arrays documents > 0 frames; C04 / C06 make the same decision)',
    'step >= 1 or None (the domain C15 states for the selectors)',
    'finite values; floating point words beyond 2^100 (FDOUBL 2^996), sub-normal, infinite or NaN are replaced in the generated frame data',
    'channel names, frame identifiers and BIT channel names are free of interior spaces, dots and colons; frame identifiers are file name safe; '
    'channel long names are free of colons and channel units free of spaces (the domain C10 states for the LAS writer)',
    'channel subsets name channels exactly as the source spells them (BIT names keep their trailing spaces)',
    'LIS dipmeter channels (codes 130 / 234) are not generated (their sub-channel layout belongs to C06)',
    'tolerance of a value: half a unit of the last printed digit + the floating point allowance of the reduction (C10); X axis of BIT: '
    'k * 2^-52 * (|start| + k * spacing) (C13); STEP: the allowances of both ends / (rows - 1) + 4 ulp; unit conversion of the LIS well '
    'section (.1IN, INCH -> FEET; MM, CM -> M) exact factors + 4 ulp',
    'a LAS file without data section for a logical file without log pass (what both RP66V1 and LIS converters document) is not counted as a log pass',
    'known defects of other properties are matched by their own signatures: C13-genfloats-ffffff (BIT values), C04/C07 VSINGL scale, '
    'C06-implied-x-late-entry (LIS implied X of stepped selections)',
    'the step of a single row is undefined and not checked',
    'Sample: the printed rows need not identify their source frames (repeated values, X below the print resolution): rows are mapped greedily to '
    'increasing source frames and the well section holds when it describes any source frame the last row is consistent with',
    'LASRead is applied when the rows are well formed and the printed X values are pairwise distinct (LASRead refuses a repeated index: C10 states an '
    'index spacing above the print resolution)',
    'LIS: field width >= 7 (the converter pads the heading comment of an implied X column to width - 6 characters and Python refuses a padding below 1)',
]
SHARDS = {'quick': 4, 'thorough': 16}
REQUIRED_CLASSES = {'fmt:RP66V1': 1, 'fmt:LIS': 1, 'fmt:BIT': 1, 'slice-step>1': 1, 'slice-negative-bound': 1, 'sample': 1,
                    'channel-subset': 1, '>=2-log-passes': 1, 'nontrivial': 1}

O_RESULT = 'result-says-converted'
O_COUNT = 'one-las-per-log-pass'
O_ROWS = 'rows==selection'
O_COLS = 'columns==x+requested'
O_VALUE = 'value-within-print-precision'
O_WELL = 'well-section==written-rows'
O_READ = 'las-readable'

SIG_SLICE_LAST = 'wrong-last-index:Slice.last()'
SIG_SAMPLE_LAST = 'wrong-last-index:Sample.last()'
SIG_VSINGL = 'value:VSINGL-scale'
SIG_FFFFFF = 'value:bit-mantissa/0xffffff'
SIG_IMPLIED_X = 'x-column:lis-implied-x-late-entry'
SIG_LIS_WHOLE = 'lis-well-section:whole-pass-not-selection'
SIG_LIS_DROPPED = 'lis-log-pass-without-preceding-CONS-table-dropped'
SIG_LIS_RUN = 'row-token-count:lis-no-separator-when-value-fills-field'
SIG_STRP = 'step-mnemonic:STRP'
SIG_LIS_CHANNELS = 'failed:lis-channel-names-passed-where-channel-indexes-expected'
SIG_SAME_IDENT = 'rp66v1-frame-arrays-with-same-identifier-share-one-file'
SIG_X_LEAK = 'columns:x-axis-name-of-earlier-pass-added-to-request'

KNOWN_FORMS = (SIG_STRP, SIG_SLICE_LAST, SIG_SAMPLE_LAST, SIG_LIS_WHOLE, SIG_IMPLIED_X)
REDUCTIONS = c10.REDUCTIONS
EPS = Fraction(1, 2 ** 52)


# ---------------------------------------------------------------------------------------------------------
# Source models -> bytes + reference passes (nothing here touches TotalDepth)
# ---------------------------------------------------------------------------------------------------------
def _np():
    import numpy
    return numpy


def rp66_passes(src):
    from vt.props import c04, c03
    np = _np()
    data, model = GT.build(src)
    passes, extra = [], []      # extra: names of LAS files of logical files without log pass
    for lf, lfm in enumerate(model['logical_files']):
        lp = lfm['log_pass']
        if lp is None or not any(f['rows'] for f in lp['frames']):
            extra.append('_%d_.las' % lf)
            continue
        idents = [f['name'][2] for f in lp['frames']]
        for f in lp['frames']:
            n = len(f['rows'])
            cols, alts = [], []
            for k, c in enumerate(f['channels']):
                m, w = c04.reference_matrix(np, c['code'], c['dims'], [r['channels'][k] for r in f['rows']])
                cols.append([m[i].reshape(-1).tolist() for i in range(n)])
                alts.append(None if w is None else [w[i].reshape(-1).tolist() for i in range(n)])
            passes.append({
                'suffix': '_%d_%s.las' % (lf, f['name'][2].decode('ascii')), 'n': n,
                'names': [c['name'][2].decode('ascii') for c in f['channels']],
                'dtypes': [c04.DTYPES[c['code']] for c in f['channels']],
                'cols': cols, 'alts': alts, 'alt_sig': SIG_VSINGL,
                'x': [Fraction(cols[0][i][0]) for i in range(n)], 'x_allow': [Fraction(0)] * n,
                'factor': Fraction(1), 'implied_x': False, 'reduce': True,
                'x_eps': Fraction(1, 2 ** 23) if c04.DTYPES[f['channels'][0]['code']] == 'float32' else EPS,
                'shared_ident': idents.count(f['name'][2]) > 1,
            })
    return data, passes, {'extra': extra, 'model': model}


LIS_OPTICAL = {b'.1IN': Fraction(1, 120), b'INCH': Fraction(1, 12), b'IN  ': Fraction(1, 12), b'INS ': Fraction(1, 12),
               b'MM  ': Fraction(1, 1000), b'CM  ': Fraction(1, 100), b'DM  ': Fraction(1, 10), b'.5MM': Fraction(1, 2000)}


def lis_passes(src):
    from vt.props import c06
    data, model = GL.build_lis_file(src)
    passes = []
    # which passes the grouping rule of the converter (CONS tables* then one log pass) would leave without a LAS file
    group_has_pass = False
    dropped = []
    for kind, payload in src['items']:
        if kind == 'table' and payload['name'] == b'CONS':
            if group_has_pass:
                group_has_pass = False
        elif kind == 'pass':
            if not payload['frames']:
                dropped.append(False)      # a format specification without data records: a log pass of 0 frames, no LAS file
                continue
            dropped.append(group_has_pass)
            group_has_pass = True
    for k, p in enumerate(model['passes']):
        pm = c06.PassModel(p, model)
        lp = pm.lp
        n = pm.n
        if n == 0:
            continue
        names, dtypes, cols = [], [], []
        if lp['indirect']:
            names.append('X')
            dtypes.append('float64')
            cols.append([[float(x)] for x in pm.x])
            xunits = lp['units']
        else:
            xunits = lp['dsbs'][0]['units']
        for d, (a, b) in zip(lp['dsbs'], pm.cols):
            names.append(d['mnem'].replace(b'\x00', b' ').decode('ascii').strip())
            dtypes.append('float64')
            cols.append([[float(v) for v in pm.matrix[i, a:b].tolist()] for i in range(n)])
        x = [Fraction(pm.x[i]) if lp['indirect'] else Fraction(cols[0][i][0]) for i in range(n)]
        passes.append({'suffix': None, 'n': n, 'names': names, 'dtypes': dtypes, 'cols': cols, 'alts': [None] * len(cols), 'alt_sig': None,
                       'x': x, 'x_allow': [Fraction(0)] * n, 'factor': LIS_OPTICAL.get(bytes(xunits), Fraction(1)),
                       'implied_x': bool(lp['indirect']), 'reduce': True, 'dropped_by_grouping': dropped[k],
                       'per_record': list(lp['per_record']), 'spacing': Fraction(lp['xs']['spacing']) * (-1 if lp['xs']['up_down'] == 1 else 1)})
    return data, passes, {'model': model}


def ffffff(word):
    s, e, m = ibm.ibm_fields(word)
    q = Fraction(m, 0xFFFFFF) * Fraction(16) ** (e - 64)
    return float(-q if s else q)


def bit_passes(src):
    model = dict(src, passes=[dict(p, tail=bytes(p['tail'][:8]).ljust(8)) for p in src['passes']])   # 276 byte header block
    data = GB.encode_bit_file(model)
    passes = []
    for k, p in enumerate(model['passes']):
        n = GB.pass_frames(p)
        start, stop, sp = (ibm.ibm_fraction(w) for w in p['range_words'][:3])
        dirn = 1 if stop > start else -1
        x = [start + dirn * i * sp for i in range(n)]
        cols = [[[float(v)] for v in x]] + [[[ibm.ibm_float(w)] for w in words] for words in p['data']]
        alts = [None] + [[[ffffff(w)] for w in words] for words in p['data']]
        passes.append({'suffix': '_%04d.las' % k, 'n': n, 'names': ['X'] + [c.strip() for c in p['channels']],
                       'raw_names': ['X   '] + list(p['channels']), 'dtypes': ['float64'] * (len(p['channels']) + 1), 'cols': cols, 'alts': alts,
                       'alt_sig': SIG_FFFFFF, 'x': x, 'x_allow': [i * EPS * (abs(start) + i * abs(sp)) for i in range(n)],
                       'factor': Fraction(1), 'implied_x': True, 'reduce': False})
    return data, passes, {}


SOURCES = {'RP66V1': rp66_passes, 'LIS': lis_passes, 'BIT': bit_passes}
FILE_NAMES = {'RP66V1': 'src.dlis', 'LIS': 'src.lis', 'BIT': 'src.bit'}


# ---------------------------------------------------------------------------------------------------------
# Strategies
# ---------------------------------------------------------------------------------------------------------
def _bit_plain_names(model):
    """BIT channel names without interior spaces, dots, colons and hashes (pure map; names stay distinct)."""
    out = []
    for p in model['passes']:
        seen, names = {'X   '}, []
        for i, nm in enumerate(p['channels']):
            body = nm.rstrip(' ')
            body = ''.join(ch if ch not in ' .:#' else '_' for ch in body) or 'C'
            nm2 = body.ljust(4)[:4]
            j = 0
            while nm2 in seen:
                nm2 = 'Z%s%s%s' % (GB.NAME_ALPHABET[j % 36], GB.NAME_ALPHABET[i // 36], GB.NAME_ALPHABET[i % 36])
                j += 1
            seen.add(nm2)
            names.append(nm2)
        out.append(dict(p, channels=names))
    return dict(model, passes=out)


@st.composite
def lis_sources(draw, max_frames):
    m = draw(GL.lis_files(max_passes=2, max_frames=max_frames, allow_dipmeter=False, empty_passes=True))
    if draw(st.integers(0, 3)) == 0:
        # channel mnemonics shorter than four characters padded with NUL bytes instead of spaces (common in LIS files)
        for kind, payload in m['items']:
            if kind == 'pass':
                for k, d in enumerate(payload['dsbs']):
                    if (k or payload['indirect']) and d['mnem'].endswith(b' ') and d['mnem'].strip() and draw(st.booleans()):
                        d['mnem'] = d['mnem'].rstrip(b' ').ljust(4, b'\x00')
                        if draw(st.integers(0, 2)) == 0:     # ... or written to the right of the field: padding in front
                            d['mnem'] = draw(st.sampled_from([b' ', b'\x00'])) + d['mnem'][:3]
    return m


def sources(fmt, max_frames):
    if fmt == 'RP66V1':
        return GT.tolas_files(max_files=2, max_frame_types=3, max_channels=5, max_frames=max_frames)
    if fmt == 'LIS':
        return lis_sources(max_frames)
    return st.one_of(GB.bit_models(max_passes=3, max_channels=6, max_frames=max_frames, min_frames=1),
                     GB.bit_models(max_passes=3, max_channels=6, max_frames=max_frames, min_frames=3),
                     GB.bit_models(max_passes=2, max_channels=4, max_frames=max_frames, min_frames=6)).map(_bit_plain_names)


FORMATS = st.one_of(st.integers(0, 6).map(lambda k: '.%df' % k), st.integers(0, 6).map(lambda k: '.%df' % k), st.just('.3f'),
                    st.integers(2, 6).map(lambda k: '.%de' % k), st.integers(3, 9).map(lambda k: '.%dg' % k))
WIDTHS = st.one_of(st.integers(4, 24), st.sampled_from((12, 16, 16, 20, 24)))


@st.composite
def selections(draw, ns):
    """A selector valid for every pass length in ns: ('slice', start, stop, step) selecting >= 1 frame of each, or ('sample', k)."""
    nmin, nmax = min(ns), max(ns)
    kind = draw(st.integers(0, 9))
    if kind <= 1:
        return ('sample', draw(st.one_of(st.integers(1, nmax + 3), st.integers(1, max(1, nmax - 1)))))
    if kind == 2:
        return ('slice', None, None, draw(st.sampled_from((None, 1, 2, 3))))
    step = draw(st.sampled_from((None, 1, 2, 2, 3, 3, 4, 5, 6)))
    form = draw(st.integers(0, 5))
    if form <= 2 or nmin == 1:                      # start >= 0 or None
        a = draw(st.integers(0, nmin - 1))
        start = None if a == 0 and draw(st.booleans()) else a
        sk = draw(st.integers(0, 3))
        if sk == 0:
            stop = None
        elif sk == 1 and nmin - a >= 2:
            stop = -draw(st.integers(1, nmin - a - 1))          # n - m > a for every n
        else:
            stop = draw(st.integers(a + 1, nmax + 2))
    else:                                            # start < 0
        k = draw(st.integers(1, nmin))
        start = -k
        sk = draw(st.integers(0, 3))
        if sk == 0 or (sk == 1 and k == 1):
            stop = None
        elif sk == 1:
            stop = -draw(st.integers(1, k - 1))
        else:
            stop = draw(st.integers(nmax - k + 1, nmax + 2))
    return ('slice', start, stop, step)


@st.composite
def channel_requests(draw, passes):
    """[] (all) or a list of names: per pass a masked choice of its channels, sometimes the X axis, sometimes an unknown name."""
    if draw(st.integers(0, 2)) == 0:
        return []
    mask = draw(st.integers(0, 255))
    names = []
    for p in passes:
        raw = p.get('raw_names', p['names'])
        for k, nm in enumerate(raw):
            if k == 0:
                # the X axis: a channel of the source (RP66V1, LIS explicit X), the computed axis of BIT; LIS implied X has no name to ask for
                if mask & 1 and nm not in names and (not p['implied_x'] or 'raw_names' in p):
                    names.append(nm)
            elif (mask >> (1 + (k % 7))) & 1 and nm not in names:
                names.append(nm)
    if draw(st.integers(0, 5)) == 0:
        names.append(draw(st.sampled_from(('NOSUCH', 'ZZZZ', 'dept'))))
    # what a user types for a four character source mnemonic: the name without its padding ('SP' for 'SP  ')
    padded = [nm for p in passes for nm in p.get('raw_names', ())[1:] if nm.strip() != nm and nm.strip() and nm not in names]
    if padded and draw(st.integers(0, 3)) == 0:
        nm = draw(st.sampled_from(padded)).strip()
        if nm not in names:
            names.append(nm)
    if not names:
        names.append(draw(st.sampled_from(('NOSUCH', passes[0].get('raw_names', passes[0]['names'])[-1]))))
    return names


@st.composite
def cases(draw, fmt, max_frames=24):
    src = draw(sources(fmt, max_frames))
    _data, passes, _extra = SOURCES[fmt](src)
    if not passes:
        raise HarnessError('source without log pass generated')
    sel = draw(selections([p['n'] for p in passes]))
    width = draw(WIDTHS)
    if fmt == 'LIS':
        width = max(width, 7)       # the heading comment of an implied X column is padded to width - 6 (see ASSUMPTIONS)
    return {'fmt': fmt, 'src': src, 'sel': sel, 'channels': draw(channel_requests(passes)),
            'reduction': draw(st.sampled_from(REDUCTIONS)), 'width': width, 'float_format': draw(FORMATS)}


# ---------------------------------------------------------------------------------------------------------
# The independent LAS splitter
# ---------------------------------------------------------------------------------------------------------
def split_las(text):
    """Returns {'sections': [letter...], 'well': {mnem: (unit, value)}, 'well_order': [...], 'curves': [name...], 'heading': [names] | None,
    'rows': [[token...]]}.  Raises ValueError on a text that has no section structure."""
    lines = text.split('\n')
    if lines and lines[-1] == '':
        lines.pop()
    out = {'sections': [], 'well': {}, 'well_order': [], 'curves': [], 'heading': None, 'rows': [], 'has_data': False}
    sect = None
    for ln in lines:
        if ln.startswith('~'):
            sect = ln[1:2].upper()
            out['sections'].append(sect)
            if sect == 'A':
                out['has_data'] = True
                rest = ln[2:].split()
                # WriteLAS puts the channel names on the ~A line; 'ASCII Log Data' style titles are text in brackets
                out['heading'] = None if ln[2:].lstrip().startswith('(') else rest
            continue
        if sect is None:
            raise ValueError('text before the first section: %r' % ln[:60])
        if sect == 'A':
            if ln.lstrip().startswith('#') or not ln.strip():
                continue
            out['rows'].append(ln.split())
            continue
        if ln.lstrip().startswith('#') or not ln.strip():
            continue
        if sect in ('W', 'C'):
            dot = ln.find('.')
            if dot < 0:
                raise ValueError('line without a dot in section %s: %r' % (sect, ln[:80]))
            mnem = ln[:dot].strip()
            rest = ln[dot + 1:]
            end = 0
            while end < len(rest) and rest[end] not in ' \t':
                end += 1
            unit = rest[:end]
            colon = rest.rfind(':')
            value = rest[end:colon if colon >= end else len(rest)].strip()
            if sect == 'W':
                out['well'][mnem] = (unit, value)
                out['well_order'].append(mnem)
            else:
                out['curves'].append(mnem)
    return out


# ---------------------------------------------------------------------------------------------------------
# Capturing why a converter said "failed"
# ---------------------------------------------------------------------------------------------------------
class _Capture(logging.Handler):
    def __init__(self):
        super().__init__(level=logging.ERROR)
        self.records = []

    def emit(self, record):
        self.records.append(record)


@contextlib.contextmanager
def capture_errors(logger):
    """The converters swallow the exception of a failed file and log it; this collects those log records."""
    h = _Capture()
    null = logging.NullHandler()
    root = logging.getLogger()
    prev = (logging.root.manager.disable, logger.propagate, logger.level)
    logging.disable(logging.WARNING)
    logger.addHandler(h)
    root.addHandler(null)
    logger.propagate = False
    logger.setLevel(logging.ERROR)
    try:
        yield h
    finally:
        logger.removeHandler(h)
        root.removeHandler(null)
        logger.propagate = prev[1]
        logger.setLevel(prev[2])
        logging.disable(prev[0])


def failure_signature(handler):
    for rec in handler.records:
        if rec.exc_info and rec.exc_info[1] is not None:
            return 'failed:' + engine.exc_sig(rec.exc_info[1]), repr(rec.exc_info[1])
    for rec in handler.records:
        return 'failed:logged-error', rec.getMessage()[:300]
    return 'failed:no-reason-logged', ''


# ---------------------------------------------------------------------------------------------------------
# Reference selection
# ---------------------------------------------------------------------------------------------------------
def expected_rows(sel, n):
    """Row indices for Slice; None for Sample."""
    if sel[0] == 'sample':
        return None
    return list(range(n))[slice(sel[1], sel[2], sel[3])]


def slice_last_form(sel, n):
    """The rows first : last() + 1 : step with last() as common/Slice.py computes it (the form of candidate defect F11b)."""
    if sel[0] == 'sample':
        size = sel[1]
        if size >= n:
            return list(range(n)), n - 1
        last = n - size
        return list(range(0, last + 1, n // size)), last
    ind = slice(sel[1], sel[2], sel[3]).indices(n)
    last = n - 1 if n < ind[1] else ind[2] * (ind[1] // ind[2]) - 1       # >= -1
    return list(range(n))[ind[0]:last + 1:ind[2]], last


def expected_columns(p, requested):
    if not requested:
        return list(range(len(p['names'])))
    raw = p.get('raw_names', p['names'])
    want = set(requested)
    return [k for k, nm in enumerate(raw) if k == 0 or nm in want]


def token_devs(tok, values, alt, reduction, dtype, allow_extra=Fraction(0)):
    """'' when the token is within print precision of the reduction of values; else a signature fragment."""
    pnum = lasfmt.parse_number(tok)
    if pnum is None:
        return 'token-not-a-number', None
    r, allowance = c10.reference_reduce(values, reduction, dtype)
    if abs(pnum.value - r) <= pnum.half_unit + allowance + allow_extra:
        return '', None
    if alt is not None:
        r2, a2 = c10.reference_reduce(alt, reduction, dtype)
        if abs(pnum.value - r2) <= pnum.half_unit + a2 + allow_extra:
            return 'known-alt', float(r)
    return 'value-off', float(r)


def rows_match(p, rows_idx, cols_idx, tok_rows, reduction):
    """True when every token row matches the reference rows rows_idx (used to recognise which frames were written)."""
    if len(tok_rows) != len(rows_idx):
        return False
    for f, row in zip(rows_idx, tok_rows):
        if len(row) != len(cols_idx):
            return False
        for tok, k in zip(row, cols_idx):
            red = reduction if p['reduce'] else 'first'
            extra = p['x_allow'][f] if k == 0 else Fraction(0)
            sig, _r = token_devs(tok, p['cols'][k][f], None if p['alts'][k] is None else p['alts'][k][f], red, p['dtypes'][k], extra)
            if sig not in ('', 'known-alt'):
                return False
    return True


def sample_assignment(p, cols_idx, tok_rows, reduction, skip_x=False):
    """Greedy strictly increasing assignment of written rows to source frames by the X column and all other columns.
    Returns the index list or None.  skip_x: the X column is left out (LIS implied X, whose values of stepped loads are subject to
    the known finding C06-implied-x-late-entry): only regularly spaced index lists starting at 0 are tried then, because channel
    values alone need not identify a frame."""
    if skip_x:
        for k in range(1, p['n'] + 1):
            idx = list(range(0, p['n'], k))[:len(tok_rows)]
            if len(idx) == len(tok_rows) and rows_match(p, idx, cols_idx[1:], [r[1:] for r in tok_rows], reduction):
                return idx
        return None
    idx, lo = [], 0
    for row in tok_rows:
        found = None
        for f in range(lo, p['n']):
            if rows_match(p, [f], cols_idx, [row], reduction):
                found = f
                break
        if found is None:
            return None
        idx.append(found)
        lo = found + 1
    return idx


# ---------------------------------------------------------------------------------------------------------
def convert(fmt, path_in, path_out, case):
    from TotalDepth.common import Slice
    sel = case['sel']
    frame_slice = Slice.Sample(sel[1]) if sel[0] == 'sample' else Slice.Slice(sel[1], sel[2], sel[3])
    if fmt == 'RP66V1':
        from TotalDepth.RP66V1 import ToLAS
        fn = ToLAS.single_rp66v1_file_to_las
    elif fmt == 'LIS':
        from TotalDepth.LIS import ToLAS
        fn = ToLAS.single_lis_file_to_las
    else:
        from TotalDepth.BIT import ToLAS
        fn = ToLAS.single_bit_path_to_las_path
    with capture_errors(ToLAS.logger) as cap:
        result = fn(path_in, case['reduction'], path_out, frame_slice, set(case['channels']), case['width'], case['float_format'])
    return result, cap


def check(case, cc):
    logging.disable(logging.CRITICAL)
    fmt = case['fmt']
    sel = tuple(case['sel'])
    data, passes, extra = SOURCES[fmt](case['src'])
    if not passes:
        raise HarnessError('case without log pass')
    requested = list(case['channels'])
    reduction = case['reduction']
    # ---- classes
    for p in passes:
        rows = expected_rows(sel, p['n'])
        if rows is not None and not rows:
            cc.cls('excluded:empty-selection-of-a-pass')
            return
    step_gt1 = sel[0] == 'slice' and (sel[3] or 1) > 1 and any(len(expected_rows(sel, p['n'])) >= 2 for p in passes)
    neg = sel[0] == 'slice' and ((sel[1] or 0) < 0 or (sel[2] or 0) < 0)
    small_sample = sel[0] == 'sample' and any(1 < sel[1] < p['n'] for p in passes)
    omits = bool(requested) and any(len(expected_columns(p, requested)) < len(p['names']) for p in passes)
    cc.cls('fmt:' + fmt)
    cc.cls('slice', sel[0] == 'slice')
    cc.cls('slice-step>1', step_gt1)
    cc.cls('slice-negative-bound', neg)
    cc.cls('slice-none-bound', sel[0] == 'slice' and (sel[1] is None or sel[2] is None))
    cc.cls('slice-selects-all', sel[0] == 'slice' and all(expected_rows(sel, p['n']) == list(range(p['n'])) for p in passes))
    cc.cls('sample', sel[0] == 'sample')
    cc.cls('sample-smaller-than-pass', small_sample)
    cc.cls('sample-irregular', sel[0] == 'sample' and any(1 < sel[1] < p['n'] and p['n'] % sel[1] for p in passes))
    cc.cls('channel-subset', bool(requested))
    cc.cls('channel-subset-omits-channel', omits)
    cc.cls('channel-subset-names-x', bool(requested) and any(p.get('raw_names', p['names'])[0] in requested for p in passes))
    cc.cls('channel-subset-unknown-name', bool(requested) and any(all(r not in p.get('raw_names', p['names']) for p in passes) for r in requested))
    cc.cls('>=2-log-passes', len(passes) >= 2)
    cc.cls('single-row-selected', any((len(expected_rows(sel, p['n'])) == 1) if sel[0] == 'slice' else (sel[1] == 1 or p['n'] == 1) for p in passes))
    cc.cls('>=3-rows-selected', any((len(expected_rows(sel, p['n'])) >= 3) if sel[0] == 'slice' else (min(sel[1], p['n']) >= 3) for p in passes))
    cc.cls('multi-valued-channel', any(len(c[0]) > 1 for p in passes for c in p['cols']))
    cc.cls('reduction:' + reduction, any(len(c[0]) > 1 for p in passes for c in p['cols']) and fmt != 'BIT')
    cc.cls('format:' + case['float_format'][-1])
    cc.cls('width<=8', case['width'] <= 8)
    cc.cls('lis-empty-log-pass-before-data', fmt == 'LIS' and any(k == 'pass' and not pl['frames'] for k, pl in case['src']['items']))
    cc.cls('implied-x', fmt == 'LIS' and any(p['implied_x'] for p in passes))
    cc.cls('explicit-x', fmt == 'LIS' and any(not p['implied_x'] for p in passes))
    cc.cls('lis-nul-padded-mnemonic', fmt == 'LIS' and any(k == 'pass' and any(b'\x00' in d['mnem'] for d in pl['dsbs']) for k, pl in case['src']['items']))
    cc.cls('lis-nul-padded-mnemonic-requested', fmt == 'LIS' and bool(requested) and any(
        k == 'pass' and any(b'\x00' in d['mnem'] and d['mnem'].replace(b'\x00', b' ').decode('ascii').strip() in requested for d in pl['dsbs'])
        for k, pl in case['src']['items']))
    cc.cls('request-names-channel-without-its-padding', bool(requested) and any(
        r.strip() == r and any(nm_ != r and nm_.strip() == r for nm_ in p.get('raw_names', ())) for p in passes for r in requested))
    cc.cls('lis-optical-units', fmt == 'LIS' and any(p['factor'] != 1 for p in passes))
    cc.cls('logical-file-without-log-pass', bool(extra.get('extra')))
    cc.cls('vsingl-channel', fmt == 'RP66V1' and any(a is not None for p in passes for a in p['alts']))
    nt = (step_gt1 or neg or small_sample) and (omits or len(passes) >= 2)
    cc.nt(nt)
    cc.cls('nontrivial', nt)
    cc.sample({'fmt': fmt, 'sel': sel, 'channels': requested, 'reduction': reduction, 'width': case['width'], 'format': case['float_format'],
               'passes': [{'frames': p['n'], 'channels': p['names'][:8], 'implied_x': p['implied_x']} for p in passes]})
    # ---- convert
    with tempfile.TemporaryDirectory(prefix='vt_c11_') as tmp:
        file_name = FILE_NAMES[fmt]
        if fmt == 'RP66V1':     # dots inside the name (well.1.dlis): only the last one starts the extension
            file_name = ('src.dlis', 'well.1.dlis', 'run.2.final.DLIS', 'src.dlis')[(len(data) // 2 + len(passes)) % 4]
            cc.cls('rp66v1-input-name-with-inner-dots', file_name.count('.') > 1)
        extra = dict(extra, file_name=file_name)
        path_in = os.path.join(tmp, 'in', file_name)
        out_dir = os.path.join(tmp, 'out')
        os.makedirs(os.path.dirname(path_in))
        with open(path_in, 'wb') as f:
            f.write(data)
        path_out = os.path.join(out_dir, file_name)
        # one case in four: the output is named the way a user in the output directory names it - a bare file name
        bare = (len(data) + len(passes)) % 4 == 0
        cc.cls('output-path-without-a-directory-part', bare)
        if bare:
            os.makedirs(out_dir)
            old_cwd = os.getcwd()
            os.chdir(out_dir)
            try:
                result, cap = convert(fmt, path_in, file_name, case)
            finally:
                os.chdir(old_cwd)
        else:
            result, cap = convert(fmt, path_in, path_out, case)
        produced = {}
        if os.path.isdir(out_dir):
            for nm in sorted(os.listdir(out_dir)):
                with open(os.path.join(out_dir, nm), 'r', newline='') as f:
                    produced[nm] = f.read()
    check_outputs(case, cc, fmt, sel, passes, extra, requested, reduction, result, cap, produced)


def lis_implied_pass_without_requested(passes, requested):
    """The situation of the known finding: some implied-X log pass holds none of the requested channels."""
    want = {r.strip() for r in requested}
    return any(p['implied_x'] and not any(nm.strip() in want for nm in p['names'][1:]) for p in passes)


def check_outputs(case, cc, fmt, sel, passes, extra, requested, reduction, result, cap, produced):
    seen = set()

    def dev(oracle, sig, detail):
        if (oracle, sig) not in seen:
            seen.add((oracle, sig))
            cc.dev(oracle, sig, detail)

    desc = '%s sel %r channels %r %s w%d %s' % (fmt, sel, requested, reduction, case['width'], case['float_format'])
    # ---- result
    if getattr(result, 'ignored', False) or result.binary_file_type == '':
        dev(O_RESULT, 'ignored', '%s: result %r' % (desc, result))
        return
    if result.exception:
        sig, why = failure_signature(cap)
        # F11b: first : last() + 1 : step is empty although frames are selected -> the BIT converter indexes an empty array
        if fmt == 'BIT' and sig.startswith('failed:exc:IndexError') and any(
                not slice_last_form(sel, p['n'])[0] for p in passes):
            sig = SIG_SLICE_LAST if sel[0] == 'slice' else SIG_SAMPLE_LAST
        if fmt == 'LIS' and requested and sig in ('failed:exc:TypeError@TotalDepth/LIS/core/FrameSet.py:__init__',
                                                  'failed:exc:AttributeError@TotalDepth/LIS/core/FrameSet.py:__init__'):
            sig = SIG_LIS_CHANNELS      # the set of names reaches FrameSet, which wants a list of channel indexes
        if fmt == 'LIS' and requested and 'None of the channels' in why and 'is in Log Pass' in why and lis_implied_pass_without_requested(passes, requested):
            # residue of the repair of C11-lis-channels: an implied-X log pass that holds none of the requested channels
            # is refused (no X axis can be loaded for it) instead of being written with its X column alone
            sig = 'failed:lis-implied-x-pass-holds-none-of-the-requested-channels'
        dev(O_RESULT, sig, '%s: conversion failed: %s' % (desc, why))
        return
    # ---- which LAS files hold data, in order
    stem = extra.get('file_name') or FILE_NAMES[fmt]
    files = []
    for nm, text in produced.items():
        try:
            files.append((nm, split_las(text), text))
        except ValueError as err:
            dev(O_READ, 'splitter:no-section-structure', '%s: %s: %s' % (desc, nm, err))
            return
    data_files = [(nm, s, t) for nm, s, t in files if s['has_data']]
    if fmt == 'RP66V1':
        base = os.path.splitext(stem)[0]
        expect = [base + p['suffix'] for p in passes]
        got = [nm for nm, _s, _t in data_files]
        plain = sorted(nm for nm, s, _t in files if not s['has_data'])
        if sorted(set(expect)) != sorted(got) or len(set(expect)) != len(expect):
            if len(set(expect)) != len(expect) and sorted(set(expect)) == sorted(got):
                dev(O_COUNT, SIG_SAME_IDENT, '%s: %d frame arrays, LAS files %r' % (desc, len(passes), got))
            else:
                dev(O_COUNT, 'las-files', '%s: LAS files with data %r, expected %r' % (desc, got, expect))
        if plain != sorted(base + e for e in extra['extra'] if base + e not in got):
            dev(O_COUNT, 'las-files-without-data', '%s: LAS files without data %r, logical files without log pass %r' % (desc, plain, extra['extra']))
        by_name = {nm: (s, t) for nm, s, t in data_files}
        pairs = [(p, expect[k], by_name.get(expect[k])) for k, p in enumerate(passes) if expect.count(expect[k]) == 1]
    else:
        pat = re.compile(r'^' + re.escape(stem) + (r'_(\d+)\.las$' if fmt == 'LIS' else r'_(\d{4})\.las$'))
        bad = [nm for nm, _s, _t in files if not pat.match(nm)]
        if bad:
            dev(O_COUNT, 'las-file-name', '%s: unexpected output names %r' % (desc, bad))
        data_files.sort(key=lambda x: int(pat.match(x[0]).group(1)) if pat.match(x[0]) else 10 ** 9)
        survivors = list(passes)
        if len(data_files) != len(passes):
            kept = [p for p in passes if not p.get('dropped_by_grouping')]
            if fmt == 'LIS' and len(kept) < len(passes) and len(data_files) == len(kept):
                dev(O_COUNT, SIG_LIS_DROPPED, '%s: %d log passes, %d LAS files with data: %r' % (desc, len(passes), len(data_files), [nm for nm, _s, _t in data_files]))
                survivors = kept
            else:
                dev(O_COUNT, 'las-files', '%s: %d log passes, LAS files with data: %r (all: %r)' % (
                    desc, len(passes), [nm for nm, _s, _t in data_files], sorted(produced)))
                return
        if fmt == 'BIT':
            for k, (nm, _s, _t) in enumerate(data_files):
                if nm != stem + passes[k]['suffix']:
                    dev(O_COUNT, 'las-file-name', '%s: pass %d written to %r' % (desc, k, nm))
        pairs = [(p, nm, (s, t)) for p, (nm, s, t) in zip(survivors, data_files)]
    for p, nm, st_ in pairs:
        if st_ is None:
            continue
        k = passes.index(p)
        earlier_x = [q.get('raw_names', q['names'])[0] for q in passes[:k] if not (fmt == 'LIS' and q['implied_x'])]
        check_pass(case, cc, dev, desc, fmt, sel, p, requested, reduction, nm, st_[0], st_[1], earlier_x)


def check_pass(case, cc, dev, desc, fmt, sel, p, requested, reduction, nm, s, text, earlier_x):
    n = p['n']
    where = '%s: %s (%d frames, channels %r)' % (desc, nm, n, p['names'][:8])
    cols_idx = expected_columns(p, requested)
    want_names = [p['names'][k] for k in cols_idx]
    red = reduction if p['reduce'] else 'first'
    if fmt == 'LIS':
        # a mnemonic padded with NUL bytes in the source may keep them in the LAS file: names are compared without padding
        unpad = lambda names: None if names is None else [nm_.replace('\x00', ' ').strip() for nm_ in names]  # noqa
        s = dict(s, curves=unpad(s['curves']), heading=unpad(s['heading']))
    # ---- columns
    raw_ = p.get('raw_names')
    if raw_ and requested and s['curves'] != want_names:
        # a request without the padding of the source name ('SP' for 'SP  '): whether that names the channel is not stated;
        # either reading is accepted, but ~C, the ~A heading and the rows must agree on it
        bare = {r.strip() for r in requested}
        alt_idx = [k for k, nm_ in enumerate(raw_) if k == 0 or nm_ in requested or nm_.strip() in bare]
        if alt_idx != cols_idx and s['curves'] == [p['names'][k] for k in alt_idx]:
            cc.cls('request-without-padding-taken-as-the-channel')
            cols_idx, want_names = alt_idx, [p['names'][k] for k in alt_idx]
    if s['curves'] != want_names:
        # the form of one known defect: the X axis names of the passes converted before are added to the request
        leaked = expected_columns(p, requested + earlier_x) if requested and fmt != 'LIS' else cols_idx
        if leaked != cols_idx and s['curves'] == [p['names'][k] for k in leaked]:
            dev(O_COLS, SIG_X_LEAK, '%s: ~C lists %r, requested %r: expected %r; X axis names of earlier passes: %r' % (
                where, s['curves'], requested, want_names, earlier_x))
            cols_idx, want_names = leaked, [p['names'][k] for k in leaked]
        else:
            dev(O_COLS, 'curve-section-channels', '%s: ~C lists %r, expected %r' % (where, s['curves'], want_names))
            return
    if s['heading'] is not None and s['heading'] != want_names:
        dev(O_COLS, 'heading-channels', '%s: ~A heading %r, expected %r' % (where, s['heading'], want_names))
    # ---- rows
    tok_rows = s['rows']
    exp = expected_rows(sel, n)
    rows_ok = all(len(r) == len(cols_idx) for r in tok_rows)
    if not rows_ok:
        f = next(i for i, r in enumerate(tok_rows) if len(r) != len(cols_idx))
        sig = 'row-token-count'
        if fmt == 'LIS' and len(tok_rows[f]) < len(cols_idx) and any(len(t) >= case['width'] for t in tok_rows[f]):
            sig = SIG_LIS_RUN
        dev(O_ROWS, sig, '%s: row %d has %d tokens for %d columns (width %d): %r' % (where, f, len(tok_rows[f]), len(cols_idx), case['width'], tok_rows[f][:8]))
    if rows_ok:
        # the form of every token: floating point columns in the requested decimal format, integer columns without decimals
        # (the value tolerance below is half a unit of the digits printed: fewer digits than requested would pass it)
        import re as _re
        ff = case['float_format']
        nd = int(ff[1:-1])
        ffloat = {'f': (r'^[-+]?\d+\.\d{%d}$' % nd) if nd else r'^[-+]?\d+$',
                  'e': (r'^[-+]?\d\.\d{%d}e[-+]\d{2,3}$' % nd) if nd else r'^[-+]?\de[-+]\d{2,3}$'}.get(ff[-1])
        for r_ in tok_rows[:50]:
            for k_, tok_ in zip(cols_idx, r_):
                form = ffloat if p['dtypes'][k_].startswith('float') else r'^[-+]?\d+$'
                if form is not None and not _re.match(form, tok_) and tok_.lower() not in ('nan', 'inf', '-inf'):
                    dev(O_VALUE, 'token-not-in-the-requested-format', '%s: column %s (%s): %r is not what format %r prints' % (
                        where, p['names'][k_], p['dtypes'][k_], tok_, ff if p['dtypes'][k_].startswith('float') else '.0f'))
                    break
    written = None          # frame index of every written row, when it can be told
    x_unassigned = False
    if sel[0] == 'slice':
        if len(tok_rows) != len(exp):
            form, _last = slice_last_form(sel, n)
            if form != exp and len(tok_rows) == len(form) and (not rows_ok or rows_match(p, form, cols_idx, tok_rows, red)):
                dev(O_ROWS, SIG_SLICE_LAST, '%s: %d rows written = frames %r; Python selects %r' % (where, len(tok_rows), form[:12], exp[:12]))
                written = form
            else:
                dev(O_ROWS, 'row-count', '%s: %d rows written, Python selects %d frames %r' % (where, len(tok_rows), len(exp), exp[:12]))
        else:
            written = exp
    else:
        size = sel[1]
        if len(tok_rows) > size or len(tok_rows) > n or not tok_rows:
            dev(O_ROWS, 'sample-row-count', '%s: %d rows for Sample(%d) of %d frames' % (where, len(tok_rows), size, n))
        elif rows_ok:
            written = sample_assignment(p, cols_idx, tok_rows, red)
            if written is None and fmt == 'LIS' and p['implied_x']:
                written = sample_assignment(p, cols_idx, tok_rows, red, skip_x=True)
                x_unassigned = written is not None
            if written is None:
                # rows that cannot be matched in increasing order: say whether the first row is frame 0
                if not rows_match(p, [0], cols_idx, tok_rows[:1], red):
                    dev(O_ROWS, 'sample-first-row-not-frame-0', '%s: first row %r' % (where, tok_rows[0][:6]))
                else:
                    dev(O_ROWS, 'sample-rows-not-increasing-source-frames', '%s: rows do not map to increasing source frames' % where)
            elif written[0] != 0:
                dev(O_ROWS, 'sample-first-row-not-frame-0', '%s: rows are frames %r' % (where, written[:12]))
                written = None
    # ---- values
    if written is not None and rows_ok:
        for i, (f, row) in enumerate(zip(written, tok_rows)):
            for tok, k in zip(row, cols_idx):
                if k == 0 and x_unassigned:
                    # the rows of this sample were matched to source frames by their channel values only (the implied X
                    # column did not fit any increasing assignment, which is what the known C06 error produces): the
                    # frame a row came from is then not certain enough to judge its X value
                    cc.cls('lis-sample-x-not-judged')
                    continue
                extra = p['x_allow'][f] if k == 0 else Fraction(0)
                sig, ref = token_devs(tok, p['cols'][k][f], None if p['alts'][k] is None else p['alts'][k][f], red, p['dtypes'][k], extra)
                if not sig:
                    continue
                if sig == 'known-alt':
                    dev(O_VALUE, p['alt_sig'], '%s: row %d (frame %d) channel %s: printed %r, exact %r' % (where, i, f, p['names'][k], tok, ref))
                    continue
                if sig == 'value-off' and k == 0 and fmt == 'LIS' and p['implied_x'] and lis_late_entry(p, written, i, tok_rows):
                    dev(O_VALUE, SIG_IMPLIED_X, '%s: row %d (frame %d): X printed %r, exact %r' % (where, i, f, tok, ref))
                    continue
                kind = 'x-axis' if k == 0 else ('single' if len(p['cols'][k][f]) == 1 else red)
                dev(O_VALUE, '%s:%s' % (sig, kind), '%s: row %d (frame %d) channel %s (%s, %s of %r): printed %r, exact %r' % (
                    where, i, f, p['names'][k], p['dtypes'][k], red, p['cols'][k][f][:12], tok, ref))
    # ---- well section
    if written:
        cands = ()
        if sel[0] == 'sample' and rows_ok:
            cands = [f for f in range(written[-1], n) if rows_match(p, [f], cols_idx, tok_rows[-1:], red)]
            # (the assignment found is the earliest one: when the format prints fewer digits than tell neighbouring frames apart,
            # the rows may as well be the frames one selector stride apart - the situation the known form of the LIS well section
            # asks for)
            sstep_ = 1 if sel[1] >= n else n // sel[1]
            regular = [i * sstep_ for i in range(len(tok_rows))]
            # (implied X: the X column of a stepped load carries the known late entry error, the other columns decide)
            s['_rows_fit_selector_stride'] = regular[-1] < n and (rows_match(p, regular, cols_idx, tok_rows, red) or (
                fmt == 'LIS' and p['implied_x'] and rows_match(p, regular, cols_idx[1:], [r_[1:] for r_ in tok_rows], red)))
        check_well(cc, dev, where, fmt, sel, p, s, written, tok_rows if rows_ok else None, cands)
    # ---- LASRead (it refuses an index that the chosen format does not resolve: C10's domain is an index above the print resolution)
    xs = [lasfmt.parse_number(r[0]) for r in tok_rows if r]
    resolved = all(q is not None for q in xs) and len(set(q.value for q in xs)) == len(xs)
    cc.cls('x-not-resolved-by-format', not resolved)
    if resolved and rows_ok:
        check_readback(dev, where, nm, text, want_names, tok_rows, rows_ok)


def lis_late_entry(p, written, i, tok_rows):
    """The known form of C06-implied-x-late-entry: row i is the first loaded frame of its data record, not the first row, at
    offset > 0 in the record, and its X equals the previous printed X + offset * spacing."""
    if i == 0:
        return False
    per, f = p['per_record'], written[i]

    def rec_of(fr):
        a = 0
        for j, m in enumerate(per):
            if fr < a + m:
                return j, fr - a
            a += m
        return None, None
    j, off = rec_of(f)
    # any earlier row of the same record already carries the error forward
    first_in_rec = next(k for k, w in enumerate(written) if rec_of(w)[0] == j)
    if first_in_rec == 0 or rec_of(written[first_in_rec])[1] == 0:
        return False
    prev = lasfmt.parse_number(tok_rows[first_in_rec - 1][0])
    cur = lasfmt.parse_number(tok_rows[i][0])
    if prev is None or cur is None:
        return False
    off_first = rec_of(written[first_in_rec])[1]
    wrong_first = prev.value + off_first * p['spacing']
    wrong = wrong_first + (f - written[first_in_rec]) * p['spacing']
    return abs(cur.value - wrong) <= cur.half_unit + prev.half_unit


def printed_x(tok_rows, i):
    if not tok_rows:
        return None
    return lasfmt.parse_number(tok_rows[i][0])


def lis_index_estimate(p):
    """(X of the last frame, frame spacing) of the whole pass as the LIS index summarises it: it knows the X of the first frame of
    every data record; with a single record it knows neither (0)."""
    per = p['per_record']
    if len(per) < 2:
        return Fraction(0), Fraction(0)
    first_of_last = sum(per[:-1])
    spacing = (p['x'][first_of_last] - p['x'][0]) / first_of_last
    return p['x'][first_of_last] + (per[-1] - 1) * spacing, spacing


def check_well(cc, dev, where, fmt, sel, p, s, exp_rows, tok_rows, last_candidates=()):
    """exp_rows: the source frames of the rows written; tok_rows: their printed tokens (None when rows are malformed).
    last_candidates (Sample): other source frames the last written row is consistent with - the printed rows need not identify
    their frames (values may repeat, X may be below the print resolution); the well section holds if it describes any of them."""
    best, best_n = exp_rows, None
    for f1 in [exp_rows[-1]] + [f for f in last_candidates if f != exp_rows[-1]]:
        got = []
        rows = list(exp_rows[:-1]) + [f1]
        well_devs(lambda o, sg, d: got.append(sg), where, fmt, sel, p, s, rows, tok_rows)
        rank = (sum(1 for g in got if g not in KNOWN_FORMS), len(got))     # forms of recorded defects do not speak against a candidate
        if best_n is None or rank < best_n:
            best, best_n = rows, rank
    if best_n[1]:
        well_devs(dev, where, fmt, sel, p, s, best, tok_rows)


def well_devs(dev, where, fmt, sel, p, s, exp_rows, tok_rows):
    well = s['well']
    f0, f1 = exp_rows[0], exp_rows[-1]
    fac = p['factor']
    x0, x1 = p['x'][f0] * fac, p['x'][f1] * fac
    a0 = p['x_allow'][f0] * fac + 4 * EPS * abs(x0)
    a1 = p['x_allow'][f1] * fac + 4 * EPS * abs(x1)
    n = p['n']
    form_rows, form_last = slice_last_form(sel, n)
    sig_last = SIG_SLICE_LAST if sel[0] == 'slice' else SIG_SAMPLE_LAST

    def within(tok, ref, allow):
        q = lasfmt.parse_number(tok)
        return q is not None and abs(q.value - ref) <= q.half_unit + allow

    for mnem, ref, allow, other in (('STRT', x0, a0, None), ('STOP', x1, a1, None)):
        if mnem not in well:
            dev(O_WELL, 'missing:' + mnem, '%s: no %s line in ~W (%r)' % (where, mnem, s['well_order'][:8]))
            continue
        tok = well[mnem][1]
        if within(tok, ref, allow):
            continue
        sig = mnem.lower() + ':value'
        if lasfmt.parse_number(tok) is None:
            sig = mnem.lower() + ':not-a-number'
        elif fmt == 'LIS':
            whole = (p['x'][0] if mnem == 'STRT' else lis_index_estimate(p)[0]) * fac
            printed = printed_x(tok_rows, 0 if mnem == 'STRT' else -1)
            if within(tok, whole, 4 * EPS * abs(whole)):
                sig = SIG_LIS_WHOLE
            elif p['implied_x'] and printed is not None and within(tok, printed.value * fac, printed.half_unit * fac + 4 * EPS * abs(printed.value * fac)):
                sig = SIG_IMPLIED_X     # agrees with the X column as written, which carries the known implied X error
        elif fmt == 'RP66V1' and mnem == 'STOP' and -n <= form_last < n and within(tok, p['x'][form_last], Fraction(0)):
            sig = sig_last
        dev(O_WELL, sig, '%s: %s %r, X of the %s row written (frame %d) is %s' % (where, mnem, tok, 'first' if mnem == 'STRT' else 'last',
                                                                                 f0 if mnem == 'STRT' else f1, float(ref)))
    if len(exp_rows) < 2:
        return
    step_ref = (x1 - x0) / (len(exp_rows) - 1)
    xeps = p.get('x_eps', EPS)     # the converter computes the step in the arithmetic of the index channel (float32 for the 32 bit codes)
    step_allow = (a0 + a1) / (len(exp_rows) - 1) + 4 * xeps * abs(step_ref)
    if 'STEP' not in well:
        if 'STRP' in well and within(well['STRP'][1], step_ref, step_allow):
            dev(O_WELL, SIG_STRP, '%s: the step %r is stated under the mnemonic STRP; ~W has %r' % (where, well['STRP'][1], s['well_order'][:6]))
        else:
            dev(O_WELL, 'missing:STEP', '%s: no STEP line in ~W (%r)' % (where, s['well_order'][:8]))
        return
    tok = well['STEP'][1]
    if within(tok, step_ref, step_allow):
        return
    sig = 'step:value'
    if lasfmt.parse_number(tok) is None:
        sig = 'step:not-a-number'
    elif fmt == 'RP66V1' and -n <= form_last < n:
        cnt = len(exp_rows)
        wrong = (p['x'][form_last] - p['x'][f0]) / (cnt - 1)
        if within(tok, wrong, 4 * xeps * abs(wrong)):
            sig = sig_last
    elif fmt == 'LIS':
        # the spacing the index estimates for the whole pass times the step of the selector
        if sel[0] == 'slice':
            sstep = slice(sel[1], sel[2], sel[3]).indices(n)[2]
        else:
            sstep = 1 if sel[1] >= n else n // sel[1]
        wrong = lis_index_estimate(p)[1] * fac * sstep
        pa, pb = printed_x(tok_rows, 0), printed_x(tok_rows, -1)
        # (the known form describes rows that ARE the selector's stride apart; rows written at another stride are another matter)
        strides = {b - a for a, b in zip(exp_rows, exp_rows[1:])}
        # (... the frames of the rows cannot always be told from the printed rows - implied X with its known late entry error,
        # fewer digits printed than tell neighbours apart: the caller says whether the rows fit the selector's stride)
        if within(tok, wrong, 4 * EPS * abs(wrong)) and (strides <= {sstep} or s.get('_rows_fit_selector_stride')):
            sig = SIG_LIS_WHOLE
        elif p['implied_x'] and pa is not None and pb is not None:
            w2 = (pb.value - pa.value) * fac / (len(exp_rows) - 1)
            if within(tok, w2, (pa.half_unit + pb.half_unit) * fac / (len(exp_rows) - 1) + 4 * EPS * abs(w2)):
                sig = SIG_IMPLIED_X
    dev(O_WELL, sig, '%s: STEP %r, (X last - X first) / (rows - 1) of the rows written is %s' % (where, tok, float(step_ref)))


def check_readback(dev, where, nm, text, want_names, tok_rows, rows_ok):
    import numpy as np
    from TotalDepth.LAS.core import LASRead
    try:
        las = LASRead.LASRead(io.StringIO(text), nm)
    except Exception as err:  # noqa
        sig = engine.exc_sig(err)
        dev(O_READ, 'lasread:' + sig, '%s: LASRead raised %r' % (where, err))
        return
    fa = las.frame_array
    if fa is None:
        dev(O_READ, 'lasread:no-frame-array', '%s: LASRead gives no frame array' % where)
        return
    got = [str(ch.ident).replace('\x00', ' ').strip() for ch in fa.channels]
    if got != want_names:
        dev(O_READ, 'lasread:channels', '%s: LASRead channels %r, expected %r' % (where, got, want_names))
        return
    if not rows_ok:
        return
    for k, ch in enumerate(fa.channels):
        arr = np.ma.getdata(ch.array)
        if arr.shape[0] != len(tok_rows):
            dev(O_READ, 'lasread:frame-count', '%s: LASRead has %d frames, %d rows written' % (where, arr.shape[0], len(tok_rows)))
            return
        for i, row in enumerate(tok_rows):
            q = lasfmt.parse_number(row[k])
            if q is not None and not (float(arr[i].reshape(-1)[0]) == q.as_float()):
                dev(O_READ, 'lasread:value', '%s: row %d column %d token %r read as %r' % (where, i, k, row[k], float(arr[i].reshape(-1)[0])))
                return


def parts(tier):
    mf = 24 if tier == 'quick' else 60
    return [
        HypPart('rp66v1', cases('RP66V1', mf), check, 800, 36000),
        HypPart('lis', cases('LIS', mf), check, 800, 36000),
        HypPart('bit', cases('BIT', mf), check, 800, 36000),
    ]


RULE += '  Added after the seeding rounds: LIS log passes without data records and NUL padded mnemonics; BIT requests without the padding of the source name (either reading accepted); RP66V1 input names with inner dots.'
RULE += '  Round 16: in one case in four the output is named by a bare file name inside the output directory.'
