"""C15 - frame slice and sample selectors select what they say.

Oracles: Python's own ``list(range(n))[start:stop:step]`` for Slice; a validity predicate (the law in the
property statement) for Sample; a small reference parser for the command line form.
"""
import re

from hypothesis import strategies as st

from vt.engine import EnumPart, HypPart

PID = 'C15'
LEVEL = 'exploration'
RULE = ('Slice: every (n, start, stop, step) with n in 0..N, start/stop in {None, -N-1..N+1}, step in {None, 1..N+1} '
        'enumerated completely (N=12 quick, N=24 thorough) + Hypothesis draws with |values| up to 2^40 whose result '
        'has <= 20000 indices; Sample: every (size, n) with size 1..N+4, n 0..3N + large draws; option strings from '
        'the grammar (N | start,stop,step with empty/None/padded/signed parts) and malformed strings.  Non-trivial: '
        'Slice with start and stop given, step > 1 and 0 < selected < n; Sample with 1 < size < n and n % size != 0; '
        'option string with >= 1 explicit integer part (valid) / any malformed string.  Distinct = distinct case tuple.')
ASSUMPTIONS = ['step >= 1 or absent (the domain the property states); last() and step() are not part of the statement',
               'malformed option strings exclude spellings Python int() accepts beyond [+-]?[0-9]+ (underscores, '
               'non-ASCII digits): counted as class parse-ambiguous-skipped, not asserted either way']
SHARDS = {'quick': 4, 'thorough': 16}
REQUIRED_CLASSES = {'slice-nontrivial': 1, 'sample-irregular': 1, 'parse-valid-slice': 1, 'parse-malformed': 1, 'history-slice': 1, 'history-sample': 1}


def _mods():
    from TotalDepth.common import Slice
    return Slice


# --------------------------------------------------------------------------------------------
def slice_devs(n, start, stop, step):
    """Returns list of (oracle, signature, detail)."""
    Slice = _mods()
    ret = []
    expected = list(range(n)[start:stop:step])  # range slicing == list slicing, but lazy
    try:
        s = Slice.Slice(start, stop, step)
        ind = s.indices(n)
        gen = list(s.gen_indices(n))
        cnt = s.count(n)
        first = s.first(n) if expected else None
    except Exception as err:  # noqa
        return [('slice-total', 'exc:%s' % type(err).__name__, repr(err))]
    if ind != expected:
        ret.append(('slice-indices==python', 'indices', 'indices(%d)=%r expected %r' % (n, ind[:20], expected[:20])))
    if gen != expected:
        ret.append(('slice-gen==python', 'gen_indices', 'gen_indices(%d)=%r expected %r' % (n, gen[:20], expected[:20])))
    if cnt != len(expected):
        ret.append(('slice-count', 'count', 'count(%d)=%r expected %d' % (n, cnt, len(expected))))
    if expected and first != expected[0]:
        ret.append(('slice-first', 'first', 'first(%d)=%r expected %d' % (n, first, expected[0])))
    return ret


def slice_nontrivial(n, start, stop, step):
    if start is None or stop is None or step is None or step <= 1:
        return False
    k = len(range(*slice(start, stop, step).indices(n)))
    return 0 < k < n


def check_slice(case, cc):
    n, start, stop, step = case['n'], case['start'], case['stop'], case['step']
    for o, s, d in slice_devs(n, start, stop, step):
        cc.dev(o, s, 'Slice(%r,%r,%r) n=%d: %s' % (start, stop, step, n, d))
    nt = slice_nontrivial(n, start, stop, step)
    cc.nt(nt)
    cc.cls('slice-nontrivial', nt)
    cc.cls('slice-large', n > 1000)
    cc.cls('slice-negative-bound', (start or 0) < 0 or (stop or 0) < 0)


def run_slice_enum(ctx, part, tier, shard, nshards):
    N = 12 if tier == 'quick' else 24
    bounds = [None] + list(range(-N - 1, N + 2))
    steps = [None] + list(range(1, N + 2))
    evals = nontriv = 0
    for n in range(N + 1):
        if n % nshards != shard:
            continue
        for start in bounds:
            for stop in bounds:
                for step in steps:
                    if slice_devs(n, start, stop, step):
                        ctx.eval_case(part, {'n': n, 'start': start, 'stop': stop, 'step': step})
                    else:
                        evals += 1
                        nontriv += slice_nontrivial(n, start, stop, step)
    ctx.bulk(part, evals, nontriv)
    ctx.classes['slice-nontrivial'] = ctx.classes.get('slice-nontrivial', 0) + nontriv
    if shard == 0:
        ctx.add_sample(part.name, {'n': N, 'start': -N + 1, 'stop': N - 1, 'step': 3,
                                   'selected': list(range(N))[-N + 1:N - 1:3]})
        ctx.note('slice_exhaustive_N', N)


# --------------------------------------------------------------------------------------------
def sample_devs(size, n):
    Slice = _mods()
    ret = []
    try:
        s = Slice.Sample(size)
        ind = s.indices(n)
        gen = list(s.gen_indices(n))
        cnt = s.count(n)
        first = s.first(n)
    except Exception as err:  # noqa
        return [('sample-total', 'exc:%s' % type(err).__name__, repr(err))]
    want = min(size, n)
    if len(ind) != want:
        ret.append(('sample-size', 'len', 'len(indices)=%d expected min(%d,%d)' % (len(ind), size, n)))
    if any(not isinstance(i, int) or i < 0 or i >= n for i in ind):
        ret.append(('sample-in-range', 'range', 'indices out of 0..%d: %r' % (n - 1, ind[:20])))
    if any(b <= a for a, b in zip(ind, ind[1:])):
        ret.append(('sample-increasing', 'order', 'not strictly increasing: %r' % ind[:20]))
    if ind and ind[0] != 0:
        ret.append(('sample-starts-at-0', 'first-index', 'indices[0]=%r' % ind[0]))
    gaps = [b - a for a, b in zip(ind, ind[1:])]
    if gaps and max(gaps) - min(gaps) > 1:
        ret.append(('sample-even-spread', 'gaps', 'gaps min %d max %d' % (min(gaps), max(gaps))))
    if gen != ind:
        ret.append(('sample-gen==indices', 'gen', 'gen_indices differs from indices'))
    if cnt != len(ind):
        ret.append(('sample-count', 'count', 'count=%r len(indices)=%d' % (cnt, len(ind))))
    if ind and first != ind[0]:
        ret.append(('sample-first', 'first', 'first=%r indices[0]=%r' % (first, ind[0])))
    return ret


def sample_nontrivial(size, n):
    return 1 < size < n and n % size != 0


def check_sample(case, cc):
    size, n = case['size'], case['n']
    for o, s, d in sample_devs(size, n):
        cc.dev(o, s, 'Sample(%d) n=%d: %s' % (size, n, d))
    nt = sample_nontrivial(size, n)
    cc.nt(nt)
    cc.cls('sample-irregular', nt)
    cc.cls('sample-size>=n', size >= n)


def run_sample_enum(ctx, part, tier, shard, nshards):
    N = 12 if tier == 'quick' else 24
    evals = nontriv = 0
    for size in range(1, N + 5):
        if size % nshards != shard:
            continue
        for n in range(0, 3 * N + 1):
            nt = sample_nontrivial(size, n)
            if sample_devs(size, n):
                ctx.eval_case(part, {'size': size, 'n': n})
            else:
                evals += 1
                nontriv += nt
    ctx.bulk(part, evals, nontriv)
    ctx.classes['sample-irregular'] = ctx.classes.get('sample-irregular', 0) + nontriv
    if shard == 0:
        Slice = _mods()
        ctx.add_sample(part.name, {'size': 7, 'n': 12, 'indices': Slice.Sample(7).indices(12)})


# --------------------------------------------------------------------------------------------
BIG = 2 ** 40


@st.composite
def large_slices(draw):
    n = draw(st.one_of(st.integers(0, 300), st.integers(0, BIG)))
    kind = draw(st.integers(0, 3))
    opt = lambda s: draw(st.one_of(st.none(), s))  # noqa
    if kind == 0:  # big step
        step = draw(st.integers(max(1, n // 20000), max(1, n)))
        start = opt(st.integers(-n - 5, n + 5))
        stop = opt(st.integers(-n - 5, n + 5))
    elif kind == 1:  # window
        a = draw(st.integers(-n - 5, n + 5))
        w = draw(st.integers(0, 5000))
        start, stop = a, a + w
        if a < 0 <= a + w:
            stop = a + w - n - 1 if draw(st.booleans()) else None
        step = opt(st.integers(1, 50))
    elif kind == 2:
        n = draw(st.integers(0, 20000))
        start = opt(st.integers(-2 * n - 2, 2 * n + 2))
        stop = opt(st.integers(-2 * n - 2, 2 * n + 2))
        step = opt(st.integers(1, n + 2))
    else:
        n = draw(st.integers(0, 60))
        start = opt(st.integers(-BIG, BIG))
        stop = opt(st.integers(-BIG, BIG))
        step = opt(st.integers(1, BIG))
    k = len(range(*slice(start, stop, step).indices(n)))
    if k > 20000:  # keep count()/indices() affordable: they materialise the list
        step = (step or 1) * (k // 20000 + 1)
    return {'n': n, 'start': start, 'stop': stop, 'step': step}


@st.composite
def large_samples(draw):
    kind = draw(st.integers(0, 2))
    if kind == 0:
        size = draw(st.integers(1, 3000))
        n = draw(st.integers(0, BIG))
    elif kind == 1:
        n = draw(st.integers(0, 5000))
        size = draw(st.integers(1, BIG))
    else:
        size = draw(st.integers(1, 3000))
        n = size * draw(st.integers(0, 5)) + draw(st.integers(0, size))
    return {'size': size, 'n': n}


# --------------------------------------------------------------------------------------------
# Command line form
RE_INT = re.compile(r'^[+-]?[0-9]+$')
WS = st.text(alphabet=' \t', max_size=3)


@st.composite
def valid_options(draw):
    if draw(st.integers(0, 3)) == 0:
        n = draw(st.one_of(st.integers(1, 50), st.integers(1, BIG)))
        txt = draw(WS) + ('+' if draw(st.integers(0, 9)) == 0 else '') + ('0' * draw(st.integers(0, 2))) + str(n) + draw(WS)
        return {'text': txt, 'expect': ('sample', n)}
    parts, vals = [], []
    for _ in range(3):
        k = draw(st.integers(0, 3))
        if k == 0:
            body, v = '', None
        elif k == 1:
            body, v = 'None', None
        else:
            v = draw(st.one_of(st.integers(-40, 40), st.integers(-BIG, BIG)))
            body = ('+' if v >= 0 and draw(st.integers(0, 6)) == 0 else '') + str(v)
        parts.append(draw(WS) + body + draw(WS))
        vals.append(v)
    return {'text': ','.join(parts), 'expect': ('slice', vals[0], vals[1], vals[2])}


JUNK = st.text(alphabet='0123456789,.-+ eEaNnoxX\t', max_size=12)


@st.composite
def malformed_options(draw):
    kind = draw(st.integers(0, 5))
    num = lambda: str(draw(st.integers(-50, 50)))  # noqa
    if kind == 0:  # wrong number of parts
        k = draw(st.sampled_from([2, 4, 5]))
        txt = ','.join(draw(st.sampled_from(['', 'None', num()])) for _ in range(k))
    elif kind == 1:  # non integer part in a slice
        bad = draw(st.sampled_from(['1.5', 'x', 'none', '1e3', '0x10', '--1', '1 2', 'NaN', 'inf', '3.0', 'Nonee']))
        parts = [draw(st.sampled_from(['', 'None', num()])) for _ in range(3)]
        parts[draw(st.integers(0, 2))] = bad
        txt = ','.join(parts)
    elif kind == 2:  # sample below one
        txt = str(draw(st.integers(-BIG, 0)))
    elif kind == 3:  # sample that is not an integer
        txt = draw(st.sampled_from(['', ' ', 'None', '1.0', '2.5', 'abc', '1e2', '0x4', '4 4', '4;5', '4:10:2', 'all']))
    else:
        txt = draw(JUNK)
    return {'text': txt}


def reference_parse(text):
    """Returns ('sample', n) / ('slice', a, b, c) / 'malformed' / 'ambiguous'."""
    def part(p):
        p = p.strip()
        if p in ('', 'None'):
            return None, True
        if RE_INT.match(p):
            return int(p), True
        return None, False
    if any(ord(c) > 127 or c == '_' for c in text):
        return 'ambiguous'
    if ',' in text:
        ps = text.split(',')
        vals = [part(p) for p in ps]
        if len(ps) != 3 or not all(ok for _v, ok in vals):
            return 'malformed'
        return ('slice',) + tuple(v for v, _ok in vals)
    v, ok = part(text)
    if not ok or v is None or v < 1:
        return 'malformed'
    return ('sample', v)


def check_option(case, cc):
    Slice = _mods()
    text = case['text']
    ref = reference_parse(text)
    if 'expect' in case and tuple(case['expect']) != ref:
        from vt.engine import HarnessError
        raise HarnessError('option generator and reference parser disagree on %r: %r %r' % (text, case['expect'], ref))
    if ref == 'ambiguous':
        cc.cls('parse-ambiguous-skipped')
        return
    try:
        got = Slice.create_slice_or_sample(text)
        err = None
    except ValueError as e:
        got, err = None, e
    except Exception as e:  # noqa
        cc.dev('parse-rejects-with-ValueError', 'exc:%s' % type(e).__name__, 'text %r raised %r' % (text, e))
        return
    if ref == 'malformed':
        cc.cls('parse-malformed')
        cc.nt(True)
        if err is None:
            cc.dev('parse-rejects-malformed', 'accepted-malformed', 'text %r accepted as %s' % (text, got))
        return
    if err is not None:
        cc.dev('parse-accepts-valid', 'rejected-valid', 'text %r (denotes %r) raised %r' % (text, ref, err))
        return
    if ref[0] == 'sample':
        cc.cls('parse-valid-sample')
        want = Slice.Sample(ref[1])
        cc.nt(True)
    else:
        cc.cls('parse-valid-slice')
        want = Slice.Slice(*ref[1:])
        cc.nt(any(v is not None for v in ref[1:]))
    if type(got) is not type(want) or not (got == want):
        cc.dev('parse-denotes', 'wrong-selector', 'text %r gave %s expected %s' % (text, got, want))
        return
    # behavioural equality as well as __eq__
    if ref[0] == 'slice' and ref[3] == 0:
        cc.cls('parse-step-zero-not-applied')  # denotes slice(a, b, 0), which Python itself refuses to apply
        return
    for n in (0, 1, 7, 50):
        if got.indices(n) != want.indices(n):
            cc.dev('parse-denotes', 'wrong-selector-behaviour', 'text %r n=%d' % (text, n))


# --------------------------------------------------------------------------------------------
# One selector object applied to sequences of different lengths (as the converters do for every frame array of a file)
@st.composite
def selector_histories(draw):
    kind = draw(st.sampled_from(['slice', 'slice', 'sample']))
    lengths = draw(st.lists(st.one_of(st.integers(0, 30), st.integers(0, 2000)), min_size=2, max_size=6))
    if kind == 'sample':
        return {'kind': kind, 'size': draw(st.integers(1, 40)), 'lengths': lengths}
    opt = lambda s_: draw(st.one_of(st.none(), s_))  # noqa
    return {'kind': kind, 'start': opt(st.integers(-40, 40)), 'stop': opt(st.integers(-40, 40)), 'step': opt(st.integers(1, 7)), 'lengths': lengths}


def check_history(case, cc):
    Slice = _mods()
    if case['kind'] == 'sample':
        obj = Slice.Sample(case['size'])
    else:
        obj = Slice.Slice(case['start'], case['stop'], case['step'])
    cc.cls('history-' + case['kind'])
    cc.nt(len(set(case['lengths'])) >= 2)
    for k, n in enumerate(case['lengths']):
        if case['kind'] == 'sample':
            fresh = Slice.Sample(case['size'])
            devs = [] if (obj.indices(n), obj.count(n), list(obj.gen_indices(n))) == (fresh.indices(n), fresh.count(n), list(fresh.gen_indices(n))) else [1]
            exp = fresh.indices(n)
        else:
            exp = list(range(n)[case['start']:case['stop']:case['step']])
            got = (obj.indices(n), obj.count(n), list(obj.gen_indices(n)), obj.first(n) if exp else None)
            devs = [] if got == (exp, len(exp), exp, exp[0] if exp else None) else [1]
        if devs:
            cc.dev('selector-independent-of-earlier-lengths', 'result-depends-on-earlier-length',
                   '%r applied to lengths %r: at length %d (call %d) indices %r expected %r' % (
                       {k_: v for k_, v in case.items() if k_ != 'lengths'}, case['lengths'], n, k + 1, obj.indices(n)[:12], exp[:12]))
            return


def parts(tier):
    return [
        HypPart('selector-history', selector_histories(), check_history, 1500, 30000),
        EnumPart('slice-exhaustive', run_slice_enum, check_slice),
        EnumPart('sample-exhaustive', run_sample_enum, check_sample),
        HypPart('slice-large', large_slices(), check_slice, 1500, 40000),
        HypPart('sample-large', large_samples(), check_sample, 600, 16000),
        HypPart('parse-valid', valid_options(), check_option, 1500, 30000),
        HypPart('parse-malformed', malformed_options(), check_option, 1500, 30000),
    ]


def exhaustive_note(tier, total):
    N = 12 if tier == 'quick' else 24
    return {'exhaustive': False,
            'exhaustive_subdomains': ['Slice: all n<=%d, start/stop in None,-%d..%d, step in None,1..%d' % (N, N + 1, N + 1, N + 1),
                                      'Sample: all size 1..%d x n 0..%d' % (N + 4, 3 * N)]}
