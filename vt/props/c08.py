"""C08 - LIS tables and format specifications survive encode then decode.

Routes: (a) TotalDepth encodes (LrTableWrite / EntryBlockSet.lisBytes) -> TotalDepth decodes; (b) the independent
encoder vt.gen.lis encodes -> TotalDepth decodes; (c) byte differential of (a)'s table bytes against (b)'s.  The
expected content is the model, with real numbers quantised by the reference code 68 encoder.
"""
import io
import struct

from hypothesis import strategies as st

from vt import engine
from vt.engine import HypPart
from vt.gen import lis as G
from vt.ref import repcodes as R

PID = 'C08'
LEVEL = 'exploration'
NEEDS_LIS_EXT = True
TECHNIQUE = 'property-based testing (Hypothesis): encode/decode round trip + byte differential against an independent LIS-79 table / DFSR encoder'
LEVEL_TEXT = ('generated tables (typed cells with units, duplicate row names) and format specifications (entry block subsets, '
              'channel blocks) written by TotalDepth and by an independent encoder, wrapped in physical records of generated '
              'length, decoded by LrTableRead / LrDFSRRead and compared cell by cell with the model')
RULE = ('table: type 32/34/39, 4-byte name, 1..6 distinct column mnemonics, 0..8 rows (row names collide with p~0.2), cell = '
        'bytes 0..255 long | int in the 8/16/32 bit ranges incl. boundaries | float, optional 4-byte units; DFSR: any subset '
        'of the 16 entry blocks with legal size/code, 1..8 channel blocks (any supported code incl. dipmeter); physical '
        'record length 16..4096.  Non-trivial: table with >= 2 rows and >= 3 columns containing a duplicate row name or a '
        'float cell; DFSR whose entry block subset has odd length before the terminator.  Distinct = distinct model.')
ASSUMPTIONS = ['column mnemonics distinct within a table; byte cells <= 255 bytes (one byte size field)',
               'float cells compare with the value of the reference code 68 encoding (truncation), finite and |v| in [1e-30, 1e30] or 0',
               'API codes of channel blocks are not compared (not listed by the property)',
               'entry block type 2 (DSB type) only 0: the reader documents that it cannot read other types',
               'a zero-length text cell may be read back as None (no value) or b\'\'']
SHARDS = {'quick': 4, 'thorough': 16}
REQUIRED_CLASSES = {'dfsr-channel-with>=128-samples': 1, 'table-duplicate-row': 1, 'table-float-cell': 1, 'table-int16-cell': 1, 'table-int32-cell': 1,
                    'table-empty': 1, 'table-spans-physical-records': 1, 'dfsr-odd-entry-set': 1, 'dfsr-dipmeter': 1, 'dfsr-zero-size-block-over-default': 1,
                    'cell-255-bytes': 1}


def phys_wrap(lr, pr_len):
    data, _m = G.encode_physical([lr], {'pr_len': pr_len, 'rec_num': False, 'file_num': None, 'checksum': False, 'tif': 'none'})
    return data


INT_BOUNDS = [0, 1, 255, 256, -1, -128, -32768, 32767, 32768, -32769, 2 ** 31 - 1, -2 ** 31, 65535, 65536]


@st.composite
def cells(draw, name_pool=None, first=False):
    kind = draw(st.integers(0, 9))
    if first:
        if name_pool and draw(st.integers(0, 4)) == 0:
            v = draw(st.sampled_from(name_pool))
        elif kind < 8:
            v = draw(G.mnems())
        else:
            v = draw(st.integers(0, 300))
    elif kind < 4:
        v = draw(st.one_of(G.mnems(), st.binary(max_size=12), st.binary(min_size=255, max_size=255), st.binary(max_size=255)))
    elif kind < 7:
        v = draw(st.one_of(st.sampled_from(INT_BOUNDS), st.integers(-2 ** 31, 2 ** 31 - 1), st.integers(-300, 300)))
    else:
        v = draw(G.NICE_FLOATS)
    u = draw(st.one_of(st.none(), G.UNITS4, G.mnems()))
    return {'v': v, 'u': u}


@st.composite
def table_models(draw):
    ncol = draw(st.integers(1, 6))
    cols = draw(st.lists(G.mnems(), min_size=ncol, max_size=ncol, unique=True))
    if draw(st.booleans()):
        cols[0] = b'MNEM'
        cols = [cols[0]] + [c for c in cols[1:] if c != b'MNEM']
    if len(cols) >= 3 and draw(st.integers(0, 4)) == 0:
        # two column mnemonics that differ only in how they are padded (blank / NUL): different mnemonics in the file
        i = draw(st.integers(1, len(cols) - 1))
        twin = cols[i].rstrip(b' ').ljust(4, b'\x00')
        if twin != cols[i] and twin not in cols:
            j = draw(st.integers(1, len(cols) - 1))
            if j != i:
                cols[j] = twin
    nrow = draw(st.integers(0, 8))
    rows, names = [], []
    for _ in range(nrow):
        row = [draw(cells(names, first=(c == 0))) for c in range(len(cols))]
        for c, col in enumerate(cols):
            if col == b'MNEM' and not isinstance(row[c]['v'], bytes):   # a MNEM column holds mnemonics
                row[c] = dict(row[c], v=draw(G.mnems()))
        names.append(row[0]['v'])
        rows.append(row)
    if len(rows) >= 2 and draw(st.integers(0, 3)) == 0:
        # two row names that differ only in how they are padded (blank / NUL, same length): different names in the file, two rows
        i = draw(st.integers(0, len(rows) - 1))
        j = draw(st.integers(0, len(rows) - 1))
        nm = rows[i][0]['v']
        if i != j and isinstance(nm, bytes) and len(nm) >= 2:
            stem = nm.rstrip(b' \x00') or b'A'
            pads = [stem.ljust(len(nm), b' ')[:len(nm)], stem.ljust(len(nm), b'\x00')[:len(nm)]]
            if pads[0] != pads[1] and not any(r[0]['v'] in pads for k, r in enumerate(rows) if k not in (i, j)):
                rows[i][0] = dict(rows[i][0], v=pads[0])
                rows[j][0] = dict(rows[j][0], v=pads[1])
    return {'lr_type': draw(st.sampled_from(G.LR_TABLE_TYPES)), 'name': draw(G.mnems()), 'columns': cols, 'rows': rows,
            'pr_len': draw(st.one_of(st.integers(16, 64), st.integers(16, 4096)))}


def expected_rows(model):
    """Rows after dropping later duplicates of a row name (first kept)."""
    seen, out = [], []
    for row in model['rows']:
        k = row[0]['v']
        if any(type(k) is type(s) and k == s for s in seen) or any(k == s for s in seen):
            continue
        seen.append(k)
        out.append(row)
    return out


def expected_value(v):
    if isinstance(v, float):
        return float(R.lis68(G.ref_to68(v)))
    return v


def compare_table(cc, route, tbl, model):
    exp = expected_rows(model)
    expected_value = globals()['expected_value'] if route != 'written-object' else (lambda v: v)
    if tbl.value != model['name']:
        cc.dev('table-name', route + ':name', 'name %r expected %r' % (tbl.value, model['name']))
    got_names = [r.value for r in tbl.genRows()]
    exp_names = [expected_value(r[0]['v']) for r in exp]
    if got_names != exp_names:
        sig = ':row-count' if len(got_names) != len(exp_names) else ':row-order'
        cc.dev('table-rows', route + sig, 'row names %r expected %r (written %r)' % (got_names[:8], exp_names[:8], [r[0]['v'] for r in model['rows']][:8]))
        return
    cols = list(tbl.colLabels())
    exp_cols = model['columns'] if model['rows'] else []
    if cols != exp_cols:
        cc.dev('table-columns', route + ':columns', 'columns %r expected %r' % (cols, exp_cols))
    if len(tbl) != len(exp):
        cc.dev('table-rows', route + ':len', 'len(table)=%d expected %d' % (len(tbl), len(exp)))
    for ri, row in enumerate(exp):
        trow = tbl[ri]
        if len(trow) != len(row):
            cc.dev('table-cells', route + ':cell-count', 'row %d has %d cells expected %d' % (ri, len(trow), len(row)))
            continue
        for ci, cell in enumerate(row):
            cb = trow[ci]
            ev = expected_value(cell['v'])
            gv = cb.value
            if ev == b'' and gv is None and route != 'written-object':
                cc.cls('empty-text-cell-read-as-None')   # a zero size component block carries no value
            elif type(gv) is not type(ev) or gv != ev:
                kind = type(cell['v']).__name__
                cc.dev('table-cells', '%s:cell-value-%s' % (route, kind), 'row %d col %d: %r expected %r (written %r)' % (ri, ci, gv, ev, cell['v']))
            eu = cell['u'] or b'    '
            if cb.units != eu:
                cc.dev('table-cells', route + ':cell-units', 'row %d col %d: units %r expected %r' % (ri, ci, cb.units, eu))
            if cb.mnem != model['columns'][ci]:
                cc.dev('table-cells', route + ':cell-mnem', 'row %d col %d: mnem %r expected %r' % (ri, ci, cb.mnem, model['columns'][ci]))
            # access by label as well as by position
            if isinstance(row[0]['v'], bytes):   # integer keys address rows by position, not by name
                try:
                    if tbl[row[0]['v']][model['columns'][ci]] is not cb:
                        cc.dev('table-cells', route + ':lookup-by-label', 'row %r col %r resolves to another cell' % (row[0]['v'], model['columns'][ci]))
                except KeyError:
                    cc.dev('table-cells', route + ':lookup-by-label', 'row %r col %r not found' % (row[0]['v'], model['columns'][ci]))


def check_table(case, cc):
    from TotalDepth.LIS.core import File, LogiRec
    model = case
    rows = model['rows']
    dup = len(expected_rows(model)) != len(rows)
    flat = [c['v'] for r in rows for c in r]
    cc.cls('table-duplicate-row', dup)
    _nms = [r[0]['v'] for r in rows if isinstance(r[0]['v'], bytes)]
    cc.cls('table-row-names-differing-in-padding-only', any(a != b and len(a) == len(b) and a.rstrip(b' \x00') == b.rstrip(b' \x00')
                                                          for k, a in enumerate(_nms) for b in _nms[k + 1:]))
    cc.cls('table-float-cell', any(isinstance(v, float) for v in flat))
    cc.cls('table-int16-cell', any(isinstance(v, int) and not (0 <= v <= 255) and -32768 <= v <= 32767 for v in flat))
    cc.cls('table-int32-cell', any(isinstance(v, int) and not (-32768 <= v <= 32767) for v in flat))
    cc.cls('cell-255-bytes', any(isinstance(v, bytes) and len(v) == 255 for v in flat))
    cc.cls('cell-empty-bytes', any(isinstance(v, bytes) and len(v) == 0 for v in flat))
    cc.cls('table-empty', not rows)
    cc.cls('table:columns-differing-in-padding-only', len({c.replace(b'\x00', b' ') for c in model['columns']}) < len(model['columns']))
    cc.nt(len(rows) >= 2 and len(model['columns']) >= 3 and (dup or any(isinstance(v, float) for v in flat)))
    cc.sample({'name': model['name'], 'columns': model['columns'], 'rows': [[c['v'] for c in r] for r in rows][:4], 'pr_len': model['pr_len']})
    ref_lr = G.encode_table_lr(model)
    cc.cls('table-spans-physical-records', len(ref_lr) > model['pr_len'] - 4)
    # route (a): TotalDepth writes
    theTable = [[(c['v'], c['u']) if c['u'] is not None else c['v'] for c in r] for r in rows]
    tw = LogiRec.LrTableWrite(model['lr_type'], model['name'], model['columns'], theTable)
    compare_table(cc, 'written-object', tw, model)
    td_lr = G.lr_header(model['lr_type']) + b''.join(tw.genLisBytes())
    # (c) byte differential: the reference holds all rows as written; TotalDepth drops duplicates before writing
    ref_nodup = G.encode_table_lr(dict(model, rows=expected_rows(model)))
    if td_lr != ref_nodup:
        i = next((i for i in range(min(len(td_lr), len(ref_nodup))) if td_lr[i] != ref_nodup[i]), min(len(td_lr), len(ref_nodup)))
        cc.dev('table-bytes==LIS79', 'table-bytes-differ', 'first difference at byte %d: written %s reference %s' % (
            i, td_lr[max(0, i - 6):i + 10].hex(), ref_nodup[max(0, i - 6):i + 10].hex()))
    for route, lr in (('td-bytes', td_lr), ('ref-bytes', ref_lr)):
        fr = File.FileRead(io.BytesIO(phys_wrap(lr, model['pr_len'])), 'generated', False)
        tr = LogiRec.LrTableRead(fr)
        if tr.type != model['lr_type']:
            cc.dev('table-name', route + ':lr-type', 'type %r expected %r' % (tr.type, model['lr_type']))
        compare_table(cc, route, tr, model)


# -------------------------------------------------------------------------------------------------
@st.composite
def dfsr_models(draw):
    blocks = draw(G.entry_block_models(zero_size=True))
    n = draw(st.integers(1, 8))
    # (one channel in six with up to 255 samples per frame: the sample count is one unsigned byte of the channel block)
    dsbs = [draw(G.dsb_models(max_samples=255, max_bursts=1) if draw(st.integers(0, 5)) == 0 else G.dsb_models()) for _ in range(n)]
    return {'blocks': blocks, 'dsbs': dsbs, 'pr_len': draw(st.one_of(st.integers(16, 64), st.integers(16, 4096)))}


EB_DEFAULTS = {1: 0, 2: 0, 3: 0, 4: 1, 5: 1, 6: None, 7: b'.1IN', 8: None, 9: None, 11: None, 12: -999.25, 13: 0, 14: b'.1IN', 15: 0, 16: 0}
ATTRS = {'dataType': 1, 'dsbType': 2, 'upDown': 4, 'optLogScale': 5, 'frameSpacing': 8, 'frameSpacingUnits': 9, 'absentValue': 12,
         'recordingMode': 13, 'depthUnits': 14, 'depthRepCode': 15}


def compare_dfsr(cc, route, dfsr, model):
    want = dict(EB_DEFAULTS)
    for b in model['blocks']:
        want[b['type']] = None if b['size'] == 0 else expected_value(b['value'])
    for t, ev in want.items():
        gv = dfsr.ebs[t].value
        if gv != ev or (ev is not None and type(gv) is not type(ev)):
            cc.dev('dfsr-entry-blocks', '%s:entry-value' % route, 'entry block %d: %r expected %r' % (t, gv, ev))
    for name, t in ATTRS.items():
        if getattr(dfsr.ebs, name) != want[t]:
            cc.dev('dfsr-entry-blocks', '%s:derived-attribute' % route, '%s=%r expected %r' % (name, getattr(dfsr.ebs, name), want[t]))
    if dfsr.ebs.logUp != (want[4] == 1) or dfsr.ebs.logDown != (want[4] == 255) or dfsr.ebs.xInc != (want[4] != 1):
        cc.dev('dfsr-entry-blocks', '%s:derived-direction' % route, 'upDown %r: logUp %r logDown %r xInc %r' % (want[4], dfsr.ebs.logUp, dfsr.ebs.logDown, dfsr.ebs.xInc))
    if dfsr.ebs.lisSize() % 2 or len(dfsr.ebs.lisBytes()) % 2:
        cc.dev('dfsr-even-length', '%s:odd-entry-set' % route, 'entry block set of %d bytes' % len(dfsr.ebs.lisBytes()))
    if len(dfsr.dsbBlocks) != len(model['dsbs']):
        cc.dev('dfsr-channels', '%s:channel-count' % route, '%d channels expected %d' % (len(dfsr.dsbBlocks), len(model['dsbs'])))
        return
    for k, (d, m) in enumerate(zip(dfsr.dsbBlocks, model['dsbs'])):
        got = (d.mnem, d.units, d.size, d.repCode, d.subChannels, d.bursts(0), d.servId, d.servOrd, d.fileNumber)
        exp = (m['mnem'], m['units'], m['size'], m['rc'], m['sub_channels'], m['bursts'], m['serv_id'], m['serv_ord'], m['file_no'])
        if got != exp:
            cc.dev('dfsr-channels', '%s:channel-definition' % route, 'channel %d: %r expected %r' % (k, got, exp))
        if m['rc'] not in (130, 234):
            if d.samples(0) != m['samples'] or d.values() != m['samples'] * m['bursts']:
                cc.dev('dfsr-channels', '%s:channel-samples' % route, 'channel %d: samples %r values %r expected %d, %d' % (
                    k, d.samples(0), d.values(), m['samples'], m['samples'] * m['bursts']))
    if dfsr.frameSize() != sum(m['size'] for m in model['dsbs']):
        cc.dev('dfsr-channels', '%s:frame-size' % route, 'frameSize %r' % dfsr.frameSize())


def check_dfsr(case, cc):
    from TotalDepth.LIS.core import File, LogiRec
    model = case
    ref_eb = G.encode_entry_blocks(model['blocks'])
    odd = (len(ref_eb) - (4 if ref_eb[-4:-1] == bytes([0, 1, 66]) else 3)) % 2 == 1
    odd = ref_eb[-4:-1] == bytes([0, 1, 66]) and len(ref_eb) >= 4 and ref_eb[-4] == 0 and ref_eb[-3] == 1
    cc.cls('dfsr-odd-entry-set', odd)
    cc.cls('dfsr-channel-with>=128-samples', any(d['samples'] >= 128 for d in model['dsbs']))
    cc.cls('dfsr-dipmeter', any(d['rc'] in (130, 234) for d in model['dsbs']))
    cc.cls('dfsr-all-blocks', len(model['blocks']) >= 14)
    cc.cls('dfsr-no-blocks', not model['blocks'])
    cc.cls('dfsr-zero-size-block-over-default', any(b['size'] == 0 and EB_DEFAULTS.get(b['type']) is not None for b in model['blocks']))
    cc.nt(odd)
    cc.sample({'blocks': [(b['type'], b['value']) for b in model['blocks']], 'channels': [(d['mnem'], d['rc'], d['samples'], d['bursts']) for d in model['dsbs']]})
    # route (a): TotalDepth composes the entry block set
    ebs = LogiRec.EntryBlockSet()
    for b in model['blocks']:
        ebs.setEntryBlock(LogiRec.EntryBlock(b['type'], b['size'], b['rc'], b['value']))
    td_eb = bytes(ebs.lisBytes())
    parsed, used = G.parse_entry_block_bytes(td_eb)
    if used != len(td_eb) or len(td_eb) % 2 or not parsed or parsed[-1][0] != 0:
        cc.dev('dfsr-even-length', 'td-bytes:entry-set-structure', 'entry set bytes %d, parsed %d, last block %r' % (len(td_eb), used, parsed[-1:] and parsed[-1][:3]))
    types = [p[0] for p in parsed]
    if len(set(types)) != len(types):
        cc.dev('dfsr-even-length', 'td-bytes:duplicate-entry-block', 'types %r' % types)
    dsb_bytes = b''.join(G.encode_dsb(d) for d in model['dsbs'])
    for route, lr in (('td-bytes', G.lr_header(G.LR_DFSR) + td_eb + dsb_bytes), ('ref-bytes', G.encode_dfsr_lr(model['blocks'], model['dsbs']))):
        fr = File.FileRead(io.BytesIO(phys_wrap(lr, model['pr_len'])), 'generated', False)
        dfsr = LogiRec.LrDFSRRead(fr)
        compare_dfsr(cc, route, dfsr, model)


def parts(tier):
    return [HypPart('table', table_models(), check_table, 1600, 40000),
            HypPart('dfsr', dfsr_models(), check_dfsr, 1600, 40000)]


RULE += '  Added after the seeding rounds: zero-size entry blocks; column mnemonics that differ only in blank / NUL padding.'
RULE += '  Round 17: two row names differing only in blank / NUL padding.'
