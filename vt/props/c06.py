"""C06 - LIS log pass frame sets are exact; any sub-selection is a sub-matrix.

Files come from the independent LIS-79 encoder (vt.gen.lis): delimiter records, tables, DFSR, data records with
explicit or implied X, any physical layout.  A rule based state machine issues setFrameSet(file, slice, channels)
loads in any order on the indexed log passes; the oracle is the reference frame matrix decoded with the exact
reference decoders, the modelled index listing and a byte-touch monitor.
"""
import io

import numpy as np
from hypothesis import strategies as st
from hypothesis.stateful import initialize, rule

from vt import engine
from vt.engine import HistoryMachine, MachinePart, HypPart
from vt.gen import lis as G
from vt.ref import repcodes as R

PID = 'C06'
LEVEL = 'exploration'
NEEDS_LIS_EXT = True
TECHNIQUE = 'model-based testing: Hypothesis rule based state machine over load histories, reference frame matrix from an independent LIS-79 encoder, byte-touch monitor'
LEVEL_TEXT = ('generated LIS files (1..3 log passes; 1..6 channels of every supported representation code, samples, bursts, '
              'dipmeter; explicit or implied X; up/down/time; regular, short-last and irregular frames-per-record; any physical '
              'layout incl. TIF) indexed by FileIndex; histories of up to 10 partial loads compared with the sub-matrix of the '
              'reference matrix, the implied X of every loaded frame, and the byte ranges read')
RULE = ('file from vt.gen.lis.lis_files (see LEVEL_TEXT); history: up to 10 setFrameSet(file, slice(start,stop,step) | None, '
        'channel subset | None) on any of the log passes.  Non-trivial history: implied-X log pass, a load with step > 1 whose '
        'frames lie in >= 2 data records, and a channel subset with a gap.  Distinct = distinct (file, history).')
ASSUMPTIONS = ['slices are the resolved form every caller passes: 0 <= start < stop <= total frames, step >= 1 (or None for everything); at least one frame selected',
               'code 50 words keep their exponent inside the 11 bit range the decoder implements (known finding C07-lis50-exponent-wrap owns the rest)',
               'X values and spacing are exactly representable in codes 68/73; frame spacing units equal the depth units, or are one of 4 pairs with an integral factor (INCH/.1IN, IN/.1IN, FEET/INCH, FEET/.1IN; X compared to 1e-9 relative)',
               'the empty channel subset is exercised for explicit-X log passes (the X channel alone is loaded); with implied X an empty subset reads nothing and is not asserted']
SHARDS = {'quick': 4, 'thorough': 16}
REQUIRED_CLASSES = {'implied-x': 1, 'implied-x-negative-frame-spacing-entry': 1, 'file-read-before-indexing': 1, 'channel-subset-with-index>=8': 1, 'table-between-the-data-records-of-a-pass': 1, 'implied-x-spacing-in-other-units-than-x': 1, 'implied-x-in-units-unknown-to-the-unit-table': 1, 'explicit-x': 1, 'load-step>1': 1, 'load-spans>=2-records': 1, 'channel-subset-with-gap': 1,
                    'short-last-record': 1, 'multi-sample-channel': 1, 'dipmeter-channel': 1, 'tif': 1, '>=2-log-passes': 1,
                    'load-enters-record-after-first-frame': 1, 'up-log': 1, 'empty-channel-subset': 1,
                    'type-0-and-type-1-log-pass-interleaved': 1, 'log-pass-without-data-records': 1}
for _rc in (49, 50, 56, 66, 68, 70, 73, 77, 79):
    REQUIRED_CLASSES['rc-%d' % _rc] = 1


class Monitor(io.BytesIO):
    def __init__(self, data):
        super().__init__(data)
        self.log = None

    def read(self, n=-1):
        pos = self.tell()
        out = super().read(n)
        if self.log is not None and n != 0:
            self.log.append((pos, pos + (n if n is not None and n >= 0 else len(out))))
        return out


def decode_frame(lp, fr):
    """Flat list of float values of one frame in file order, and per channel column ranges."""
    out = []
    for d, ch in zip(lp['dsbs'], fr):
        if isinstance(ch, (bytes, bytearray)):
            out.extend(float(b) for b in ch)
        else:
            rc, words = ch
            fn = R.LIS[rc][0]
            out.extend(float(fn(w)) for w in words)
    return out


def channel_columns(lp):
    cols, c = [], 0
    for d in lp['dsbs']:
        n = d['size'] if d['rc'] in (130, 234) else d['samples'] * d['bursts']
        cols.append((c, c + n))
        c += n
    return cols


class PassModel:
    def __init__(self, p, file_model):
        lp = p['lp']
        self.lp = lp
        self.n = len(lp['frames'])
        self.matrix = np.array([decode_frame(lp, fr) for fr in lp['frames']], dtype=np.float64) if lp['frames'] else np.zeros((0, 0))
        self.cols = channel_columns(lp)
        sign = -1 if lp['xs']['up_down'] == 1 else 1
        self.x = [lp['xs']['x0'] + sign * lp.get('x_step', lp['xs']['spacing']) * f for f in range(self.n)]
        self.data_lrs = p['data_lrs']
        self.spans = [file_model['lr_span'][k] for k, _f, _n in p['data_lrs']]
        self.dfsr_tell = file_model['lr_start'][p['dfsr_lr']]

    def record_of(self, f):
        for j, (_k, f0, n) in enumerate(self.data_lrs):
            if f0 <= f < f0 + n:
                return j, f - f0
        raise IndexError(f)


class FileState:
    def __init__(self, init, cc):
        from TotalDepth.LIS.core import File, FileIndexer
        data, model = G.build_lis_file(init)
        self.model = model
        self.passes = [PassModel(p, model) for p in model['passes']]
        cfg = init['cfg']
        cc.cls('tif', cfg['tif'] != 'none')
        cc.cls('>=2-log-passes', len(self.passes) >= 2)
        cc.cls('type-0-and-type-1-log-pass-interleaved', any(k == 'pass_pair' for k, _p in init['items']))
        for pm in self.passes:
            lp = pm.lp
            cc.cls('implied-x', lp['indirect'])
            cc.cls('implied-x-negative-frame-spacing-entry', lp['indirect'] and any(b['type'] == 8 and b['value'] < 0 for b in lp['blocks']))
            cc.cls('table-between-the-data-records-of-a-pass', bool(lp.get('mid_tables')))
            cc.cls('implied-x-spacing-in-other-units-than-x', lp['indirect'] and lp.get('spacing_units', lp['units']) != lp['units'])
            cc.cls('implied-x-in-units-unknown-to-the-unit-table', lp['indirect'] and bytes(lp['units']) in (b'SEC ', b'MTR ', b'HRS ', b'DEG '))
            cc.cls('explicit-x', not lp['indirect'])
            cc.cls('up-log', lp['xs']['up_down'] == 1)
            cc.cls('short-last-record', len(lp['per_record']) >= 2 and lp['per_record'][-1] < lp['per_record'][0])
            cc.cls('irregular-records', len(set(lp['per_record'][:-1])) > 1)
            cc.cls('multi-sample-channel', any(d['samples'] > 1 for d in lp['dsbs']))
            cc.cls('multi-burst-channel', any(d['bursts'] > 1 and d['rc'] not in (130, 234) for d in lp['dsbs']))
            cc.cls('dipmeter-channel', any(d['rc'] in (130, 234) for d in lp['dsbs']))
            cc.cls('data-type-1', lp['data_type'] == 1)
            for d in lp['dsbs']:
                cc.cls('rc-%d' % d['rc'])
        cc.sample({'cfg': cfg, 'items': [k for k, _p in init['items']],
                   'passes': [{'indirect': p.lp['indirect'], 'channels': [(d['rc'], d['samples'], d['bursts']) for d in p.lp['dsbs']],
                               'frames': p.n, 'per_record': p.lp['per_record'][:8]} for p in self.passes]})
        self.mon = Monitor(data)
        self.mon.seek(engine.handle(data).tell())   # the handle is where its previous user left it
        self.fr = File.FileRead(self.mon, 'generated', False)
        peek = len(data) % 3
        if peek:
            # the File has been used before it is indexed: a caller looked at (part of) the first logical record
            try:
                self.fr.readLrBytes(2 if peek == 1 else -1)
                cc.cls('file-read-before-indexing')
            except Exception as err:  # noqa
                cc.unexpected(err)
        self.index = FileIndexer.FileIndex(self.fr)
        self.lps = [ilp.logPass for ilp in self.index.genLogPasses()]
        self.check_listing(cc)
        self.seen = {'step_multi': False, 'gap': False}

    def check_listing(self, cc):
        from TotalDepth.LIS.core import FileIndexer
        got = []
        for obj in self.index.genAll():
            name = obj.name if isinstance(obj, FileIndexer.IndexTable) else None
            got.append((obj.tell, obj.lrType, name))
        exp = [(self.model['lr_start'][k], t, name) for k, _kind, t, name in self.model['listing']]
        if got != exp:
            sig = 'listing-length' if len(got) != len(exp) else 'listing-entry'
            cc.dev('index-listing', sig, 'index lists %r, file holds %r' % (got[:10], exp[:10]))
        if len(self.lps) != len(self.passes):
            cc.dev('index-log-passes', 'log-pass-count', '%d log passes found, %d written' % (len(self.lps), len(self.passes)))
            return
        for k, (lp, pm) in enumerate(zip(self.lps, self.passes)):
            if lp.totalFrames != pm.n:
                cc.dev('index-log-passes', 'total-frames', 'log pass %d: totalFrames %r, written %d (per record %r)' % (k, lp.totalFrames, pm.n, pm.lp['per_record'][:10]))
            if pm.n == 0:
                cc.cls('log-pass-without-data-records')
                continue
            x_first = pm.x[0] if pm.lp['indirect'] else pm.matrix[0, 0]
            if lp.xAxisFirstVal != x_first:
                cc.dev('index-log-passes', 'first-x', 'log pass %d: first X %r, written %r' % (k, lp.xAxisFirstVal, x_first))
            if len(pm.lp['per_record']) >= 2:
                x_last = pm.x[-1]
                got_last = lp.xAxisLastVal
                if got_last is None or abs(got_last - x_last) > 1e-9 * (abs(x_last) + abs(pm.x[0]) + 1):
                    cc.dev('index-log-passes', 'last-x', 'log pass %d: last X %r, written %r (per record %r)' % (k, got_last, x_last, pm.lp['per_record'][:10]))

    def close(self):
        pass


def start(init, cc):
    return FileState(init, cc)


#: read-only looking accessors of a log pass and of its frame set (what listings, summaries and the plot code call between loads)
LOGPASS_ACCESSORS = ('longStr', 'x_axis_str', 'frameSetLongStr', 'jsonObject', 'gen_mnemonic_units', 'genFrameSetHeadings',
                     'genFrameSetScNameUnit', 'genFrameSetChIndexScNameUnit', 'outpMnemS')
LOGPASS_PROPERTIES = ('xAxisFirstVal', 'xAxisLastVal', 'xAxisSpacing', 'xAxisUnits', 'totalFrames', 'xAxisFirstEngVal', 'xAxisLastEngVal',
                      'xAxisFirstValOptical', 'xAxisLastValOptical', 'xAxisSpacingOptical', 'xAxisUnitsOptical', 'nullValue', 'numBytes')
FRAMESET_ACCESSORS = ('longStr', 'genAll', 'genChScValues')
FRAMESET_PROPERTIES = ('numFrames', 'numChannels', 'numValues', 'nbytes', 'isIndirectX', 'xAxisDecl', 'frames', 'intermediateFrameSpacing')


def poke(lp, cc):
    """Calls the accessors; results and exceptions are not judged (no statement covers them) - what is judged is that the
    loads that follow still give the recorded values."""
    for obj, meths, props in ((lp, LOGPASS_ACCESSORS, LOGPASS_PROPERTIES), (lp.frameSet, FRAMESET_ACCESSORS, FRAMESET_PROPERTIES)):
        if obj is None:
            continue
        for name in props:
            try:
                getattr(obj, name)
            except Exception:  # noqa
                pass
        for name in meths:
            try:
                r = getattr(obj, name)()
                if hasattr(r, '__next__'):
                    for _ in zip(range(64), r):
                        pass
            except Exception:  # noqa
                pass
    cc.cls('accessors-read-between-loads')


def step(s, op, cc):
    if not s.passes or len(s.lps) != len(s.passes):
        return
    k = op['pass'] % len(s.passes)
    pm, lp = s.passes[k], s.lps[k]
    if op['op'] == 'poke':
        poke(lp, cc)
        return
    n = pm.n
    if lp.totalFrames != n or n == 0:
        return
    if op.get('all'):
        sl, rows = None, list(range(n))
    else:
        a = op['start'] % n
        span = n - a
        stop = a + 1 + (op['length'] % span)
        st_ = 1 + (op['step'] % max(1, min(span, 9)))
        sl = slice(a, stop, st_) if not op.get('none_step') or st_ != 1 else slice(a, stop, None)
        rows = list(range(a, stop, st_))
    nch = len(pm.cols)
    if op.get('channels') is None:
        chs, sel = None, list(range(nch))
    elif op['channels'] == [] and not pm.lp['indirect']:
        chs, sel = [], [0]          # the empty subset of an explicit-X log pass: the X channel alone
        cc.cls('empty-channel-subset')
    elif op['channels'] == []:
        return                      # implied X with no channel at all: nothing is read; outside the asserted domain
    else:
        sel = sorted(set(c % nch for c in op['channels']))
        chs = list(sel)
        cc.cls('channel-subset-with-index>=8', any(c >= 8 for c in sel))
        if not pm.lp['indirect'] and 0 not in sel:
            sel = [0] + sel
    cols = [c for ch in sel for c in range(*pm.cols[ch])]
    recs = sorted(set(pm.record_of(f)[0] for f in rows))
    gap = len(sel) >= 2 and any(b - a > 1 for a, b in zip(sel, sel[1:]))
    enters_late = any(pm.record_of(f)[1] > 0 and (i == 0 or pm.record_of(rows[i - 1])[0] != pm.record_of(f)[0]) for i, f in enumerate(rows))
    step_v = 1 if sl is None else (sl.step or 1)
    cc.cls('load-all', sl is None and chs is None)
    cc.cls('load-step>1', step_v > 1 and len(rows) > 1)
    cc.cls('load-spans>=2-records', len(recs) >= 2)
    cc.cls('channel-subset-with-gap', gap)
    cc.cls('load-enters-record-after-first-frame', enters_late)
    if step_v > 1 and len(recs) >= 2:
        s.seen['step_multi'] = True
    if gap:
        s.seen['gap'] = True
    if pm.lp['indirect'] and s.seen['step_multi'] and s.seen['gap']:
        cc.nt(True)
    s.mon.log = []
    try:
        lp.setFrameSet(s.fr, sl, None if chs is None else list(chs))
    finally:
        log, s.mon.log = s.mon.log, None
    fs = lp.frameSet
    desc = 'pass %d slice %r channels %r (frames %d, per record %r)' % (k, sl, chs, n, pm.lp['per_record'][:8])
    if fs.numFrames != len(rows):
        cc.dev('load==sub-matrix', 'frame-count', '%s: numFrames %r expected %d' % (desc, fs.numFrames, len(rows)))
        return
    exp = pm.matrix[np.ix_(rows, cols)]
    got = np.asarray(fs.frames)
    if got.shape != exp.shape:
        cc.dev('load==sub-matrix', 'shape', '%s: shape %r expected %r' % (desc, got.shape, exp.shape))
        return
    bad = ~(got == exp)
    if bad.any():
        i, j = [int(v[0]) for v in np.nonzero(bad)]
        # which channel / code
        ch = next(c for c in sel if pm.cols[c][0] <= cols[j] < pm.cols[c][1])
        whole_cols = bad.all(axis=0).any()
        sig = 'values-differ'
        if sl is not None or chs is not None:
            sig = 'partial-load-differs-from-sub-matrix'
        cc.dev('load==sub-matrix', sig, '%s: row %d (frame %d) col %d (channel %d code %d): %r expected %r; %d of %d cells differ' % (
            desc, i, rows[i], j, ch, pm.lp['dsbs'][ch]['rc'], float(got[i, j]), float(exp[i, j]), int(bad.sum()), bad.size))
    # X axis of every loaded frame
    for i, f in enumerate(rows):
        xe = pm.x[f] if pm.lp['indirect'] else pm.matrix[f, 0]
        xg = fs.xAxisValue(i)
        if xg is None or abs(xg - xe) > 1e-9 * (abs(xe) + abs(pm.x[0]) + 1):
            if pm.lp['indirect']:
                # known form: a record that is not the first of the selection is entered at frame offset > 0 and its X is
                # extrapolated from the previously loaded frame instead of from the record's own X value
                sign = -1 if pm.lp['xs']['up_down'] == 1 else 1
                j, off = pm.record_of(f)
                first_in_rec = i == 0 or pm.record_of(rows[i - 1])[0] != j
                sig = 'implied-x'
                if first_in_rec and i > 0 and off > 0:
                    wrong = fs.xAxisValue(i - 1) + off * sign * pm.lp.get('x_step', pm.lp['xs']['spacing'])
                    if abs(xg - wrong) <= 1e-9 * (abs(wrong) + 1):
                        sig = 'implied-x:late-entry-extrapolated-from-previous-record'
            else:
                sig = 'explicit-x'
            cc.dev('x-axis-of-loaded-frames', sig, '%s: loaded row %d is frame %d with X %r, xAxisValue gives %r' % (desc, i, f, xe, xg))
            break
    # (sample, burst) addressing
    for ch in sel:
        d = pm.lp['dsbs'][ch]
        if d['rc'] not in (130, 234) and d['samples'] * d['bursts'] > 1:
            for sa in range(d['samples']):
                for bu in range(d['bursts']):
                    v = fs.value(0, ch, 0, sa, bu)
                    e = pm.matrix[rows[0], pm.cols[ch][0] + sa * d['bursts'] + bu]   # samples are consecutive in the frame
                    if v != e:
                        cc.dev('sample-burst-addressing', 'value(fr,ch,sc,sa,bu)', '%s: channel %d sample %d burst %d: %r expected %r' % (desc, ch, sa, bu, v, e))
                        break
            break
    # byte-touch monitor
    allowed = [pm.spans[j] for j in recs]
    for a, b in log:
        if not any(lo <= a and b <= hi for lo, hi in allowed):
            cc.dev('load-reads-only-requested-records', 'read-outside-requested-records', '%s: read [%d, %d) but the requested frames live in records at %r' % (
                desc, a, b, allowed[:6]))
            break


class LoadMachine(HistoryMachine):
    START = staticmethod(start)
    STEP = staticmethod(step)

    @initialize(init=G.lis_files(max_frames=50, pairs=True, empty_passes=True, x_units=G.X_UNITS_WITH_UNKNOWN, spacing_pairs=True, mid_tables=True, max_channels=12))
    def init(self, init):
        self.begin(init)

    @rule(p=st.integers(0, 2))
    def load_all(self, p):
        self.op({'op': 'load', 'pass': p, 'all': True, 'channels': None})

    @rule(p=st.integers(0, 2), start=st.integers(0, 60), length=st.integers(0, 60), stepv=st.integers(0, 8), none_step=st.booleans(),
          channels=st.one_of(st.none(), st.lists(st.integers(0, 11), min_size=1, max_size=4)))
    def load(self, p, start, length, stepv, none_step, channels):
        self.op({'op': 'load', 'pass': p, 'start': start, 'length': length, 'step': stepv, 'none_step': none_step, 'channels': channels})

    @rule(p=st.integers(0, 2), start=st.integers(0, 6), stepv=st.integers(1, 4), first=st.integers(0, 2), gap=st.integers(2, 4))
    def load_stepped_with_gap(self, p, start, stepv, first, gap):
        """Most of the log pass with a step > 1 and two channels that are not neighbours."""
        self.op({'op': 'load', 'pass': p, 'start': start, 'length': 10 ** 6 - 1 - start, 'step': stepv, 'none_step': False,
                 'channels': [first, first + gap]})

    @rule(p=st.integers(0, 2), sliced=st.booleans(), start=st.integers(0, 20), length=st.integers(0, 20))
    def load_x_only(self, p, sliced, start, length):
        if sliced:
            self.op({'op': 'load', 'pass': p, 'start': start, 'length': length, 'step': 0, 'none_step': False, 'channels': []})
        else:
            self.op({'op': 'load', 'pass': p, 'all': True, 'channels': []})

    @rule(p=st.integers(0, 2))
    def read_accessors(self, p):
        self.op({'op': 'poke', 'pass': p})

    @rule(p=st.integers(0, 2), channels=st.lists(st.integers(0, 11), min_size=1, max_size=3))
    def load_channels(self, p, channels):
        self.op({'op': 'load', 'pass': p, 'all': True, 'channels': channels})


def parts(tier):
    return [MachinePart('load-history', LoadMachine, engine.replay_machine_case(start, step), 2000, 24000, steps=10)]


RULE += '  Added after the seeding rounds: type 0 and type 1 log passes interleaved in one logical file, log passes without data records, implied X in unit mnemonics outside the unit table, frame spacing in other units than the X axis (4 pairs with integral factors), read-only accessors called between loads, handles positioned anywhere.'
