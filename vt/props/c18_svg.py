"""C18, part svg-writer: the element classes of util/plot/SVGWriter.py driven directly.

A document is a list of elements (rect, circle, ellipse, line, polyline, polygon, text, groups with children); every element
takes its presentation attributes from a small pool of dictionaries that the caller keeps and reuses - the way Plot.py keeps
ATTRS_* constants - so one dictionary object serves several elements.

Oracles
  document-parses            the text is well-formed XML with root <svg>
  attributes-recovered       every element carries the pool attributes it was given, unchanged (strings of XML characters), and a
                             text element carries the font family and size it was given unless its pool dictionary sets them
  caller-arguments-unchanged the pool dictionaries are what they were, after every element
"""
import io
import xml.etree.ElementTree as ET

from hypothesis import strategies as st

SVG_NS = '{http://www.w3.org/2000/svg}'
KINDS = ('rect', 'circle', 'ellipse', 'line', 'polyline', 'polygon', 'text', 'group')
ATTR_NAMES = ('fill', 'stroke', 'stroke-width', 'class', 'id', 'opacity', 'text-anchor', 'font-weight', 'font-family', 'font-size')
FONTS = ('Courier', 'Verdana', 'Helvetica', 'Times New Roman', "Lucida 'Sans'", 'A&B <mono>')
TEXTS = st.text(alphabet=st.sampled_from(list('abcXYZ 019<>&"\'é€\t.-#;')), max_size=12)


@st.composite
def documents(draw):
    pool = []
    for _ in range(draw(st.integers(1, 3))):
        names = draw(st.lists(st.sampled_from(ATTR_NAMES[:8] if draw(st.integers(0, 3)) else ATTR_NAMES), max_size=4, unique=True))
        pool.append({n: draw(TEXTS) for n in names})
    budget = [draw(st.integers(2, 12))]

    def element(depth):
        budget[0] -= 1
        kind = draw(st.sampled_from(KINDS if depth < 2 else KINDS[:-1]))
        e = {'kind': kind, 'attrs': draw(st.one_of(st.none(), st.integers(0, len(pool) - 1))),
             'nums': [draw(st.integers(-50, 500)) / 4.0 for _ in range(6)]}
        if kind == 'text':
            e.update(font=draw(st.sampled_from(FONTS)), size=draw(st.integers(1, 48)), point=draw(st.integers(0, 5)) != 0, chars=draw(TEXTS))
        if kind in ('polyline', 'polygon'):
            e['nums'] = [draw(st.integers(-50, 500)) / 4.0 for _ in range(2 * draw(st.integers(1, 5)))]
        if kind == 'group':
            e['children'] = []
            while budget[0] > 0 and draw(st.integers(0, 2)):
                e['children'].append(element(depth + 1))
        return e
    elems = []
    while budget[0] > 0:
        elems.append(element(0))
    root = None
    if draw(st.integers(0, 2)) == 0:
        # attributes for the <svg> root: a viewBox, or the caller's own width / height (a drawing that scales with the page)
        root = {k: draw(st.sampled_from(['100%', '0 0 800 600', '12cm', '1.2', 'none', 'xMidYMid meet']))
                for k in draw(st.lists(st.sampled_from(['viewBox', 'width', 'height', 'preserveAspectRatio', 'version', 'id']), min_size=1, max_size=3, unique=True))}
    return {'pool': pool, 'elements': elems, 'root': root}


def _write(SVGWriter, Coord, xs, e, pool, after):
    dim = lambda v: Coord.Dim(v, 'px')  # noqa
    pt = lambda a, b: Coord.Pt(dim(a), dim(b))  # noqa
    attrs = None if e['attrs'] is None else pool[e['attrs']]
    n = e['nums']
    k = e['kind']
    if k == 'rect':
        ctx = SVGWriter.SVGRect(xs, pt(n[0], n[1]), Coord.Box(dim(abs(n[2])), dim(abs(n[3]))), attrs)
    elif k == 'circle':
        ctx = SVGWriter.SVGCircle(xs, pt(n[0], n[1]), dim(abs(n[2])), attrs)
    elif k == 'ellipse':
        ctx = SVGWriter.SVGElipse(xs, pt(n[0], n[1]), dim(abs(n[2])), dim(abs(n[3])), attrs)
    elif k == 'line':
        ctx = SVGWriter.SVGLine(xs, pt(n[0], n[1]), pt(n[2], n[3]), attrs)
    elif k == 'polyline':
        ctx = SVGWriter.SVGPolyline(xs, [pt(a, b) for a, b in zip(n[0::2], n[1::2])], attrs)
    elif k == 'polygon':
        ctx = SVGWriter.SVGPolygon(xs, [pt(a, b) for a, b in zip(n[0::2], n[1::2])], attrs)
    elif k == 'text':
        ctx = SVGWriter.SVGText(xs, pt(n[0], n[1]) if e['point'] else None, e['font'], e['size'], attrs)
    else:
        ctx = SVGWriter.SVGGroup(xs, attrs)
    with ctx:
        after()
        if k == 'text':
            xs.characters(e['chars'])
        for c in e.get('children', ()):
            _write(SVGWriter, Coord, xs, c, pool, after)


def _flat(elems):
    for e in elems:
        yield e
        yield from _flat(e.get('children', ()))


def check_svg_writer(case, cc):
    from TotalDepth.util.plot import SVGWriter, Coord
    from vt.props import c18
    pool = [dict(d) for d in case['pool']]
    want_pool = [dict(d) for d in case['pool']]
    flat = list(_flat(case['elements']))
    cc.nt(any(e['kind'] == 'text' for e in flat) and len(flat) >= 3)
    shared = [e['attrs'] for e in flat if e['attrs'] is not None]
    cc.cls('svg-writer:attribute-dictionary-shared-by-several-elements', len(shared) > len(set(shared)))
    cc.cls('svg-writer:two-texts-share-a-dictionary', any(
        sum(1 for e in flat if e['kind'] == 'text' and e['attrs'] == k) >= 2 for k in set(shared)))
    cc.cls('svg-writer:group-with-children', any(e.get('children') for e in flat))
    changed = []

    def after():
        if pool != want_pool and not changed:
            changed.append([dict(d) for d in pool])
    out = io.StringIO()
    try:
        root_attrs = None if case.get('root') is None else dict(case['root'])
        with SVGWriter.SVGWriter(out, Coord.Box(Coord.Dim(800, 'px'), Coord.Dim(600, 'px')), root_attrs) as xs:
            for e in case['elements']:
                _write(SVGWriter, Coord, xs, e, pool, after)
    except Exception as err:  # noqa
        cc.unexpected(err)
        return
    after()
    if changed:
        cc.dev('caller-arguments-unchanged', 'svg-writer:attribute-dictionary-modified',
               'attribute dictionaries handed to the element classes were %r, are %r' % (want_pool, changed[0]))
    text = out.getvalue()
    try:
        root = ET.fromstring(text.encode('utf-8'))
    except ET.ParseError as err:
        cc.dev('document-parses', 'svg-writer:unparseable', '%s\n%s' % (err, text[:400]))
        return
    if case.get('root') is not None:
        cc.cls('svg-writer:root-attributes-given', True)
        if root_attrs != case['root']:
            cc.dev('caller-arguments-unchanged', 'svg-writer:attribute-dictionary-modified', 'root attributes were %r, are %r' % (case['root'], root_attrs))
        for k, v in case['root'].items():
            if root.get(k) != v:
                cc.dev('attributes-recovered', 'svg-writer:root-attribute', '<svg %s=%r> was asked for, the parser gives %r' % (k, v, root.get(k)))
                break
    got = [el for el in root.iter() if el is not root]
    tags = {'rect': 'rect', 'circle': 'circle', 'ellipse': 'ellipse', 'line': 'line', 'polyline': 'polyline', 'polygon': 'polygon',
            'text': 'text', 'group': 'g'}
    # (SVGElipse writes <elipse>, not the <ellipse> of SVG: noted in DESIGN.md; element naming is not the subject of C18)
    if [el.tag.replace('elipse', 'ellipse') for el in got] != [SVG_NS + tags[e['kind']] for e in flat]:
        cc.dev('attributes-recovered', 'svg-writer:elements', 'elements %r, written %r' % ([el.tag for el in got][:8], [e['kind'] for e in flat][:8]))
        return
    for el, e in zip(got, flat):
        given = {} if e['attrs'] is None else want_pool[e['attrs']]
        for k, v in given.items():
            if c18.char_only(v) and el.get(k) != v and not (k in ('class', 'id', 'text-anchor') and el.get(k) == ' '.join(v.split())):
                if any(c in v for c in '\t\n\r'):
                    continue    # white space in attribute values is normalised by parsers unless written as references (xml-writer part)
                cc.dev('attributes-recovered', 'svg-writer:attribute-value', '<%s %s=%r> written, parser gives %r' % (e['kind'], k, v, el.get(k)))
                return
        if e['kind'] == 'text':
            for k, v in (('font-family', e['font']), ('font-size', str(e['size']))):
                if k not in given and el.get(k) != v:
                    cc.dev('attributes-recovered', 'svg-writer:text-font', 'text written with %s %r carries %r (its attribute dictionary %r)' % (
                        k, v, el.get(k), given))
                    return
            if (el.text or '') != e['chars'] and c18.char_only(e['chars']) and '\r' not in e['chars']:
                cc.dev('attributes-recovered', 'svg-writer:text-content', 'text %r, parser gives %r' % (e['chars'], el.text))
                return
