"""C01 - DLIS logical records are reassembled exactly from any physical layout.

Oracle: round trip through the independent RP66V1 encoder vt.gen.dlis: what FileRead.iter_logical_records() yields
(kind, type, payload, positions) must equal the modelled record list; FileRead.sul must report the label fields.
"""
import io

from hypothesis import strategies as st

from hypothesis.stateful import initialize, rule

from vt import engine
from vt.engine import HistoryMachine, HypPart, MachinePart
from vt.gen import dlis as G

PID = 'C01'
LEVEL = 'exploration'
TECHNIQUE = 'property-based testing (Hypothesis): round trip through an independent RP66V1 physical-layer encoder'
LEVEL_TEXT = ('generated logical record lists x segmentations (padding, checksum, trailing length, encryption flag) x visible '
              'record packings x storage unit labels; sequential read compared record by record with the model')
RULE = ('1..10 logical records (payload 0..3000 bytes, one in ten files with a 40 KB record), each cut into 1..24 segments '
        '(every segment even, >= 16 bytes, trailers per segment or per record, pad count up to 255), packed into visible '
        'records with capacity targets 20..16384 (small values over-weighted), any conformant storage unit label.  '
        'Non-trivial: at least one record spans >= 2 segments.  Distinct = distinct (label, records, layout).')
ASSUMPTIONS = ['checksum values are opaque (the reader does not verify them)',
               'an encryption packet (segment attribute bit 5) is not among the things the statement lists as removed: the bytes of the packet are part of the delivered body of the encrypted record',
               'pad bytes of an encrypted segment cannot be identified (standard, and the reader\'s own rule): the expected payload of an encrypted record is the raw segment bodies including pad bytes',
               'a file consisting of the label only is excluded (documented as unsupported)']
SHARDS = {'quick': 4, 'thorough': 16}
REQUIRED_CLASSES = {'record-spans>=2-visible-records': 1, 'segment-with-padding': 1, 'segment-with-checksum': 1,
                    'segment-with-trailing-length': 1, 'zero-length-payload': 1, 'encrypted-record': 1, 'encrypted-segment-with-padding': 1, 'encrypted-segment-with-encryption-packet': 1, 'middle-segment-with-every-attribute-bit-set': 1, 'middle-segment-without-payload': 1, 'record-of>=900-segments': 1, 'visible-record-of-20-bytes': 1,
                    'visible-record-of-16384-bytes': 1,
                    'sul-number-with-0-digit': 1, 'several-records-in-one-visible-record': 1,
                    'reread:second-pass': 1, 'reread:pass-after-other-operation': 1}


def has_zero_digit(n):
    return '0' in str(n)


def classify(cc, case, model):
    recs, lays = case['records'], case['layouts']
    cc.cls('record-spans>=2-segments', any(len(l) >= 2 for l in lays))
    cc.cls('record-spans>=2-visible-records', any(len(m['vrs']) >= 2 for m in model['records']))
    cc.cls('record-spans>=4-visible-records', any(len(m['vrs']) >= 4 for m in model['records']))
    cc.cls('several-records-in-one-visible-record', len({m['vr_pos'] for m in model['records']}) < len(recs))
    cc.cls('segment-with-padding', any(s['pad'] for l in lays for s in l))
    cc.cls('segment-pad>=100', any(s['pad'] >= 100 for l in lays for s in l))
    cc.cls('segment-with-checksum', any(s['checksum'] for l in lays for s in l))
    cc.cls('segment-with-trailing-length', any(s['trailing'] for l in lays for s in l))
    cc.cls('mixed-trailers-in-one-record', any(len({(s['checksum'], s['trailing']) for s in l}) > 1 for l in lays))
    cc.cls('zero-length-payload', any(len(r['payload']) == 0 for r in recs))
    cc.cls('encrypted-record', any(r['encrypted'] for r in recs))
    cc.cls('encrypted-segment-with-padding', any(r['encrypted'] and any(s['pad'] for s in l) for r, l in zip(recs, lays)))
    cc.cls('encrypted-segment-with-encryption-packet', any(s.get('enc_packet') for l in lays for s in l))
    cc.cls('middle-segment-without-payload', any(len(l) >= 3 and any(s['n'] == 0 for s in l[1:-1]) for l in lays))
    cc.cls('middle-segment-with-every-attribute-bit-set', any(
        r['eflr'] and r['encrypted'] and any(s.get('enc_packet') and s['checksum'] and s['trailing'] and s['pad'] for s in l[1:-1]) for r, l in zip(recs, lays)))
    cc.cls('visible-record-of-20-bytes', any(v[1] == 20 for m in model['records'] for v in m['vrs']))
    cc.cls('visible-record-of-16384-bytes', model['max_vr'] == 16384)
    cc.cls('payload>16KiB', any(len(r['payload']) > 16384 for r in recs))
    cc.cls('sul-number-with-0-digit', has_zero_digit(case['sul']['seq']) or has_zero_digit(case['sul']['max_len']))
    cc.nt(any(len(l) >= 2 for l in lays))


def summary(case, model):
    return {'sul': {'seq': case['sul']['seq'], 'max_len': case['sul']['max_len'], 'version': case['sul']['version']},
            'records': [{'eflr': r['eflr'], 'type': r['type'], 'len': len(r['payload']), 'encrypted': r['encrypted'],
                         'segments': [(s['n'], s['pad'], int(s['checksum']), int(s['trailing'])) for s in l][:8],
                         'visible_records': len(m['vrs'])}
                        for r, l, m in zip(case['records'], case['layouts'], model['records'])][:6],
            'visible_records': model['vr_count']}


def read_sequential(File, data):
    """[(is_eflr, type, payload, encrypted, vr_pos, lrsh_pos)] from the code under test."""
    out, kept = [], []
    with File.FileRead(engine.handle(data)) as fr:
        sul = fr.sul
        for fld in fr.iter_logical_records():
            kept.append(fld)
            out.append((bool(fld.lr_is_eflr), fld.lr_type, bytes(fld.logical_data.bytes), bool(fld.lr_is_encrypted),
                        fld.position.vr_position, fld.position.lrsh_position))
        fr.validate_positions()
    # the records are objects a caller may keep (list(fr.iter_logical_records())): they must still say afterwards what they
    # said when they were yielded
    later = [(bool(f.lr_is_eflr), f.lr_type, bytes(f.logical_data.bytes), bool(f.lr_is_encrypted),
              f.position.vr_position, f.position.lrsh_position) for f in kept]
    if later != out:
        k = next(i for i, (a, b) in enumerate(zip(later, out)) if a != b)
        raise RecordsChanged('record %d of %d read (eflr, type, %d bytes, encrypted, vr, lrsh) = %r when yielded and %r after the pass' % (
            k, len(out), len(out[k][2]), out[k][:2] + out[k][3:], later[k][:2] + later[k][3:]))
    return sul, out


class RecordsChanged(Exception):
    pass


def check(case, cc):
    from TotalDepth.RP66V1.core import File
    data, model = G.build(case)
    classify(cc, case, model)
    cc.sample(summary(case, model))
    sul_m = case['sul']
    try:
        sul, got = read_sequential(File, data)
    except RecordsChanged as err:
        cc.dev('records==written', 'record-objects-change-after-the-pass', str(err))
        return
    except File.ExceptionFileRead as err:
        if 'SUL' in str(err):
            sig = 'sul-rejected'
            if has_zero_digit(sul_m['seq']) or has_zero_digit(sul_m['max_len']):
                sig = 'sul-rejected:number-containing-digit-0'
            cc.dev('sul-accepted', sig, 'label %r rejected: %s' % (G.encode_sul(sul_m)[:20], err))
            return
        cc.unexpected(err)
        return
    except File.ExceptionFileReadPositionsInconsistent as err:
        cc.dev('validate-positions', 'positions-inconsistent', str(err))
        return
    # label fields as written
    exp_sul = (sul_m['seq'], sul_m['version'], b'RECORD', sul_m['max_len'], sul_m['ident'])
    got_sul = (sul.storage_unit_sequence_number, bytes(sul.dlis_version), bytes(sul.storage_unit_structure),
               sul.maximum_record_length, bytes(sul.storage_set_identifier))
    if got_sul != exp_sul:
        cc.dev('sul-fields', 'sul-field-value', 'reported %r written %r' % (got_sul, exp_sul))
    exp = [(r['eflr'], r['type'], G.expected_payload(r, l), r['encrypted'], m['vr_pos'], m['lrsh_pos'])
           for r, l, m in zip(case['records'], case['layouts'], model['records'])]
    if len(got) != len(exp):
        cc.dev('records==written', 'record-count', 'read %d records, wrote %d' % (len(got), len(exp)))
    for k, (g, e) in enumerate(zip(got, exp)):
        if g[:2] != e[:2]:
            cc.dev('records==written', 'kind-or-type', 'record %d: read (eflr=%r,type=%r) wrote (eflr=%r,type=%r)' % (k, g[0], g[1], e[0], e[1]))
        if g[2] != e[2]:
            sig = 'payload-length' if len(g[2]) != len(e[2]) else 'payload-content'
            if e[3]:
                sig += '-encrypted'
            cc.dev('records==written', sig, 'record %d: read %d bytes %s..., wrote %d bytes %s...; layout %r' % (
                k, len(g[2]), g[2][:12].hex(), len(e[2]), e[2][:12].hex(), case['layouts'][k][:6]))
        if g[3] != e[3]:
            cc.dev('records==written', 'encryption-flag', 'record %d: read %r wrote %r' % (k, g[3], e[3]))
        if g[4:] != e[4:]:
            cc.dev('record-positions', 'positions', 'record %d: reported vr/lrsh %r, model %r' % (k, g[4:], e[4:]))


# -------------------------------------------------------------------------------------------------
# Histories on one FileRead object: a sequential pass must give the written records whatever was done before
# -------------------------------------------------------------------------------------------------
class RereadState:
    def __init__(self, init, cc):
        from TotalDepth.RP66V1.core import File
        self.File = File
        data, model = G.build(init)
        self.case, self.model = init, model
        classify(cc, init, model)
        cc.sample(summary(init, model))
        self.exp = [(r['eflr'], r['type'], G.expected_payload(r, l), m['vr_pos'], m['lrsh_pos'])
                    for r, l, m in zip(init['records'], init['layouts'], model['records'])]
        self.fh = engine.handle(data)
        self.fr = File.FileRead(self.fh)
        self.fr._enter()
        self.sul_m = dict(init['sul'])
        self.passes = 0
        self.others = 0

    def close(self):
        try:
            self.fr._exit()
        except Exception:  # noqa
            pass


def reread_start(init, cc):
    return RereadState(init, cc)


def reread_step(s, op, cc):
    kind = op['op']
    n = len(s.exp)
    if kind == 'pass':
        limit = n if op.get('all', True) else 1 + op['take'] % n
        got = []
        for fld in s.fr.iter_logical_records():
            got.append((bool(fld.lr_is_eflr), fld.lr_type, bytes(fld.logical_data.bytes), fld.position.vr_position, fld.position.lrsh_position))
            if len(got) >= limit:
                break
        if got != s.exp[:limit]:
            k = next((i for i, (g, e) in enumerate(zip(got, s.exp)) if g != e), min(len(got), limit))
            sig = 'reread-differs' if (s.passes or s.others) else 'first-read-differs'
            cc.dev('records==written', sig, 'pass %d (after %d other operations): %d records read, first difference at record %d of %d' % (
                s.passes + 1, s.others, len(got), k, limit))
        s.passes += 1
        cc.cls('reread:second-pass', s.passes >= 2)
        cc.cls('reread:pass-after-other-operation', s.others > 0)
        cc.cls('reread:partial-pass', limit < n)
        if s.passes >= 2 and s.others > 0 and model_multi_vr(s.model):
            cc.nt(True)
        return
    if kind == 'pass_while_another_is_abandoned':
        # an iterator started earlier (to peek at the first records) is still alive when a full pass runs on the same reader,
        # and is closed - or garbage collected - part way through that pass
        peek = s.fr.iter_logical_records()
        for _ in range(1 + op['peek'] % n):
            next(peek, None)
        got = []
        for fld in s.fr.iter_logical_records():
            got.append((bool(fld.lr_is_eflr), fld.lr_type, bytes(fld.logical_data.bytes), fld.position.vr_position, fld.position.lrsh_position))
            if peek is not None and len(got) >= 1 + op['close_after'] % n:
                peek.close()
                peek = None
        if peek is not None:
            peek.close()
        cc.cls('reread:pass-while-an-abandoned-iterator-is-closed')
        if got != s.exp:
            k = next((i for i, (g, e) in enumerate(zip(got, s.exp)) if g != e), min(len(got), n))
            cc.dev('records==written', 'pass-disturbed-by-closing-an-abandoned-iterator',
                   'peeked %d record(s), full pass, first iterator closed after record %d: %d records read, first difference at record %d of %d' % (
                       1 + op['peek'] % n, 1 + op['close_after'] % n, len(got), k, n))
        s.passes += 1
        return
    s.others += 1
    if kind == 'relabel':
        # the reader is left, the storage unit label of the file object it was given is rewritten in place (another sequence
        # number and identifier: a storage unit re-numbered within its set), and the same reader is entered again
        s.fr._exit()
        s.sul_m = dict(s.sul_m, seq=1 + op['seq'] % 9999, ident=(b'SET %d' % op['seq']).ljust(60))
        label = G.encode_sul(s.sul_m)
        s.fh.getbuffer()[0:len(label)] = label
        s.fr._enter()
        sul = s.fr.sul
        exp_sul = (s.sul_m['seq'], s.sul_m['version'], b'RECORD', s.sul_m['max_len'], s.sul_m['ident'])
        got_sul = (sul.storage_unit_sequence_number, bytes(sul.dlis_version), bytes(sul.storage_unit_structure),
                   sul.maximum_record_length, bytes(sul.storage_set_identifier))
        cc.cls('reread:entered-again-after-the-label-was-rewritten')
        if got_sul != exp_sul:
            cc.dev('sul-fields', 'sul-field-value:reader-entered-again', 'reported %r, the file now holds %r' % (got_sul, exp_sul))
        return
    if kind == 'visible_records':
        vrs = [(v.position, v.length) for v in s.fr.iter_visible_records()]
        if len(vrs) != s.model['vr_count']:
            cc.dev('visible-records', 'visible-record-count', '%d visible records listed, %d written' % (len(vrs), s.model['vr_count']))
    elif kind == 'validate':
        s.fr.validate_positions()
    elif kind == 'positions':
        pos = [(p.position.vr_position, p.position.lrsh_position) for p in s.fr.iter_logical_record_positions()]
        if pos != [(e[3], e[4]) for e in s.exp]:
            cc.dev('record-positions', 'positions', 'iter_logical_record_positions differs from the model')
    elif kind == 'fetch':
        k = op['k'] % n
        m = s.model['records'][k]
        class P:  # noqa
            vr_position, lrsh_position = m['vr_pos'], m['lrsh_pos']
        fld = s.fr.get_file_logical_data(P)
        if bytes(fld.logical_data.bytes) != s.exp[k][2]:
            cc.dev('records==written', 'fetch-differs', 'fetch of record %d differs' % k)
    else:
        raise engine.HarnessError('unknown op %r' % (op,))


def model_multi_vr(model):
    return model['vr_count'] >= 2


class RereadMachine(HistoryMachine):
    START = staticmethod(reread_start)
    STEP = staticmethod(reread_step)

    @initialize(init=G.physical_files(min_records=2, max_records=6, max_payload=600))
    def init(self, init):
        self.begin(init)

    @rule()
    def full_pass(self):
        self.op({'op': 'pass', 'all': True})

    @rule(take=st.integers(0, 5))
    def partial_pass(self, take):
        self.op({'op': 'pass', 'all': False, 'take': take})

    @rule(kind=st.sampled_from(['visible_records', 'validate', 'positions']))
    def other(self, kind):
        self.op({'op': kind})

    @rule(seq=st.integers(0, 20000))
    def relabel(self, seq):
        self.op({'op': 'relabel', 'seq': seq})

    @rule(k=st.integers(0, 5))
    def fetch(self, k):
        self.op({'op': 'fetch', 'k': k})

    @rule(peek=st.integers(0, 3), close_after=st.integers(0, 5))
    def pass_while_another_is_abandoned(self, peek, close_after):
        self.op({'op': 'pass_while_another_is_abandoned', 'peek': peek, 'close_after': close_after})


@st.composite
def many_segment_cases(draw):
    """One logical record cut into 900..1300 segments (the layout is made when the case is checked), between two small ones."""
    return {'sul': draw(G.suls()), 'n': draw(st.integers(900, 1300)), 'body': draw(st.sampled_from([1, 1, 2, 3])),
            'cap': draw(st.sampled_from([8192, 16384, 400, 20 + 16 * 7])), 'trailers': draw(st.tuples(st.booleans(), st.booleans())),
            'eflr': draw(st.booleans()), 'type': draw(st.integers(0, 11))}


def check_many_segments(case, cc):
    n, b = case['n'], case['body']
    small = {'eflr': True, 'type': 0, 'payload': b'first', 'encrypted': False}
    big = {'eflr': case['eflr'], 'type': case['type'], 'payload': bytes((i * 7 + (i >> 8)) & 0xFF for i in range(n * b)), 'encrypted': False}
    last = {'eflr': False, 'type': 0, 'payload': b'last record', 'encrypted': False}
    cs, tr = case['trailers']

    def seg(nb):
        base = G.SEG_HEAD + nb + 2 * cs + 2 * tr
        pad = max(0, G.SEG_MIN - base)
        pad += (base + pad) % 2
        return {'n': nb, 'pad': pad, 'checksum': cs, 'trailing': tr}
    sul = dict(case['sul'], max_len=max(case['sul']['max_len'], 16384))
    full = {'sul': sul, 'records': [small, big, last], 'layouts': [[seg(5)], [seg(b) for _ in range(n)], [seg(11)]], 'vr_caps': [case['cap']]}
    cc.cls('record-of>=900-segments')
    # Hypothesis raises the interpreter's recursion limit while a test runs; a caller of the library has the default 1000 and
    # is some 50 frames deep: the stack available to the reader is set to that for this case
    import inspect
    import sys
    old = sys.getrecursionlimit()
    sys.setrecursionlimit(len(inspect.stack(0)) + 950)
    try:
        check(full, cc)
    finally:
        sys.setrecursionlimit(old)


def parts(tier):
    return [HypPart('many-segments', many_segment_cases(), check_many_segments, 8, 120),
            HypPart('sequential-read', G.physical_files(), check, 1600, 40000),
            MachinePart('reread-history', RereadMachine, engine.replay_machine_case(reread_start, reread_step), 500, 10000, steps=8)]


RULE += '  Added after the seeding rounds: encrypted segments with encryption packets, with arbitrary (cipher) pad bytes and with every attribute bit set; storage unit label numbers padded with mixed zeros and blanks; the reader is handed a file object positioned at start / end / middle / byte 1.'
RULE += '  Round 16: the reread history also leaves the reader, rewrites the storage unit label of its file object in place and enters it again.'
