"""Collect-then-shrink driver on top of Hypothesis.

A property module provides *parts*.  Every part has a ``check(case, cc)`` function which is a pure
function of a JSON-able ``case`` and reports through the case context ``cc``:

    cc.dev(oracle, signature, detail)   a deviation from the oracle (never raises)
    cc.nt(flag=True, key=None)          the case is non-trivial by the property's stated rule
    cc.cls(name)                        class counter (distribution of generated cases)
    cc.sample(obj)                      compact form of the case for the evidence file

Cases come from a Hypothesis strategy (HypPart), from a rule based state machine whose rules append
operations to ``case['ops']`` (MachinePart), or from an explicit enumeration (EnumPart).  Nothing
raises during the search, so one shallow defect does not hide what lies behind it; after the search
the smallest case of each unknown bucket is shrunk and written as a replay file.
"""
import hashlib
import json
import math
import os
import sys
import time
import traceback
import typing

import hypothesis
from hypothesis import HealthCheck, Phase, given, settings, strategies as st
from hypothesis.stateful import RuleBasedStateMachine, run_state_machine_as_test

VERIF = os.path.dirname(os.path.dirname(os.path.abspath(__file__)))
REPO = os.environ.get('VERIF_REPO', '/repo')
REPO_SRC = os.path.join(REPO, 'src')


class HarnessError(Exception):
    """Something is wrong with the verification machinery itself (exit code 2)."""


# ---------------------------------------------------------------------------------------------
# JSON codec for cases: None, bool, int, float, str, bytes, list, tuple, dict
# ---------------------------------------------------------------------------------------------
def to_json(o):
    if o is None or isinstance(o, (bool, str)):
        return o
    if isinstance(o, int):
        return o
    if isinstance(o, float):
        if math.isfinite(o):
            return {'$f': o.hex()}
        return {'$f': repr(o)}
    if isinstance(o, (bytes, bytearray)):
        return {'$b': bytes(o).hex()}
    if isinstance(o, tuple):
        return {'$t': [to_json(x) for x in o]}
    if isinstance(o, list):
        return [to_json(x) for x in o]
    if isinstance(o, dict):
        if all(isinstance(k, str) and not k.startswith('$') for k in o):
            return {k: to_json(v) for k, v in o.items()}
        return {'$d': [[to_json(k), to_json(v)] for k, v in o.items()]}
    if hasattr(o, 'item'):  # numpy scalar
        return to_json(o.item())
    raise HarnessError('case not JSON-able: %r' % type(o))


def from_json(o):
    if isinstance(o, list):
        return [from_json(x) for x in o]
    if isinstance(o, dict):
        if len(o) == 1:
            (k, v), = o.items()
            if k == '$f':
                return float.fromhex(v) if v not in ('nan', 'inf', '-inf') else float(v)
            if k == '$b':
                return bytes.fromhex(v)
            if k == '$t':
                return tuple(from_json(x) for x in v)
            if k == '$d':
                return {_hashable(from_json(a)): from_json(b) for a, b in v}
        return {k: from_json(v) for k, v in o.items()}
    return o


def _hashable(o):
    if isinstance(o, list):
        return tuple(_hashable(x) for x in o)
    return o


def canonical(case) -> str:
    return json.dumps(to_json(case), sort_keys=True, separators=(',', ':'))


def digest(case) -> str:
    return hashlib.sha1(canonical(case).encode()).hexdigest()[:20]


def case_size(case) -> int:
    return len(canonical(case))


# ---------------------------------------------------------------------------------------------
# Exceptions raised by the code under test
# ---------------------------------------------------------------------------------------------
def sut_frames(exc: BaseException):
    ret = []
    tb = exc.__traceback__
    while tb is not None:
        fn = tb.tb_frame.f_code.co_filename
        if os.path.abspath(fn).startswith(REPO_SRC):
            ret.append((os.path.relpath(fn, REPO_SRC), tb.tb_frame.f_code.co_name, tb.tb_lineno))
        tb = tb.tb_next
    return ret


def handle(data, pos=None):
    """An open binary file object holding ``data`` whose position is wherever the previous user of the handle left it
    (start, end, middle, one byte in - a pure function of the content, so that replay files stay valid).  The readers of
    RP66V1, LIS and BIT files rewind the handle they are given (they are handed the object that identification just read)."""
    import io
    import zlib
    f = io.BytesIO(data)
    if pos is None:
        k = zlib.crc32(bytes(data[:256])) % 5
        pos = (0, 0, len(data), len(data) // 2, 1)[k]
    f.seek(min(pos, len(data)))
    return f


def exc_sig(exc: BaseException) -> str:
    """Bucket key of an exception: type + innermost frame of the package under test (no line number)."""
    frames = sut_frames(exc)
    if frames:
        f = frames[-1]
        return 'exc:%s@%s:%s' % (type(exc).__name__, f[0], f[1])
    return 'exc:%s@harness' % type(exc).__name__


def short(o, n=300) -> str:
    s = o if isinstance(o, str) else repr(o)
    return s if len(s) <= n else s[:n] + '...<%d>' % len(s)


# ---------------------------------------------------------------------------------------------
# Parts
# ---------------------------------------------------------------------------------------------
class Part:
    name: str = ''

    def __init__(self, name, check, quick, thorough, shard_quick=True):
        self.name = name
        self.check = check
        self.quick = quick
        self.thorough = thorough

    def budget(self, tier):
        return self.quick if tier == 'quick' else self.thorough


class HypPart(Part):
    """check(case, cc) over cases drawn from a strategy."""

    def __init__(self, name, strategy, check, quick, thorough):
        super().__init__(name, check, quick, thorough)
        self.strategy = strategy


class MachinePart(Part):
    """Stateful part.  ``machine`` is a RuleBasedStateMachine subclass deriving from HistoryMachine.
    check(case, cc) replays case = {'init': ..., 'ops': [...]} without Hypothesis."""

    def __init__(self, name, machine, check, quick, thorough, steps=30):
        super().__init__(name, check, quick, thorough)
        self.machine = machine
        self.steps = steps


class EnumPart(Part):
    """Explicit enumeration: run(ctx, part, tier, shard, nshards) calls ctx.eval_case(...) or ctx.bulk(...).
    check(case, cc) is used for replay of the individual failing cases."""

    def __init__(self, name, run, check, quick=None, thorough=None):
        super().__init__(name, check, quick, thorough)
        self.run = run


class HistoryMachine(RuleBasedStateMachine):
    """Base class of the state machines: records init + ops so that a history can be replayed and
    reduced without Hypothesis.  Subclasses call self.begin(init) in an @initialize rule and
    self.op(op) in every rule; both delegate to the class attributes START / STEP:
        START(init, cc) -> state ;  STEP(state, op, cc) -> None
    """
    ENGINE = None  # type: typing.Optional['Ctx']
    PART = None    # type: typing.Optional[MachinePart]
    START = None
    STEP = None

    def __init__(self):
        super().__init__()
        self.case = {'init': None, 'ops': []}
        self.cc = CaseCtx(self.ENGINE, self.PART)
        self.state = None
        self.dead = False

    def begin(self, init):
        self.case['init'] = init
        self._guard(lambda: setattr(self, 'state', type(self).START(init, self.cc)))

    def op(self, op):
        if self.dead or self.state is None:
            return
        self.case['ops'].append(op)
        self._guard(lambda: type(self).STEP(self.state, op, self.cc))

    def _guard(self, fn):
        try:
            fn()
        except HarnessError:
            raise
        except Exception as err:  # noqa
            self.dead = True
            self.cc.unexpected(err)

    def teardown(self):
        if self.case['init'] is not None:
            self.cc.finish(self.case)
        st_ = self.state
        if st_ is not None and hasattr(st_, 'close'):
            try:
                st_.close()
            except Exception:  # noqa
                pass


def replay_machine_case(start, step):
    """Builds the check(case, cc) function of a MachinePart from its START / STEP functions."""
    def check(case, cc):
        state = start(case['init'], cc)
        try:
            for op in case['ops']:
                step(state, op, cc)
        finally:
            if hasattr(state, 'close'):
                try:
                    state.close()
                except Exception:  # noqa
                    pass
    return check


# ---------------------------------------------------------------------------------------------
# Context
# ---------------------------------------------------------------------------------------------
class Deviation(typing.NamedTuple):
    part: str
    oracle: str
    signature: str
    detail: str


class CaseCtx:
    def __init__(self, ctx: 'Ctx', part: Part):
        self.ctx = ctx
        self.part = part
        self.devs: typing.List[Deviation] = []
        self.nontrivial = False
        self.nt_key = None
        self.classes: typing.Set[str] = set()
        self.sample_obj = None

    def dev(self, oracle: str, signature: str, detail=''):
        self.devs.append(Deviation(self.part.name, oracle, signature, short(detail, 1500)))

    def unexpected(self, err: BaseException, oracle='no-unexpected-exception'):
        """An exception that the oracle does not allow.  If no frame of the package under test is on
        the stack it is a bug of the harness and is re-raised as such."""
        if not sut_frames(err):
            raise HarnessError('exception outside the code under test: %r\n%s' % (
                err, ''.join(traceback.format_exception(type(err), err, err.__traceback__)))) from err
        tb = ''.join(traceback.format_exception(type(err), err, err.__traceback__)[-6:])
        self.dev(oracle, exc_sig(err), '%r\n%s' % (err, tb))

    def nt(self, flag=True, key=None):
        if flag:
            self.nontrivial = True
            if key is not None:
                self.nt_key = key

    def cls(self, name, flag=True):
        if flag:
            self.classes.add(name)

    def sample(self, obj):
        self.sample_obj = obj

    def finish(self, case):
        self.ctx.record(self, case)


class Ctx:
    def __init__(self, pid, tier, seed, known, shard=0, nshards=1):
        self.pid = pid
        self.tier = tier
        self.seed = seed
        self.shard = shard
        self.nshards = nshards
        self.known = known  # list of finding dicts of this property
        self.evaluations = 0
        self.nt_digests: typing.Set[str] = set()
        self.bulk_nontrivial = 0
        self.classes: typing.Dict[str, int] = {}
        self.samples: typing.List[typing.Any] = []
        self.part_evals: typing.Dict[str, int] = {}
        # bucket -> dict(count, part, oracle, signature, detail, case, size)
        self.buckets: typing.Dict[str, dict] = {}
        self.known_hits: typing.Dict[str, int] = {}
        self.notes: typing.Dict[str, typing.Any] = {}
        self.max_samples = 5

    # -- known findings ----------------------------------------------------------------------
    def match_known(self, d: Deviation):
        for f in self.known:
            if f.get('status') != 'known':
                continue
            if f['signature'] == d.signature and f.get('oracle', d.oracle) == d.oracle:
                return f
        return None

    # -- recording ---------------------------------------------------------------------------
    def eval_case(self, part: Part, case, check=None):
        cc = CaseCtx(self, part)
        try:
            (check or part.check)(case, cc)
        except HarnessError:
            raise
        except Exception as err:  # noqa
            cc.unexpected(err)
        cc.finish(case)
        return cc

    def record(self, cc: CaseCtx, case):
        self.evaluations += 1
        self.part_evals[cc.part.name] = self.part_evals.get(cc.part.name, 0) + 1
        for c in cc.classes:
            self.classes[c] = self.classes.get(c, 0) + 1
        if cc.nontrivial:
            dg = digest(cc.nt_key if cc.nt_key is not None else case)
            if dg not in self.nt_digests:
                self.nt_digests.add(dg)
                # keep samples spread over the parts
                mine = [s for s in self.samples if s.get('part') == cc.part.name]
                if len(mine) < 2 and len(self.samples) < 40:
                    obj = cc.sample_obj if cc.sample_obj is not None else case
                    self.samples.append({'part': cc.part.name, 'case': json.loads(short_json(obj))})
        seen = set()
        for d in cc.devs:
            f = self.match_known(d)
            if f is not None:
                self.known_hits[f['id']] = self.known_hits.get(f['id'], 0) + 1
                continue
            b = '%s|%s|%s' % (d.part, d.oracle, d.signature)
            if b in seen:
                continue
            seen.add(b)
            size = case_size(case)
            cur = self.buckets.get(b)
            if cur is None:
                self.buckets[b] = dict(count=1, part=d.part, oracle=d.oracle, signature=d.signature,
                                       detail=d.detail, case=to_json(case), size=size)
            else:
                cur['count'] += 1
                if size < cur['size']:
                    cur.update(detail=d.detail, case=to_json(case), size=size)

    def bulk(self, part: Part, evaluations: int, nontrivial: int, cls: str = None):
        """Vectorised enumeration of *distinct* cases: only the counts are recorded."""
        self.evaluations += evaluations
        self.part_evals[part.name] = self.part_evals.get(part.name, 0) + evaluations
        self.bulk_nontrivial += nontrivial
        if cls:
            self.classes[cls] = self.classes.get(cls, 0) + evaluations

    def add_sample(self, part_name, obj):
        if len(self.samples) < 40:
            self.samples.append({'part': part_name, 'case': json.loads(short_json(obj))})

    def note(self, key, value):
        self.notes[key] = value

    # -- (de)serialisation between shard processes -----------------------------------------
    def dump(self):
        return dict(evaluations=self.evaluations, nt_digests=sorted(self.nt_digests),
                    bulk_nontrivial=self.bulk_nontrivial, classes=self.classes, samples=self.samples,
                    part_evals=self.part_evals, buckets=self.buckets, known_hits=self.known_hits,
                    notes=self.notes)

    def merge(self, d):
        self.evaluations += d['evaluations']
        self.nt_digests.update(d['nt_digests'])
        self.bulk_nontrivial += d['bulk_nontrivial']
        for k, v in d['classes'].items():
            self.classes[k] = self.classes.get(k, 0) + v
        for k, v in d['part_evals'].items():
            self.part_evals[k] = self.part_evals.get(k, 0) + v
        for s in d['samples']:
            mine = [x for x in self.samples if x.get('part') == s.get('part')]
            if len(mine) < 2 and len(self.samples) < 40:
                self.samples.append(s)
        for k, v in d['known_hits'].items():
            self.known_hits[k] = self.known_hits.get(k, 0) + v
        for b, v in d['buckets'].items():
            cur = self.buckets.get(b)
            if cur is None:
                self.buckets[b] = v
            else:
                n = cur['count'] + v['count']
                if v['size'] < cur['size']:
                    self.buckets[b] = v
                self.buckets[b]['count'] = n
        for k, v in d['notes'].items():
            if isinstance(v, (int, float)) and isinstance(self.notes.get(k), (int, float)):
                self.notes[k] += v
            elif isinstance(v, list) and isinstance(self.notes.get(k), list):
                self.notes[k] = self.notes[k] + v
            else:
                self.notes.setdefault(k, v)


def short_json(obj, limit=1200) -> str:
    """JSON text of a sample, with long strings / byte strings abbreviated."""
    def abbreviate(o, depth=0):
        if isinstance(o, (bytes, bytearray)):
            h = bytes(o).hex()
            return 'hex:' + (h if len(h) <= 64 else h[:64] + '...(%d bytes)' % len(o))
        if isinstance(o, str):
            return o if len(o) <= 80 else o[:80] + '...(%d chars)' % len(o)
        if isinstance(o, float):
            return o if math.isfinite(o) else repr(o)
        if isinstance(o, (list, tuple)):
            if len(o) > 12:
                return [abbreviate(x, depth + 1) for x in o[:12]] + ['...(%d items)' % len(o)]
            return [abbreviate(x, depth + 1) for x in o]
        if isinstance(o, dict):
            return {str(k): abbreviate(v, depth + 1) for k, v in list(o.items())[:30]}
        if hasattr(o, 'item'):
            return abbreviate(o.item())
        return o
    txt = json.dumps(abbreviate(obj))
    if len(txt) > limit * 4:
        txt = json.dumps({'abbreviated': txt[:limit * 4]})
    return txt


# ---------------------------------------------------------------------------------------------
# Running parts
# ---------------------------------------------------------------------------------------------
def hyp_settings(n, **kw):
    base = dict(max_examples=n, database=None, deadline=None, derandomize=False,
                report_multiple_bugs=False, suppress_health_check=list(HealthCheck),
                phases=[Phase.generate])
    base.update(kw)
    return settings(**base)


def part_seed(ctx: Ctx, part: Part) -> int:
    h = int(hashlib.sha1(part.name.encode()).hexdigest()[:6], 16)
    return (ctx.seed * 1000 + ctx.shard) * 1000003 + h


def run_part(ctx: Ctx, part: Part):
    n = part.budget(ctx.tier)
    if isinstance(part, HypPart):
        if not n:
            return

        @hypothesis.seed(part_seed(ctx, part))
        @hyp_settings(n)
        @given(part.strategy)
        def test(case):
            ctx.eval_case(part, case)
        test()
    elif isinstance(part, MachinePart):
        if not n:
            return
        part.machine.ENGINE = ctx
        part.machine.PART = part
        run_state_machine_as_test(hypothesis.seed(part_seed(ctx, part))(part.machine),
                                  settings=hyp_settings(n, stateful_step_count=part.steps))
    elif isinstance(part, EnumPart):
        part.run(ctx, part, ctx.tier, ctx.shard, ctx.nshards)
    else:
        raise HarnessError('unknown part type')


# ---------------------------------------------------------------------------------------------
# Shrinking
# ---------------------------------------------------------------------------------------------
def reproduces(part: Part, case, bucket_key, known) -> bool:
    ctx = Ctx('tmp', 'quick', 0, known)
    try:
        ctx.eval_case(part, case)
    except HarnessError:
        return False
    return bucket_key in ctx.buckets


def shrink_bucket(ctx: Ctx, part: Part, bucket_key: str, bucket: dict, budget_s: float) -> dict:
    """Returns the (possibly smaller) case in JSON form."""
    t0 = time.time()
    best = from_json(bucket['case'])
    best_size = bucket['size']
    if isinstance(part, MachinePart):
        # greedy removal of operations (ddmin with granularity 1, then pairs)
        ops = list(best['ops'])
        changed = True
        while changed and time.time() - t0 < budget_s:
            changed = False
            i = len(ops) - 1
            while i >= 0 and time.time() - t0 < budget_s:
                trial = dict(best, ops=ops[:i] + ops[i + 1:])
                if reproduces(part, trial, bucket_key, ctx.known):
                    ops = trial['ops']
                    best = trial
                    changed = True
                i -= 1
        return to_json(best)
    if isinstance(part, HypPart):
        state = {'best': best, 'size': best_size}

        def pred(case):
            if time.time() - t0 > budget_s:
                return False
            ok = reproduces(part, case, bucket_key, ctx.known)
            if ok:
                sz = case_size(case)
                if sz < state['size']:
                    state['best'], state['size'] = case, sz
            return ok
        try:
            found = hypothesis.find(part.strategy, pred, settings=settings(
                max_examples=max(200, min(2000, (part.budget(ctx.tier) or 200))), database=None, deadline=None,
                suppress_health_check=list(HealthCheck), derandomize=False,
                phases=[Phase.generate, Phase.shrink]), random=__import__('random').Random(part_seed(ctx, part)))
            if reproduces(part, found, bucket_key, ctx.known) and case_size(found) <= state['size']:
                state['best'] = found
        except hypothesis.errors.NoSuchExample:
            pass
        except Exception:  # noqa - shrinking is best effort
            pass
        return to_json(state['best'])
    return bucket['case']
