"""A process that has never converted anything, from which one child is forked per conversion.

`convert(...)` in the checking process sends one request to the server (started on first use, one per checking process);
the server forks, the child converts ONE file and leaves, the server stays as clean as it was imported.  So every
conversion done here is "this file converted on its own" in the strictest sense: no module level state of an earlier
conversion can be seen by it.  The reply only says whether the child ran to its end; the caller reads the output tree.

Anything that goes wrong with the machinery (server gone, child killed, time out) is reported as 'unavailable' and never
as a deviation.
"""
import atexit
import json
import os
import signal
import subprocess
import sys

_SERVER = None
VERIF = os.path.dirname(os.path.dirname(os.path.abspath(__file__)))


def _server():
    global _SERVER
    if _SERVER is not None and _SERVER.poll() is None:
        return _SERVER
    _SERVER = subprocess.Popen([sys.executable, '-m', 'vt.fresh'], stdin=subprocess.PIPE, stdout=subprocess.PIPE,
                               stderr=subprocess.DEVNULL, cwd=VERIF, env=dict(os.environ))
    line = _SERVER.stdout.readline()
    if line.strip() != b'ready':
        _SERVER.kill()
        _SERVER = None
        return None
    return _SERVER


def convert(conv, path_in, path_out, reduction, channels, width, float_format):
    """'ok', 'exception' (the conversion raised) or 'unavailable'."""
    try:
        srv = _server()
        if srv is None:
            return 'unavailable'
        req = {'conv': conv, 'path_in': path_in, 'path_out': path_out, 'reduction': reduction, 'channels': sorted(channels),
               'width': width, 'float_format': float_format, 'cwd': os.getcwd()}
        srv.stdin.write(json.dumps(req).encode() + b'\n')
        srv.stdin.flush()
        line = srv.stdout.readline()
        return json.loads(line)['status']
    except Exception:  # noqa
        stop()
        return 'unavailable'


def stop():
    global _SERVER
    if _SERVER is not None:
        try:
            _SERVER.kill()
            _SERVER.wait()
        except Exception:  # noqa
            pass
    _SERVER = None


atexit.register(stop)


def _child(req):
    import logging
    logging.disable(logging.CRITICAL)
    from TotalDepth.common import Slice
    from TotalDepth.LAS.core import WriteLAS
    if req['conv'] == 'RP66V1':
        from TotalDepth.RP66V1 import ToLAS
        fn = ToLAS.single_rp66v1_file_to_las
    elif req['conv'] == 'LIS':
        from TotalDepth.LIS import ToLAS
        fn = ToLAS.single_lis_file_to_las
    else:
        from TotalDepth.BIT import ToLAS
        fn = ToLAS.single_bit_path_to_las_path
    os.chdir(req['cwd'])
    WriteLAS.convert_dir_or_file_to_las(req['path_in'], req['path_out'], False, req['reduction'], Slice.Slice(),
                                        set(req['channels']), req['width'], req['float_format'], fn)


def main():
    sys.path.insert(0, os.path.join(os.environ.get('VERIF_REPO', '/repo'), 'src'))
    from vt import build_ext
    build_ext.install()     # the extension modules built from the tree under test, as in the checking process
    # import, never convert
    from TotalDepth.common import Slice  # noqa
    from TotalDepth.LAS.core import WriteLAS  # noqa
    from TotalDepth.RP66V1 import ToLAS as _a  # noqa
    from TotalDepth.LIS import ToLAS as _b  # noqa
    from TotalDepth.BIT import ToLAS as _c  # noqa
    out = sys.stdout.buffer
    out.write(b'ready\n')
    out.flush()
    for line in sys.stdin.buffer:
        req = json.loads(line)
        pid = os.fork()
        if pid == 0:
            code = 3
            try:
                signal.alarm(120)
                try:
                    _child(req)
                    code = 0
                except Exception:  # noqa
                    code = 1
            finally:
                os._exit(code)
        _pid, status = os.waitpid(pid, 0)
        if os.WIFEXITED(status) and os.WEXITSTATUS(status) == 0:
            reply = 'ok'
        elif os.WIFEXITED(status) and os.WEXITSTATUS(status) == 1:
            reply = 'exception'
        else:
            reply = 'unavailable'
        out.write(json.dumps({'status': reply}).encode() + b'\n')
        out.flush()


if __name__ == '__main__':
    main()
