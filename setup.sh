#!/bin/bash
# Offline setup: hypothesis into /venv (no-op when present); jsonschema + atheris into /verif/.deps
HERE=$(cd "$(dirname "$0")" && pwd)
W=/opt/veriftools/wheels
/venv/bin/python -c "import hypothesis" 2>/dev/null || /venv/bin/pip install -q --no-index --find-links $W hypothesis || exit 1
mkdir -p "$HERE/.deps"
PYTHONPATH="$HERE/.deps" /venv/bin/python -c "import jsonschema" 2>/dev/null || \
  /venv/bin/pip install -q --no-index --find-links $W --target "$HERE/.deps" jsonschema || echo "warning: jsonschema not installed"
PYTHONPATH="$HERE/.deps" /venv/bin/python -c "import atheris" 2>/dev/null || \
  /venv/bin/pip install -q --no-index --find-links $W --target "$HERE/.deps" atheris || echo "warning: atheris not installed"
PYTHONPATH="$HERE:$HERE/.deps" /venv/bin/python -c "import hypothesis, vt.engine; print('setup ok: hypothesis', hypothesis.__version__)"
