#!/bin/bash
# Run the repository's own test-suite on /repo (or $1) both as pinned and with --runslow.
# The pinned run must be all green; the --runslow run is compared with the failures that
# already exist on the unchanged tree (tools/runslow_baseline_failures.txt: entry-point tests that
# need console scripts / network, perf tests).
REPO=${1:-/repo}
HERE=$(cd "$(dirname "$0")" && pwd)
cd "$REPO" || exit 2
echo "== pinned"
/venv/bin/python -m pytest -q -p no:cacheprovider --timeout=900 --continue-on-collection-errors -n 14 2>&1 | tail -3
echo "== runslow"
/venv/bin/python -m pytest -q -p no:cacheprovider --timeout=900 --continue-on-collection-errors -n 14 --runslow 2>&1 \
  | grep -E "^(FAILED|ERROR)" | sed 's/ - .*//' | sort > /tmp/runslow_now.txt
echo "new failures vs baseline:"
comm -13 "$HERE/runslow_baseline_failures.txt" /tmp/runslow_now.txt
echo "(end)"
