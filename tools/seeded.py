#!/venv/bin/python
"""Validate a seeded change and run the checks against it.

    tools/seeded.py <source dir with patch.diff, demo.py, notes.md> <seeded id, e.g. C05_1> <property id> [more property ids]

Steps (all in a scratch copy of /repo under $TMPDIR, removed afterwards; /repo is never touched):
 1. demo.py on the unchanged copy must exit 0;  2. patch applies;  3. demo.py on the patched copy must exit != 0;
 4. the pinned test suite on the patched copy must pass with the baseline counts;
 5. the quick tier of each listed check runs with VERIF_REPO=<patched copy>; exit 1 = caught.
The result is written to /verif/seeded/<id>/meta.json next to patch.diff / demo.py / notes.md.
"""
import json
import os
import re
import shutil
import subprocess
import sys
import tempfile
import time

VERIF = os.path.dirname(os.path.dirname(os.path.abspath(__file__)))


def run(cmd, cwd=None, env=None, timeout=3600):
    p = subprocess.run(cmd, cwd=cwd, env=env, stdout=subprocess.PIPE, stderr=subprocess.STDOUT, text=True, timeout=timeout)
    return p.returncode, p.stdout


def main(argv):
    src, sid, pids = argv[0], argv[1], argv[2:]
    out_dir = os.path.join(VERIF, 'seeded', sid)
    os.makedirs(out_dir, exist_ok=True)
    for f in ('patch.diff', 'demo.py', 'notes.md'):
        if os.path.exists(os.path.join(src, f)):
            shutil.copy(os.path.join(src, f), os.path.join(out_dir, f))
    meta = {'id': sid, 'breaks_property': pids[0], 'checks_run': pids, 'validated': False}
    tmp = tempfile.mkdtemp(prefix='vt_seed_')
    try:
        subprocess.check_call(['rsync', '-a', '--exclude', '.git', '--exclude', '__pycache__', '--exclude', 'docs', '/repo/', tmp + '/'])
        env = dict(os.environ, PYTHONPATH=os.path.join(tmp, 'src'), PYTHONDONTWRITEBYTECODE='1')
        demo = os.path.join(out_dir, 'demo.py')
        rc0, o0 = run(['/venv/bin/python', demo], cwd=tmp, env=env, timeout=600)
        meta['demo_unchanged_exit'] = rc0
        rc, o = run(['git', 'apply', '--unsafe-paths', '--directory=' + tmp, os.path.join(out_dir, 'patch.diff')], cwd='/')
        if rc != 0:
            rc, o = run(['patch', '-p1', '-d', tmp, '-i', os.path.join(out_dir, 'patch.diff')])
        meta['patch_applies'] = rc == 0
        if rc != 0:
            meta['patch_error'] = o[-500:]
        rc1, o1 = run(['/venv/bin/python', demo], cwd=tmp, env=env, timeout=600)
        meta['demo_changed_exit'] = rc1
        meta['demo_changed_output'] = o1[-400:]
        rc, o = run(['/venv/bin/python', '-m', 'pytest', '-q', '-p', 'no:cacheprovider', '-n', '10', '--timeout=900'], cwd=tmp, env=env)
        m = re.search(r'(\d+) passed', o)
        f = re.search(r'(\d+) failed', o)
        meta['suite_with_change'] = {'passed': int(m.group(1)) if m else None, 'failed': int(f.group(1)) if f else 0, 'exit': rc}
        meta['validated'] = bool(rc0 == 0 and meta['patch_applies'] and rc1 not in (0, None) and rc == 0)
        meta['checks'] = {}
        for pid in pids:
            cenv = dict(os.environ, VERIF_REPO=tmp, VERIF_SEED='1', VERIF_NO_SHRINK='1')
            t0 = time.time()
            crc, cout = run([os.path.join(VERIF, 'check'), pid, '--no-evidence'], cwd=VERIF, env=cenv)
            devs = [l.strip()[:300] for l in cout.splitlines() if l.startswith('  deviation')]
            meta['checks'][pid] = {'exit': crc, 'caught': crc == 1, 'seconds': round(time.time() - t0), 'deviations': devs[:4]}
            if crc == 2:
                meta['checks'][pid]['harness_error'] = cout[-600:]
    finally:
        shutil.rmtree(tmp, ignore_errors=True)
    meta['what_it_needs'] = ''
    notes = os.path.join(out_dir, 'notes.md')
    if os.path.exists(notes):
        meta['what_it_needs'] = 'see notes.md'
    meta['ran'] = 'tools/seeded.py: demo on unchanged/changed scratch copy, pinned pytest suite on changed copy, ./check <pid> --no-evidence with VERIF_REPO=<changed copy>'
    with open(os.path.join(out_dir, 'meta.json'), 'w') as fh:
        json.dump(meta, fh, indent=1)
    print(json.dumps({k: meta[k] for k in ('id', 'validated', 'demo_unchanged_exit', 'demo_changed_exit', 'suite_with_change')}, indent=None))
    for pid, c in meta.get('checks', {}).items():
        print('  %s: %s (%ss) %s' % (pid, 'CAUGHT' if c['caught'] else ('HARNESS-ERROR' if c['exit'] == 2 else 'MISSED'), c['seconds'], (c['deviations'] or [''])[0][:160]))
    return 0


if __name__ == '__main__':
    sys.exit(main(sys.argv[1:]))
