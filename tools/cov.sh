#!/bin/bash
# Line coverage of the code under test by one shard (0 of 4) of a check's quick tier: a diagnostic for generator reach, not a check.
#   tools/cov.sh C14 [more ids]     -> $TMPDIR/vt_cov/<id>.txt (missing lines per file under src/TotalDepth)
out=${TMPDIR:-/tmp}/vt_cov; mkdir -p $out
cd "$(dirname "$0")/.."
for p in "$@"; do
  PYTHONHASHSEED=0 PYTHONPATH=/verif:/verif/.deps PYTHONDONTWRITEBYTECODE=1 PYTHONWARNINGS=ignore COVERAGE_FILE=$out/$p.cov \
    /venv/bin/python -m coverage run --source=${VERIF_REPO:-/repo}/src/TotalDepth -m vt.runner $p --shard 0 --nshards 4 --out $out/$p.json > $out/$p.log 2>&1
  COVERAGE_FILE=$out/$p.cov /venv/bin/python -m coverage report -m --skip-covered 2>/dev/null > $out/$p.txt
  echo "$p done: $(tail -1 $out/$p.txt)"
done
